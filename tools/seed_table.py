#!/usr/bin/env python3
"""Regenerate the table of seeded changes of rounds >= 4 in DESIGN.md (between the SEEDS-TABLE markers) from seeded/*/meta.json."""
import json, os, re, sys
V = os.path.dirname(os.path.dirname(os.path.abspath(__file__)))
rows = []
for sid in sorted(os.listdir(os.path.join(V, "seeded"))):
    mp = os.path.join(V, "seeded", sid, "meta.json")
    if not os.path.exists(mp):
        continue
    m = json.load(open(mp))
    if m.get("round", 0) < 4:
        continue
    title = ""
    np_ = os.path.join(V, "seeded", sid, "NOTES.md")
    if os.path.exists(np_):
        for line in open(np_):
            if line.startswith("#"):
                title = line.lstrip("# ").strip()
                break
    title = re.sub(r"^C\d\d\s*[/,:-]*\s*(change|seed)?\s*[AB]?\s*[-:(]*\s*", "", title, flags=re.I)
    title = re.sub(r"^[AB]\s*[-:)]+\s*", "", title).strip(" -:")
    title = title.replace("|", "/")[:150]
    note = "own-missed at first" if m.get("history") else ""
    if not m.get("detected"):
        note = "NOT DETECTED"
    rows.append("| %s | %d | %s | %s | %s |" % (sid, m["round"], title, ", ".join(m.get("checks_that_fired") or []), note))
table = "| id | round | change (all compile and pass the 117 tests) | fires | note |\n|---|---|---|---|---|\n" + "\n".join(rows) + "\n"
p = os.path.join(V, "DESIGN.md")
t = open(p).read()
a, b = "<!-- SEEDS-TABLE BEGIN -->\n", "<!-- SEEDS-TABLE END -->\n"
if a in t:
    t = t[:t.index(a) + len(a)] + table + t[t.index(b):]
    open(p, "w").write(t)
print(len(rows), "rows")
