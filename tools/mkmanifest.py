#!/usr/bin/env python3
"""Regenerate MANIFEST.json from the rule modules that exist (checks/rules/cNN.py with REGISTER=True)
and validate it against the schema."""
import importlib
import json
import os
import sys

VERIF = os.path.dirname(os.path.dirname(os.path.abspath(__file__)))
sys.path.insert(0, os.path.join(VERIF, "checks"))

props = [json.loads(l) for l in open(os.path.join(VERIF, "properties.jsonl"))]
checks = []
na = []
for p in props:
    pid = p["id"]
    try:
        mod = importlib.import_module("rules.%s" % pid.lower())
    except ModuleNotFoundError:
        mod = None
    if mod is None or not getattr(mod, "REGISTER", False):
        reason = getattr(mod, "NOT_APPLICABLE", None) or \
            "structural clause designed (DESIGN.md section 5) but its recogniser is not yet built and self-tested; not claimed"
        na.append({"property_id": pid, "reason": reason})
        continue
    meta = mod.META
    checks.append({
        "property_id": pid,
        "quick_cmd": "./check %s --tier quick" % pid,
        "thorough_cmd": "./check %s --tier thorough" % pid,
        "evidence_file": "/verif/evidence/%s.json" % pid,
        "replay_cmd_template": "./check %s --explain {path}" % pid,
        "engine": "mirfacts",
        "level_claimed": {
            "category": meta.get("level", "other"),
            "text": "Decides (statically, over every path of the current MIR of /repo): " + meta["decides"] +
                    " Does NOT decide: " + meta["does_not_decide"],
            "design_ref": "DESIGN.md section 5, " + pid,
        },
        "level_note": "Trusted base: " + "; ".join(meta.get("trusted_base", [])),
        "technique": meta.get("technique", "static analysis of rustc MIR (custom rustc_private driver): provenance terms, "
                                           "dominators / path conditions, call graph, compared with spec tables"),
    })

m = {
    "version": 1,
    "setup_cmd": "cd /verif/driver && CARGO_NET_OFFLINE=true cargo +nightly build --release --offline && cd /verif && ./check C13 --tier quick --no-evidence >/dev/null && echo setup-ok",
    "hooks": {
        "guard": "coset_verif",
        "enable": "none needed: the checks are static and read the source as it is (no instrumentation commits)",
        "baseline_off_cmd": "cd /repo && cargo test --offline",
        "source_commits": [],
        "add_only": True,
    },
    "engines": [{
        "name": "mirfacts",
        "path": "/verif/driver (rustc_private fact dumper) + /verif/checks (python rules)",
        "serves_properties": [c["property_id"] for c in checks],
        "kind_free_text": "static analysis: custom rustc driver dumps type-checked MIR with resolved callees; python rules "
                          "(provenance terms, dominators, vec-length intervals, call graph/SCC, guard truth tables) compare it "
                          "with RFC 8152 / RFC 8392 / IANA tables. No coset code is executed.",
    }],
    "checks": checks,
    "notes": "Two genuine defects were repaired in /repo with `fix:` commits (C01 recursion bound, C12 encode-side duplicate "
             "labels); remaining genuine defects are listed in /verif/known_findings.json. See DESIGN.md sections 6-7.",
    "not_applicable": na,
}
out = os.path.join(VERIF, "MANIFEST.json")
json.dump(m, open(out, "w"), indent=1)
try:
    import jsonschema
    jsonschema.validate(m, json.load(open("/root/.vp/MANIFEST.schema.json")))
    print("MANIFEST valid: %d checks, %d not_applicable" % (len(checks), len(na)))
except ImportError:
    print("MANIFEST written (jsonschema not importable here; run with python3-vt to validate)")
