#!/usr/bin/env python3
"""Confirm a seeded breaking change and run the checks against it.

usage: tools/seed_eval.py <dir with patch.diff + tests/demo.rs (+NOTES.md)> <seed id> [--props C01,C02] [--keep]

1. in a scratch worktree of /repo (outside /repo and /verif, removed afterwards):
     demo passes without the patch; with the patch the crate's own suite passes and the demo fails
2. applies the patch to /repo itself (git apply), runs ./check for the given (default: all) properties,
   and undoes it straight afterwards (git checkout -- .)
3. prints / returns a JSON summary
"""
import argparse
import json
import os
import shutil
import subprocess
import sys
import tempfile

VERIF = os.path.dirname(os.path.dirname(os.path.abspath(__file__)))
ALL = ["C%02d" % i for i in range(1, 21)]


def sh(cmd, cwd=None, env=None, timeout=1800):
    r = subprocess.run(cmd, cwd=cwd, env=env, shell=isinstance(cmd, str), stdout=subprocess.PIPE, stderr=subprocess.STDOUT, text=True, timeout=timeout)
    return r.returncode, r.stdout


def confirm(src, sid, tgt):
    wt = tempfile.mkdtemp(prefix="seedeval-%s-" % sid)
    os.rmdir(wt)
    out = {}
    rc, o = sh(["git", "-C", "/repo", "worktree", "add", "--detach", wt, "HEAD", "-q"])
    if rc != 0:
        return {"error": "worktree: " + o}
    try:
        os.makedirs(os.path.join(wt, "tests"), exist_ok=True)
        demo = os.path.join(src, "tests", "demo.rs")
        if not os.path.exists(demo):
            demo = os.path.join(src, "demo.rs")
        shutil.copy(demo, os.path.join(wt, "tests", "demo.rs"))
        env = dict(os.environ, CARGO_TARGET_DIR=tgt, CARGO_NET_OFFLINE="true")
        rc, o = sh("cargo test --offline --test demo 2>&1 | tail -15", cwd=wt, env=env)
        out["demo_without_patch_passes"] = "test result: ok" in o and "FAILED" not in o
        out["demo_without_patch_tail"] = o[-600:]
        rc, o = sh(["git", "apply", os.path.join(src, "patch.diff")], cwd=wt)
        out["patch_applies"] = rc == 0
        if rc != 0:
            out["patch_error"] = o[-400:]
            return out
        rc, o = sh("cargo test --offline --lib 2>&1 | tail -5; cargo test --offline --doc 2>&1 | tail -4", cwd=wt, env=env)
        out["suite_with_patch_passes"] = "117 passed; 0 failed" in o and "test result: FAILED" not in o
        out["suite_tail"] = o[-500:]
        rc, o = sh("cargo test --offline --test demo 2>&1 | tail -25", cwd=wt, env=env)
        out["demo_with_patch_fails"] = ("test result: FAILED" in o) or ("panicked" in o and "test result: ok" not in o) or "overflowed its stack" in o \
            or "SIGABRT" in o or "SIGSEGV" in o
        out["demo_with_patch_tail"] = o[-800:]
    finally:
        sh(["git", "-C", "/repo", "worktree", "remove", "--force", wt])
        shutil.rmtree(wt, ignore_errors=True)
    return out


def run_checks(src, props):
    res = {}
    rc, o = sh(["git", "-C", "/repo", "status", "--porcelain", "--untracked-files=no"])
    if o.strip():
        return {"error": "/repo has local modifications; refusing to apply"}
    rc, o = sh(["git", "-C", "/repo", "apply", os.path.join(src, "patch.diff")])
    if rc != 0:
        return {"error": "apply: " + o}
    try:
        for p in props:
            rc, o = sh([os.path.join(VERIF, "check"), p, "--no-evidence"], cwd=VERIF)
            fired = "VIOLATION property=" in o
            lines = [l for l in o.splitlines() if (" violated: " in l or " cannot-decide: " in l or "cannot analyse" in l or "FAILED" in l
                                                    or "floor-not-met" in l or "missing-anchor" in l) and not l.startswith(" ")]
            res[p] = {"fired": fired, "exit": rc, "lines": lines[:8]}
    finally:
        sh(["git", "-C", "/repo", "checkout", "--", "."])
    return res


def main():
    ap = argparse.ArgumentParser()
    ap.add_argument("src")
    ap.add_argument("sid")
    ap.add_argument("--props", default=",".join(ALL))
    ap.add_argument("--skip-confirm", action="store_true")
    ap.add_argument("--target", default="/tmp/seedeval-target")
    args = ap.parse_args()
    args.src = os.path.abspath(args.src)
    out = {"id": args.sid, "src": args.src}
    if not args.skip_confirm:
        out["confirm"] = confirm(args.src, args.sid, args.target)
    out["checks"] = run_checks(args.src, args.props.split(","))
    fired = sorted(p for p, r in out["checks"].items() if isinstance(r, dict) and r.get("fired"))
    out["fired"] = fired
    print(json.dumps(out, indent=1))


if __name__ == "__main__":
    main()
