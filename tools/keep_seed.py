#!/usr/bin/env python3
"""Store a confirmed seeded change under /verif/seeded/<id>/ (patch.diff, demo, NOTES.md, meta.json)."""
import json, os, shutil, sys
src, sid, prop = sys.argv[1], sys.argv[2], sys.argv[3]
ev = json.load(open(sys.argv[4]))
dst = os.path.join(os.path.dirname(os.path.dirname(os.path.abspath(__file__))), "seeded", sid)
os.makedirs(dst, exist_ok=True)
shutil.copy(os.path.join(src, "patch.diff"), os.path.join(dst, "patch.diff"))
demo = os.path.join(src, "tests", "demo.rs")
if not os.path.exists(demo):
    demo = os.path.join(src, "demo.rs")
shutil.copy(demo, os.path.join(dst, "demo.rs"))
if os.path.exists(os.path.join(src, "NOTES.md")):
    shutil.copy(os.path.join(src, "NOTES.md"), os.path.join(dst, "NOTES.md"))
c = ev.get("confirm", {})
notes = open(os.path.join(src, "NOTES.md")).read() if os.path.exists(os.path.join(src, "NOTES.md")) else ""
meta = {
    "id": sid, "breaks_property": prop,
    "origin": "written by an independent sub-agent given only the property text and a scratch worktree of /repo (nothing from /verif)",
    "needs_to_manifest": sys.argv[5] if len(sys.argv) > 5 else "see NOTES.md",
    "confirmed_by_me": {
        "how": "tools/seed_eval.py in a scratch worktree of /repo HEAD (removed afterwards): cargo test --offline --test demo without the patch; "
               "git apply patch.diff; cargo test --offline --lib and --doc; cargo test --offline --test demo",
        "demo_passes_without_change": c.get("demo_without_patch_passes"),
        "patch_applies": c.get("patch_applies"),
        "existing_suite_passes_with_change": c.get("suite_with_patch_passes"),
        "demo_fails_with_change": c.get("demo_with_patch_fails"),
    },
    "checks_run": "git -C /repo apply patch.diff; ./check <ID> --no-evidence for all 20 properties; git -C /repo checkout -- .",
    "checks_that_fired": ev.get("fired"),
    "report_lines": {p: ev["checks"][p]["lines"][:4] for p in ev.get("fired", [])},
    "detected": prop in (ev.get("fired") or []),
}
json.dump(meta, open(os.path.join(dst, "meta.json"), "w"), indent=1)
print("kept", dst, "detected by", meta["checks_that_fired"])
