#!/usr/bin/env python3
"""Mutation sweep (a testing aid for the checkers, DESIGN 8): token-level mutants of coset's sources that still compile and
pass the crate's own unit tests are analysed by all 20 checks (on fact files, never touching /repo's working tree).
A survivor on which no check fires is either an equivalent mutant or a hole in the rules - it is listed for inspection.

usage: mutsweep.py <scratch-dir> [--files a,b] [--ops cmp,logic,not,const,del] [--max N] [-j N] [--seed S]
"""
import argparse, json, os, random, re, shutil, subprocess, sys
from concurrent.futures import ThreadPoolExecutor

VERIF = os.path.dirname(os.path.dirname(os.path.abspath(__file__)))
FILES = ["src/common/mod.rs", "src/util/mod.rs", "src/header/mod.rs", "src/key/mod.rs", "src/sign/mod.rs", "src/mac/mod.rs",
         "src/encrypt/mod.rs", "src/cwt/mod.rs", "src/context/mod.rs", "src/iana/mod.rs"]
CMP = [(" <= ", " < "), (" < ", " <= "), (" >= ", " > "), (" > ", " >= "), (" == ", " != "), (" != ", " == ")]
LOGIC = [(" && ", " || "), (" || ", " && ")]
SIBLINGS = [
    ["SignatureContext::CoseSign1", "SignatureContext::CoseSignature", "SignatureContext::CounterSignature"],
    ["MacContext::CoseMac0", "MacContext::CoseMac"],
    ["EncryptionContext::CoseEncrypt0", "EncryptionContext::CoseEncrypt", "EncryptionContext::EncRecipient"],
    ["try_as_bytes", "try_as_nonempty_bytes"],
    ["ALG", "CRIT", "CONTENT_TYPE", "KID", "IV", "PARTIAL_IV", "COUNTER_SIG"],
    ["KTY", "KEY_OPS", "BASE_IV"],
    ["ISS", "SUB", "AUD", "EXP", "NBF", "IAT", "CTI"],
    ["Value::Bytes", "Value::Text"],
    ["self.protected", "self.unprotected"],
    ["aad", "payload"],
    ["external_aad", "payload"],
    ["from_cbor_value_depth(value, depth)", "from_cbor_value(value)"],
    ["create_ciphertext", "try_create_ciphertext"],
    ["tbs_data", "tbs_detached_data"],
    ["is_none()", "is_some()"],
    ["Some(", "Ok("],
    ["Label::Int", "Label::Text"],
    ["to_cbor_value()", "to_vec()"],
    ["cbor_bstr()", "to_cbor_value()"],
    ["signature", "payload"],
    ["tag", "payload"],
    ["ciphertext", "plaintext"],
]


def mutants(text, fname, ops):
    lines = text.split("\n")
    out = []
    for i, ln in enumerate(lines):
        s = ln.strip()
        if not s or s.startswith("//") or s.startswith("#[") or s.startswith("use ") or "=>" in s and s.startswith("///"):
            continue
        code = ln.split("//")[0]
        if "cmp" in ops:
            for a, b in CMP:
                for m in re.finditer(re.escape(a), code):
                    if a.strip() in ("<", ">") and ("->" in code[max(0, m.start() - 2):m.end() + 2] or "=>" in code[max(0, m.start() - 2):m.end() + 2]):
                        continue
                    out.append((i, "cmp %s->%s" % (a.strip(), b.strip()), code[:m.start()] + b + code[m.end():]))
        if "logic" in ops:
            for a, b in LOGIC:
                for m in re.finditer(re.escape(a), code):
                    out.append((i, "logic %s->%s" % (a.strip(), b.strip()), code[:m.start()] + b + code[m.end():]))
        if "not" in ops:
            for m in re.finditer(r"(?<![=!<>\w])!(?=[a-zA-Z_(])", code):
                if code[m.end():].startswith(("(", "[")) and code[:m.start()].rstrip().endswith(("vec", "matches", "assert", "panic", "format", "write", "unreachable", "builder", "builder_set", "iana_registry")):
                    continue
                out.append((i, "drop !", code[:m.start()] + code[m.end():]))
        if "const" in ops and fname != "src/iana/mod.rs":
            for m in re.finditer(r"(?<![\w.\"'])(\d+)(?![\w.\"'])", code):
                n = int(m.group(1))
                if n > 300:
                    continue
                for d in (1, -1):
                    if n + d < 0:
                        continue
                    out.append((i, "const %d->%d" % (n, n + d), code[:m.start()] + str(n + d) + code[m.end():]))
        if "const" in ops and fname == "src/iana/mod.rs":
            m = re.match(r"^(\s+\w+: )(-?\d+),\s*$", code)
            if m and random.random() < 0.06:
                n = int(m.group(2))
                out.append((i, "iana %d->%d" % (n, n + 1), m.group(1) + str(n + 1) + ","))
        if "sibling" in ops:
            for group in SIBLINGS:
                for a in group:
                    for m in re.finditer(r"(?<![\w:])%s(?![\w])" % re.escape(a), code):
                        for b in group:
                            if b != a:
                                out.append((i, "sibling %s->%s" % (a, b), code[:m.start()] + b + code[m.end():]))
        if "neg" in ops:
            for m in re.finditer(r"(?<![!\w.])((?:self\.)?[a-z_][\w.]*\.(?:is_empty|is_none|is_some|contains)\()", code):
                out.append((i, "insert !", code[:m.start()] + "!" + code[m.start():]))
        if "rev" in ops:
            for m in re.finditer(r"\.into_iter\(\)", code):
                out.append((i, "add .rev()", code[:m.end()] + ".rev()" + code[m.end():]))
            for m in re.finditer(r"\.rev\(\)", code):
                out.append((i, "drop .rev()", code[:m.start()] + code[m.end():]))
        if "argswap" in ops:
            for m in re.finditer(r"\(([a-z_&][\w.&]*), ([a-z_&][\w.&]*)\)", code):
                if m.group(1) != m.group(2):
                    out.append((i, "swap args", code[:m.start()] + "(%s, %s)" % (m.group(2), m.group(1)) + code[m.end():]))
        if "del" in ops:
            if re.match(r"^\s+[a-z_][\w.]*(\.\w+)*\([^;]*\);\s*$", code) and not s.startswith(("let ", "return", "assert", "panic")):
                out.append((i, "delete statement", ""))
    return [(fname, i, what, new, lines[i]) for i, what, new in out]


def run(cmd, cwd=None, env=None, timeout=900):
    try:
        r = subprocess.run(cmd, cwd=cwd, env=env, stdout=subprocess.PIPE, stderr=subprocess.STDOUT, text=True, timeout=timeout)
        return r.returncode, r.stdout
    except subprocess.TimeoutExpired:
        return 124, "timeout"


def one(args):
    idx, mut, base, scratch, nworkers = args
    fname, line, what, new, old = mut
    w = idx % nworkers
    d = os.path.join(scratch, "w%d" % w, "m%d" % idx)
    shutil.rmtree(d, ignore_errors=True)
    shutil.copytree(base, d)
    p = os.path.join(d, fname)
    lines = open(p).read().split("\n")
    lines[line] = new
    open(p, "w").write("\n".join(lines))
    res = {"idx": idx, "file": fname, "line": line + 1, "what": what, "old": old.strip(), "new": new.strip()}
    facts = os.path.join(scratch, "facts-%d" % idx)
    os.makedirs(facts, exist_ok=True)
    env = dict(os.environ, MIRFACTS_NONCE="x", MIRFACTS_TARGET=os.path.join(scratch, "tgt-dump-%d" % w), CARGO_NET_OFFLINE="true")
    rc, out = run([os.path.join(VERIF, "dump.sh"), d, facts], env=env)
    if rc != 0 or not os.path.exists(os.path.join(facts, "coset.json")):
        res["status"] = "does-not-compile"
        shutil.rmtree(d, ignore_errors=True); shutil.rmtree(facts, ignore_errors=True)
        return res
    env2 = dict(os.environ, CARGO_TARGET_DIR=os.path.join(scratch, "tgt-test-%d" % w), CARGO_NET_OFFLINE="true", RUSTFLAGS="-Awarnings")
    rc, out = run(["cargo", "test", "--offline", "--lib", "-q"], cwd=d, env=env2, timeout=1200)
    shutil.rmtree(d, ignore_errors=True)
    if rc != 0:
        res["status"] = "killed-by-tests"
        shutil.rmtree(facts, ignore_errors=True)
        return res
    fired = []
    for i in range(1, 21):
        c = "C%02d" % i
        rc, out = run([os.path.join(VERIF, "check"), c, "--no-evidence", "--facts", os.path.join(facts, "coset.json")], timeout=1500)
        if rc != 0:
            fired.append(c)
    res["status"] = "survived-tests"
    res["fired"] = fired
    shutil.rmtree(facts, ignore_errors=True)
    return res


def main():
    ap = argparse.ArgumentParser()
    ap.add_argument("scratch")
    ap.add_argument("--files", default=",".join(FILES))
    ap.add_argument("--ops", default="cmp,logic,not,const,del,sibling,neg,rev,argswap")
    ap.add_argument("--max", type=int, default=0)
    ap.add_argument("-j", type=int, default=10)
    ap.add_argument("--seed", type=int, default=1)
    ap.add_argument("--out", default=None)
    a = ap.parse_args()
    random.seed(a.seed)
    os.makedirs(a.scratch, exist_ok=True)
    base = os.path.join(a.scratch, "base")
    shutil.rmtree(base, ignore_errors=True)
    os.makedirs(base)
    subprocess.run("git -C /repo archive HEAD | tar -x -C %s" % base, shell=True, check=True)
    ms = []
    for f in a.files.split(","):
        ms.extend(mutants(open(os.path.join(base, f)).read(), f, set(a.ops.split(","))))
    random.shuffle(ms)
    if a.max:
        ms = ms[:a.max]
    print("%d mutants" % len(ms), flush=True)
    out = a.out or os.path.join(a.scratch, "results.jsonl")
    with open(out, "a") as fo, ThreadPoolExecutor(max_workers=a.j) as ex:
        for r in ex.map(one, [(i, m, base, a.scratch, a.j) for i, m in enumerate(ms)]):
            fo.write(json.dumps(r) + "\n"); fo.flush()
            if r["status"] == "survived-tests":
                print("%s %s:%d %s | %s => %s | fired %s" % ("HOLE?" if not r["fired"] else "ok   ", r["file"], r["line"], r["what"], r["old"][:70], r["new"][:70], r["fired"]), flush=True)


if __name__ == "__main__":
    main()
