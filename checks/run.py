#!/usr/bin/env python3
"""Runner: ./check <ID> [--tier quick|thorough] [--repo DIR] [--explain PATH] [--no-evidence]

Dumps facts for the working tree (fresh fingerprint, nonce verified), runs the rule module of the
property on them, prints one line per rule, writes evidence/<ID>.json, and on a violation that is
not a listed known finding prints `VIOLATION property=<ID> replay=<path>` and exits 1.
"""
import argparse
import fcntl
import hashlib
import importlib
import json
import os
import subprocess
import sys
import time

HERE = os.path.dirname(os.path.abspath(__file__))
VERIF = os.path.dirname(HERE)
sys.path.insert(0, HERE)

from lib.facts import Program, FactsError  # noqa: E402

CONFIGS = {"default": [], "std": ["--features", "std"]}
EXPECTED_RUSTC = "rustc 1.97.0-nightly"


def dump_facts(repo, config, out_root):
    """run the driver over `repo`; returns path of the fact file"""
    nonce = "%d-%d-%s" % (time.time_ns(), os.getpid(), config)
    out = os.path.join(out_root, "facts", "%s-%d" % (config, os.getpid()))
    os.makedirs(out, exist_ok=True)
    env = dict(os.environ)
    env["MIRFACTS_NONCE"] = nonce
    env["CARGO_NET_OFFLINE"] = "true"
    tgt = os.path.join(out_root, "target-" + config)
    env["MIRFACTS_TARGET"] = tgt
    os.makedirs(out_root, exist_ok=True)
    lock = open(os.path.join(out_root, "lock-" + config), "w")
    fcntl.flock(lock, fcntl.LOCK_EX)
    try:
        drv = os.path.join(VERIF, "driver/target/release/coset-mirfacts")
        if not os.path.exists(drv):
            raise FactsError("driver not built: run MANIFEST.setup_cmd (%s missing)" % drv)
        r = subprocess.run([os.path.join(VERIF, "dump.sh"), repo, out] + CONFIGS[config],
                           env=env, stdout=subprocess.PIPE, stderr=subprocess.STDOUT, text=True)
    finally:
        fcntl.flock(lock, fcntl.LOCK_UN)
        lock.close()
    path = os.path.join(out, "coset.json")
    if r.returncode != 0 or not os.path.exists(path):
        raise FactsError("cargo check under the fact dumper failed for config %s:\n%s" % (config, r.stdout[-3000:]))
    return path, nonce


RULE_BUDGET_S = 900      # quick checks take 5-20 s, thorough ones under a minute


class Ctx:
    def __init__(self, prop, tier, progs, repo):
        self.prop = prop
        self.tier = tier
        self.progs = progs
        self.prog = progs["default"]
        self.repo = repo
        self.obs = []
        self.info = []
        self.analysed = {}
        self.config = "default"

    def ob(self, rule, key, ok, what, where=None, detail=None, kind=None, sample=None):
        """record one obligation.  key must be stable (no line numbers)."""
        self.obs.append({
            "rule": rule, "key": "%s:%s:%s" % (self.prop, rule, key), "ok": bool(ok), "what": what,
            "where": where, "detail": detail, "config": self.config,
            "kind": None if ok else (kind or "violated"), "sample": sample,
        })
        return bool(ok)

    def cannot(self, rule, key, what, where=None, detail=None):
        return self.ob(rule, key, False, what, where, detail, kind="cannot-decide")

    def floor(self, rule, name, measured, minimum):
        return self.ob(rule, "floor:" + name, measured >= minimum,
                       "instance count for %s is %d (floor %d, counted on the pinned tree)" % (name, measured, minimum),
                       detail={"measured": measured, "floor": minimum},
                       kind="floor-not-met (rule would pass vacuously)")

    def note(self, msg):
        self.info.append(msg)

    def under(self, rule, tag=None):
        """a view of this context that files every obligation under ONE rule of the current property: used when a property
        re-runs the recogniser of another one as a dependency (its statement includes that clause)"""
        return _Under(self, rule, tag)

    def count(self, name, n):
        self.analysed[name] = self.analysed.get(name, 0) + n


class _Under:
    def __init__(self, ctx, rule, tag):
        self._ctx, self._rule, self._tag = ctx, rule, tag

    def __getattr__(self, name):
        return getattr(self._ctx, name)

    def _key(self, rule, key):
        return "%s%s:%s" % ((self._tag + ":") if self._tag else "", rule, key)

    def ob(self, rule, key, ok, what, where=None, detail=None, kind=None, sample=None):
        return self._ctx.ob(self._rule, self._key(rule, key), ok, what, where, detail, kind, sample)

    def cannot(self, rule, key, what, where=None, detail=None):
        return self._ctx.cannot(self._rule, self._key(rule, key), what, where, detail)

    def floor(self, rule, name, measured, minimum):
        return self._ctx.floor(self._rule, self._key(rule, name), measured, minimum)


def load_known():
    p = os.path.join(VERIF, "known_findings.json")
    if not os.path.exists(p):
        return []
    return json.load(open(p))["findings"]


def main():
    ap = argparse.ArgumentParser()
    ap.add_argument("prop")
    ap.add_argument("--tier", default=os.environ.get("VERIF_TIER", "quick"))
    ap.add_argument("--repo", default="/repo")
    ap.add_argument("--out", default=os.path.join(VERIF, "out"))
    ap.add_argument("--explain", default=None)
    ap.add_argument("--no-evidence", action="store_true")
    ap.add_argument("--facts", default=None, help="use an existing fact file (debugging only)")
    ap.add_argument("--json", action="store_true", help="print obligations as json (self-test harness)")
    args = ap.parse_args()
    prop = args.prop.upper()
    tier = "thorough" if args.tier == "thorough" else "quick"
    t0 = time.time()
    seed = int(os.environ.get("VERIF_SEED", "0") or 0)
    checker_cmd = "./check %s --tier %s" % (prop, tier)

    mod = importlib.import_module("rules.%s" % prop.lower())
    configs = ["default"] if tier == "quick" else ["default", "std"]
    progs = {}
    fact_hashes = {}
    fatal = None
    try:
        v = subprocess.run(["rustc", "+nightly", "--version"], stdout=subprocess.PIPE, text=True).stdout.strip()
        if not v.startswith(EXPECTED_RUSTC):
            raise FactsError("toolchain drift: %r (driver was written against %s)" % (v, EXPECTED_RUSTC))
        for c in configs:
            if args.facts and c == "default":
                progs[c] = Program(args.facts)
            else:
                path, nonce = dump_facts(args.repo, c, args.out)
                progs[c] = Program(path, expect_nonce=nonce)
                fact_hashes[c] = hashlib.sha256(open(path, "rb").read()).hexdigest()[:16]
                if not args.facts:
                    try:
                        os.remove(path)
                        os.rmdir(os.path.dirname(path))
                    except OSError:
                        pass
    except FactsError as e:
        fatal = str(e)

    ctx = None
    if fatal is None:
        ctx = Ctx(prop, tier, progs, args.repo)
        try:
            # an analysis that does not come back is a verdict nobody gets: fail closed after a generous budget
            import signal

            def _timeout(signum, frame):
                raise TimeoutError("rule did not finish within %d s" % RULE_BUDGET_S)
            signal.signal(signal.SIGALRM, _timeout)
            signal.alarm(RULE_BUDGET_S)
            for c in configs:
                ctx.config = c
                ctx.prog = progs[c]
                mod.check(ctx)
            if tier == "thorough" and hasattr(mod, "thorough"):
                ctx.config = "thorough-extra"
                ctx.prog = progs["default"]
                mod.thorough(ctx)
            if len(configs) > 1:
                cross_config(ctx, configs)
        except FactsError as e:
            ctx.ob("anchor", "missing", False, str(e), kind="missing-anchor")
        except Exception as e:   # a rule met a shape it has no case for: fail closed, but say so
            import traceback
            tb = traceback.format_exc().strip().splitlines()
            ctx.ob("internal", "rule-crashed", False, "the rule implementation failed on this tree (%s: %s); nothing it would have "
                   "reported is known" % (type(e).__name__, e), kind="cannot-decide", detail={"traceback": tb[-6:]})

    try:
        import signal
        signal.alarm(0)
    except Exception:
        pass
    known = [k for k in load_known() if k["property"] == prop]
    known_keys = {k["key"]: k for k in known if k["status"] == "known"}
    viol = []
    knownhit = []
    rules = {}
    if ctx:
        for o in ctx.obs:
            r = rules.setdefault(o["rule"], [0, 0])
            r[0] += 1
            if o["ok"]:
                r[1] += 1
            elif o["key"] in known_keys:
                knownhit.append(o)
            else:
                viol.append(o)
        if args.json:
            print(json.dumps([o for o in ctx.obs if not o["ok"]], indent=1, default=str))
        for r in sorted(rules):
            n, ok = rules[r]
            print("%s %s %s obligations=%d discharged=%d" % (prop, r, "ok" if n == ok else "FAILED", n, ok))
        for m in ctx.info:
            print("%s note: %s" % (prop, m))
    seen_known = set()
    for o in knownhit:
        if o["key"] in seen_known:
            continue
        seen_known.add(o["key"])
        print("KNOWN-FINDING: property=%s %s [%s]" % (prop, known_keys[o["key"]]["what"], o["key"]))

    if args.explain:
        explain(args.explain, ctx, viol, knownhit)

    vdir = os.path.join(args.out, "violations")
    exit_code = 0
    if fatal is not None:
        os.makedirs(vdir, exist_ok=True)
        p = os.path.join(vdir, "%s-fatal.json" % prop)
        json.dump({"property": prop, "fatal": fatal}, open(p, "w"), indent=1)
        print("%s cannot analyse: %s" % (prop, fatal))
        print("VIOLATION property=%s replay=%s" % (prop, p))
        exit_code = 1
    seen = set()
    for o in viol:
        if o["key"] in seen:
            continue
        seen.add(o["key"])
        os.makedirs(vdir, exist_ok=True)
        h = hashlib.sha1(o["key"].encode()).hexdigest()[:10]
        p = os.path.join(vdir, "%s-%s.json" % (prop, h))
        json.dump(o, open(p, "w"), indent=1, default=str)
        print("%s %s %s: %s  at %s" % (prop, o["rule"], o["kind"], o["what"], o.get("where")))
        if o.get("detail"):
            print("    detail: %s" % (json.dumps(o["detail"], default=str)[:600]))
        print("VIOLATION property=%s replay=%s" % (prop, p))
        exit_code = 1

    if not args.no_evidence:
        write_evidence(prop, tier, seed, mod, ctx, viol, knownhit, fatal, checker_cmd, fact_hashes, time.time() - t0, configs)
    sys.exit(exit_code)


def explain(path, ctx, viol, knownhit):
    """replay of one recorded violation: is the obligation still violated on the current tree, and what does the
    analysed code look like (MIR of the function the obligation names)"""
    try:
        rec = json.load(open(path))
    except (OSError, ValueError) as e:
        print("explain: cannot read %s: %s" % (path, e))
        return
    key = rec.get("key")
    print("explain: recorded obligation %s (%s)" % (key, rec.get("what")))
    now = [o for o in (ctx.obs if ctx else []) if o["key"] == key]
    if not now:
        print("explain: the obligation is not generated on the current tree (its anchor no longer exists or the rule changed)")
        return
    for o in now:
        print("explain: on the current tree: %s [%s] at %s" % ("discharged" if o["ok"] else o["kind"], o["config"], o.get("where")))
        print(json.dumps(o.get("detail"), indent=1, default=str)[:4000])
    from lib import mirpp
    prog = ctx.prog
    names = [k for k in prog.fns if k and k in (key or "")]
    for k in sorted(names, key=len, reverse=True)[:1]:
        f = prog.fns[k]
        d = dict(f.d)
        d["blocks"], d["locals"] = f.blocks, f.locals
        print("explain: MIR of %s (private helpers inlined)" % k)
        print(mirpp.fn(d, k))


def cross_config(ctx, configs):
    """the two feature configurations must give identical rule results"""
    by = {}
    for o in ctx.obs:
        by.setdefault(o["config"], {})[o["key"]] = o["ok"]
    a, b = by.get(configs[0], {}), by.get(configs[1], {})
    ctx.config = "cross"
    diff = sorted(k for k in set(a) | set(b) if a.get(k) != b.get(k))
    ctx.ob("X-config", "same-results", not diff,
           "rule results identical with and without the std feature (%d obligations each)" % len(a),
           detail={"differing": diff[:20]})
    fa = set(ctx.progs[configs[0]].fns)
    fb = set(ctx.progs[configs[1]].fns)
    extra = sorted(fa ^ fb)
    allowed = [k for k in extra if "std::error::Error" in k or "core::error::Error" in k]
    ctx.ob("X-config", "same-functions", len(extra) == len(allowed),
           "function sets of the two configurations differ only by `impl Error for CoseError`",
           detail={"only_in_one": extra[:20]})


def write_evidence(prop, tier, seed, mod, ctx, viol, knownhit, fatal, checker_cmd, fact_hashes, wall, configs):
    meta = getattr(mod, "META", {})
    level = meta.get("level", "other")
    obs = ctx.obs if ctx else []
    n = len(obs)
    ok = sum(1 for o in obs if o["ok"])
    if level == "proof" and (n != ok or fatal):
        level = "other"  # a proof-level claim needs every obligation discharged
    distinct = len({o["key"] for o in obs if o["rule"] != "X-config" and not o["key"].split(":", 2)[2].startswith("floor:")})
    samples = []
    seen_rules = set()
    for o in obs:
        if o["rule"] in seen_rules and len(samples) >= 12:
            continue
        if o["rule"] not in seen_rules or o.get("sample"):
            seen_rules.add(o["rule"])
            samples.append({"rule": o["rule"], "key": o["key"], "ok": o["ok"], "what": o["what"],
                            "where": o.get("where"), "detail": o.get("sample") or o.get("detail")})
        if len(samples) >= 40:
            break
    rules = {}
    for o in obs:
        r = rules.setdefault(o["rule"], {"obligations": 0, "discharged": 0})
        r["obligations"] += 1
        r["discharged"] += 1 if o["ok"] else 0
    prog = ctx.prog if ctx else None
    analysed = {}
    if ctx:
        analysed = dict(ctx.analysed)
        p0 = ctx.progs.get("default")
        if p0:
            analysed.update({"functions_in_crate": len(p0.real_fns()),
                             "basic_blocks": sum(len(f.blocks) for f in p0.real_fns()),
                             "call_sites": sum(1 for f in p0.real_fns() for _ in f.calls()),
                             "adts": len(p0.adts), "impls": len(p0.impls)})
    ev = {
        "property_id": prop, "tier": tier, "seed": seed, "level": level,
        "coverage": {
            "obligations": n, "discharged": ok, "checker_cmd": checker_cmd,
            "trusted_base": meta.get("trusted_base", []),
            "explanation": meta.get("explanation", ""),
            "evaluations": max(n, 1), "distinct_nontrivial": distinct,
            "rule": "one evaluation = one obligation (a rule instance at a concrete program construct of /repo's "
                    "current MIR); distinct = distinct stable obligation keys, floors and cross-config checks excluded",
            "samples": samples or [{"fatal": fatal}],
            "exhaustive": True,
            "rules": rules,
            "analysed": analysed,
            "configs": configs,
            "facts_sha256_16": fact_hashes,
            "decides": meta.get("decides", ""),
            "does_not_decide": meta.get("does_not_decide", ""),
            "known_findings_hit": sorted({o["key"] for o in knownhit}),
            "notes": ctx.info if ctx else [],
        },
        "assumptions": meta.get("assumptions", meta.get("trusted_base", [])),
        "wall_s": round(wall, 3),
        "violations": len({o["key"] for o in viol}) + (1 if fatal else 0),
    }
    os.makedirs(os.path.join(VERIF, "evidence"), exist_ok=True)
    p = os.path.join(VERIF, "evidence", "%s.json" % prop)
    tmp = p + ".tmp%d" % os.getpid()
    json.dump(ev, open(tmp, "w"), indent=1, default=str)
    os.replace(tmp, p)


if __name__ == "__main__":
    main()
