"""C02 - protected-header bytes are kept and reused bit-for-bit, never re-encoded."""
from lib.prov import Prov, show, is_call, subterms
from lib.guards import outcomes
from lib.facts import callee_path
from lib.veclen import VecLen
from lib.callgraph import CallGraph
from lib import codec
from rules import structs_common as S
from rules.c09 import decoder_key
from rules.c11 import check_cbor_bstr, check_is_empty, enc_key
from spec.rfc8152 import STRUCTS, KDF_STRUCTS, MESSAGE_TYPES, STRUCTURES, ROUTING

REGISTER = True
META = {
    "level": "proof",
    "decides": "R-1 the only constructions of ProtectedHeader are: the wire constructor (original_data = Some(the bstr it parsed from), "
               "bytes never mutated between extraction and storage), the bare-map conversion and the builder setters (both None), and "
               "derived Default/Clone; no other function writes `original_data`; R-2 every structure carrying a protected header "
               "(8 message types + KDF supplementary info; counter-signatures transitively) decodes that slot through the wire "
               "constructor; R-3 cbor_bstr returns the stored bytes themselves when present and serialises only on the None edge; "
               "R-4 nobody else serialises a protected header: to_cbor_value / to_vec of ProtectedHeader are reached only from "
               "cbor_bstr, every encoder and all three structure functions take the slot from cbor_bstr, and no encode / structure / "
               "verify path reads `.protected.header`; R-5 every call of a structure function is handed a clone of the carrier's stored "
               "protected header (not a rebuilt one).",
    "does_not_decide": "that ciborium hands back exactly the bytes of the bstr (indefinite-length strings are concatenated by ciborium - "
                       "trusted); 'the parsed view is the same for every encoding' holds by type (the decoder's input is a Value)",
    "trusted_base": ["ciborium Value::Bytes holds the bstr content", "derive(Clone) clones field-wise"],
}
META["decides"] += ' (As built: R-1 also accepts any other construction from a given Header that stores original_data = None; R-5 is decided in every public function with all crate-local callees expanded in place.)'
META["decides"] += ' R-3 also: the map form of ProtectedHeader is Header::to_cbor_value(self.header) and the byte-level API defaults are not overridden; R-5 also: Clone impls are derived; the wire constructor / Clone / Default of ProtectedHeader are the derived ones.'

PH = "header::ProtectedHeader"
WIRE_CTOR = "header::ProtectedHeader::from_cbor_bstr_depth"
BARE = "<header::ProtectedHeader as common::AsCborValue>::from_cbor_value"


def check_constructions(ctx, R="R-1"):
    """retained wire bytes exist only where a protected header was decoded: every construction of ProtectedHeader is the wire
    constructor (Some(the bytes it parsed)), a derived Clone / Default, or stores None; the builder setters discard retained
    bytes; nobody else writes `original_data`.  This is what makes `cbor_bstr` mean "the received bytes for a decoded message
    and otherwise the encoded map" (C02 R-1; re-run under C03 / C04 / C05 whose statements contain that clause)."""
    prog = ctx.prog
    ctors = []
    for f in prog.real_fns():
        pv = None
        for bi, b in enumerate(f.blocks):
            if b["cleanup"]:
                continue
            for si, s in enumerate(b["stmts"]):
                if s["k"] == "assign" and s["rv"]["k"] == "aggr" and s["rv"].get("adt") == PH:
                    pv = pv or Prov(f)
                    t = pv.rvalue_term(s["rv"], bi, si)
                    ctors.append((f, bi, dict(t[3])))
    n_setters = 0
    for f, bi, fields in ctors:
        od = fields.get("original_data")
        hd = fields.get("header")
        if f.key == WIRE_CTOR and od == ("aggr", "core::option::Option", "None", ()) and len([c for c in ctors if c[0].key == WIRE_CTOR]) > 1:
            # `ProtectedHeader { original_data: Some(data), ..Self::from_header(h) }`: the base of a struct-update expression is a
            # temporary built without bytes; the construction that carries them is judged on its own (and must exist, below)
            ok = any(c[2].get("original_data", ("?",))[0] == "aggr" and c[2]["original_data"][2] == "Some" for c in ctors if c[0].key == WIRE_CTOR)
            what = "a temporary without wire bytes inside the wire constructor, next to the construction that stores them"
        elif f.key == WIRE_CTOR:
            from lib.prov import strip_sites
            ok = od is not None and od[0] == "aggr" and od[2] == "Some" and bool(od[3]) \
                and strip_sites(od[3][0][1]) == ("tryok", ("call", codec.TRY_BYTES, (("param", 0),)))
            what = "the wire constructor stores Some(<the bytes extracted from its argument>)"
        elif f.key == BARE:
            ok = od == ("aggr", "core::option::Option", "None", ())
            what = "the bare-map conversion has no bytes to keep (None)"
        elif f.impl_trait in ("core::clone::Clone", "core::default::Default") and f.impl_self_adt == PH:
            # compiler-derived, or literally what the derive generates: a field-by-field copy / the all-empty value
            imp = next((i for i in prog.impls if i.get("trait") == f.impl_trait and i.get("self_adt") == PH), None)
            ok = bool(f.d.get("from_expansion")) or (imp is not None and S._structural_impl(prog, imp, prog.adts.get(PH) or {}))
            what = "%s for ProtectedHeader is the derived one (or literally structural)" % f.impl_trait.split("::")[-1]
        elif f.name == "protected" and f.impl_self_ty and f.impl_self_ty.endswith("Builder") and f.impl_trait is None:
            n_setters += 1
            ok = od == ("aggr", "core::option::Option", "None", ()) and hd == ("param", 1)
            what = "builder setter discards retained wire bytes (None) and takes the given header"
        elif od == ("aggr", "core::option::Option", "None", ()):
            # any other place that builds a protected header from a Header it was given (a conversion, a constructor):
            # it claims no wire bytes, so the header is serialised afresh - that is the locally-built case
            ok = True
            what = "a locally built protected header carries no wire bytes (None)"
        else:
            ok = False
            what = "construction of ProtectedHeader with retained bytes outside the wire constructor"
        ctx.ob(R, "ctor:%s" % f.key, ok, "%s: %s" % (f.key, what), where=f.where(bi),
               detail={"original_data": show(od)[:100] if od else None, "header": show(hd)[:100] if hd else None},
               sample={"fn": f.key, "original_data": show(od)[:80] if od else None} if f.key in (WIRE_CTOR,) else None)
    ctx.floor(R, "ProtectedHeader constructions", len(ctors), 10)
    ctx.floor(R, "builder setters", n_setters, 9)
    # bytes not mutated in the wire constructor
    w = prog.fn(WIRE_CTOR)
    pw = Prov(w)
    muts = []
    for e in pw.effects():
        if e["kind"] == "call" and e["place"][0] == "local" and w.local_ty(e["place"][1]) == "alloc::vec::Vec<u8>":
            muts.append(e["callee"])
    ctx.ob(R, "bytes-not-mutated", not muts, "the extracted byte string is never mutably borrowed between extraction and storage",
           where=w.span, detail={"mutating_calls": muts})
    # nobody else writes original_data
    writers = []
    for f in prog.real_fns():
        if f.impl_trait in ("core::clone::Clone",) and f.impl_self_adt == PH:
            continue
        for e in Prov(f).effects():
            for s in subterms(e["place"]):
                if s[0] == "field" and s[2] == "original_data":
                    writers.append("%s (%s)" % (f.key, f.where(e["bb"])))
    ctx.ob(R, "no-other-writer", not writers, "no function assigns to or mutates the `original_data` field", detail={"writers": writers})


def check(ctx):
    prog = ctx.prog
    # ---- R-1 constructions ------------------------------------------------------------------------------------
    check_constructions(ctx, "R-1")

    # ---- R-2 every wire slot -------------------------------------------------------------------------------------
    carriers = dict((t, STRUCTS[t]) for t in MESSAGE_TYPES)
    carriers["context::SuppPubInfo"] = KDF_STRUCTS["context::SuppPubInfo"]
    n = 0
    for ty, spec in sorted(carriers.items()):
        f = prog.fn(decoder_key(ty))
        pv = Prov(f)
        vl = VecLen(f)
        agg = codec.OkAggregate(f, pv)
        want_slot = [s[0] for s in spec[1] if s[2] == "protected"][0]
        if agg.problem or "protected" not in agg.fields:
            ctx.cannot("R-2", "wire-slot:%s" % ty, "cannot read the decoder of %s" % ty, where=f.span)
            continue
        d = codec.slot_kind(prog, f, pv, vl, agg, "protected")
        n += 1
        ctx.ob("R-2", "wire-slot:%s" % ty, d["kind"] == "protected" and d["slot"] == want_slot,
               "%s.protected = ProtectedHeader::from_cbor_bstr(<array slot %d>)?" % (ty, want_slot), where=f.span, detail={"found": d},
               sample={"type": ty, "slot": d["slot"], "via": d["kind"]})
    ctx.floor("R-2", "carriers", n, 9)
    pub = prog.fn("header::ProtectedHeader::from_cbor_bstr")
    rt = Prov(pub).return_term()
    ctx.ob("R-2", "public-wrapper", is_call(rt, WIRE_CTOR) and rt[2][0] == ("param", 0),
           "from_cbor_bstr(v) is the wire constructor applied to v", where=pub.span)

    # ---- R-3 -----------------------------------------------------------------------------------------------------
    from rules import extractors as _ex
    _ex.check_extractors(ctx.under("R-1", "extractors"), "R-1", only={"try_as_bytes"})        # the bytes stored are the item's own
    check_cbor_bstr(ctx, "R-3")
    from rules.c11 import check_protected_map_form
    from rules import c13 as _c13
    check_protected_map_form(ctx, "R-3")                       # what the None edge serialises
    _c13.check_byte_api(ctx.under("R-3", "bytes-api"))         # ... through the un-overridden to_vec default
    S.check_derived_impls(ctx, "R-5", {"core::clone::Clone"})
    check_is_empty(ctx, "R-3")

    # ---- "... are what is placed into the to-be-signed, to-be-MACed and AEAD additional-data structures": each structure
    # function puts its header parameters into the slots of the RFC layout and every carrier routes its own stored header(s)
    # to the right parameter (the recognisers of C03-C05 R-2 / R-3 under this property's name) --------------------------------
    for _sfn in ("sign::sig_structure_data", "mac::mac_structure_data", "encrypt::enc_structure_data"):
        S.check_assembly(ctx.under("R-4", "layout"), "R-2", _sfn)
        S.check_routing_inlined(ctx.under("R-4", "routing"), "R-3", _sfn)
    # ---- R-4 nobody re-encodes --------------------------------------------------------------------------------------
    cb = "header::ProtectedHeader::cbor_bstr"
    tovec_callers = []
    tocv_callers = []
    for f in prog.real_fns():
        for bb, t in f.calls():
            c = t.get("callee") or {}
            r = c.get("resolved") or {}
            full = r.get("full") or c.get("full") or ""
            if full.startswith("<header::ProtectedHeader as common::CborSerializable>::to_vec") or \
                    (c.get("path") == "common::CborSerializable::to_vec" and c.get("self_ty") == PH):
                tovec_callers.append(f.key)
            if full.startswith("<header::ProtectedHeader as common::AsCborValue>::to_cbor_value"):
                tocv_callers.append(f.key)
    for k, inst in prog.instances.items():
        for bbs, c in inst["calls"].items():
            if (c.get("rfull") or "").startswith("<header::ProtectedHeader as common::AsCborValue>::to_cbor_value"):
                tocv_callers.append(k)
    ok_tocv = all(k.startswith("<header::ProtectedHeader as common::CborSerializable>::to_") for k in tocv_callers)
    # (cbor_bstr may equally serialise `self.header` - the same map, C07's ProtectedHeader pair - which R-3 decides)
    ctx.ob("R-4", "who-serialises", set(tovec_callers) <= {cb} and ok_tocv,
           "ProtectedHeader::to_vec is called only by cbor_bstr, and its to_cbor_value only from that to_vec",
           detail={"to_vec_callers": sorted(set(tovec_callers)), "to_cbor_value_callers": sorted(set(tocv_callers))})
    n_slots = 0
    for ty in sorted(carriers):
        e = prog.fn(enc_key(ty))
        pe = Prov(e)
        rc = codec.returned_operand(e, pe, "Array")
        els = codec.array_elements(e, pe, *rc) if rc else None
        hit = [codec.emit_kind(prog, e, pe, el) for el in (els or [])]
        hit = [h for h in hit if h[1] == "protected"]
        n_slots += 1 if hit else 0
        ctx.ob("R-4", "encoder-slot:%s" % ty, len(hit) == 1 and hit[0][0] == "protected",
               "%s encodes its protected slot as cbor_bstr(self.protected)?" % ty, where=e.span, detail={"found": hit})
    ctx.floor("R-4", "encoder protected slots", n_slots, 9)
    # no reads of `.protected.header` on encode / structure / verify paths
    cg = CallGraph(prog)
    roots = [enc_key(t) for t in carriers] + list(STRUCTURES) + list(ROUTING) + [cb]
    roots += [f.key for f in prog.real_fns() if f.name in ("verify_signature", "verify_detached_signature", "verify_tag", "decrypt",
                                                              "tbs_data", "tbs_detached_data", "tbm", "aad")
              or f.name.startswith(("create_", "try_create_", "add_created", "add_detached", "try_add_"))]
    # (what is_empty and the map encoder call - a `len()` that is_empty is built on, say - is reached only from cbor_bstr's
    # None edge as well)
    ONLY_FROM_NONE_EDGE = ("header::ProtectedHeader::is_empty", "<header::ProtectedHeader as common::AsCborValue>::to_cbor_value")
    reach = {cg.def_of(k) for k in cg.reachable([r for r in roots if r in prog.fns], stop=ONLY_FROM_NONE_EDGE)}
    offenders = []
    for k in sorted(reach):
        f = prog.fns[k]
        if f.impl_trait in ("core::clone::Clone", "core::cmp::PartialEq", "core::fmt::Debug", "core::default::Default"):
            continue
        if k in ("header::ProtectedHeader::is_empty", "<header::ProtectedHeader as common::AsCborValue>::to_cbor_value", cb):
            continue  # reached only from cbor_bstr's None edge (R-3); what cbor_bstr itself does with the header is R-3
        for bi, b in enumerate(f.blocks):
            if b["cleanup"]:
                continue
            places = []
            for s in b["stmts"]:
                if s["k"] == "assign":
                    places.append(s["dst"])
                    rv = s["rv"]
                    for key in ("place",):
                        if key in rv:
                            places.append(rv[key])
                    for opk in ("op", "a", "b"):
                        if opk in rv and isinstance(rv[opk], dict) and "place" in rv[opk]:
                            places.append(rv[opk]["place"])
                    for o in rv.get("ops", []) or []:
                        if "place" in o:
                            places.append(o["place"])
            t = b["term"]
            for a in t.get("args", []) or []:
                if "place" in a:
                    places.append(a["place"])
            for p in places:
                names = [e[2] for e in p["p"] if e[0] == "field"]
                for i in range(len(names) - 1):
                    if names[i] == "protected" and names[i + 1] == "header":
                        offenders.append("%s (%s)" % (k, f.where(bi)))
                if PH in f.local_ty(p["l"]) and names[:1] == ["header"]:
                    offenders.append("%s (%s)" % (k, f.where(bi)))
    ctx.ob("R-4", "parsed-view-not-used-for-output", not offenders,
           "no encode / structure / verify / decrypt path reads the parsed `.header` of a protected header (%d functions scanned)" % len(reach),
           detail={"offenders": sorted(set(offenders))[:10]}, sample={"functions_scanned": len(reach)})
    for sfn in STRUCTURES:
        f = prog.fn(sfn)
        pv = Prov(f)
        r, why = codec.array_passed_to_writer(f, pv)
        problems = []
        if not r:
            problems.append(why)
        else:
            ph_params = [i for i in range(f.arg_count) if PH in f.local_ty(i + 1)]
            for i in ph_params:
                P = ("param", i)
                opt = f.local_ty(i + 1).startswith("core::option::Option<")
                src = ("field", ("variant", P, "Some"), "0") if opt else P
                users = [e for e in r[1] if any(s == P for s in subterms(e["term"]))]
                good = [e for e in users if is_call(e["term"], S.EXPECT_R) and is_call(e["term"][2][0], cb) and e["term"][2][0][2] == (src,)]
                if len(users) != 1 or len(good) != 1:
                    problems.append("parameter %d (a protected header) must feed exactly one slot, as cbor_bstr(<it>); found %s" % (
                        i, [show(e["term"])[:60] for e in users]))
                # no element may be selected by looking INTO the header (e.g. `if hdr.is_empty() {h''} else {..}`)
                for e in r[1]:
                    for c in e["conds"]:
                        subj = c[0]
                        if subj == ("discr", P) or (c[1] == "variant" and subj == P):
                            continue      # Some / None of the optional header itself, not its content
                        if any(s == P for s in subterms(subj)):
                            problems.append("a slot is chosen by inspecting protected-header parameter %d: %s" % (i, show(subj)[:80]))
            others = [e for e in r[1] if any(is_call(s) and ("CborSerializable" in s[1] and "to_vec" in s[1] or s[1].endswith("::to_cbor_value")) for s in subterms(e["term"]))]
            if others:
                problems.append("the function serialises a header itself")
        ctx.ob("R-4", "structure-slot:%s" % sfn, not problems,
               "%s takes every protected slot from cbor_bstr of the corresponding parameter, unconditionally, and serialises no header itself" % sfn,
               where=f.span, detail={"problems": problems})

    # ---- R-5 ------------------------------------------------------------------------------------------------------
    n = 0
    allv = prog.view("all")     # public functions with everything they call expanded in place (helpers have no say)
    for sfn in STRUCTURES:
        for f, bb in S.structure_call_sites(allv, sfn):
            if not f.is_pub:
                continue        # a private function is judged where it is used
            pv = Prov(f)
            t = f.blocks[bb]["term"]
            args = [pv.operand_term(a, bb, "term") for a in t["args"]]
            n += 1
            bad = []
            for i, a in enumerate(args):
                ty = _arg_ty(f, t["args"][i])
                if ty is None or PH not in ty:
                    continue
                inner = a
                if inner[0] == "aggr" and inner[1] == "core::option::Option":
                    if inner[2] == "None":
                        continue
                    inner = inner[3][0][1]
                if not (is_call(inner, S.CLONE_PH) and _is_stored_protected(S.strip_ref(inner[2][0]))):
                    bad.append("argument %d is %s" % (i, show(a)[:80]))
            ctx.ob("R-5", "stored-header-handed-over:%s" % f.key, not bad,
                   "%s hands %s a clone of a carrier's stored protected header" % (f.key, sfn.split("::")[-1]), where=f.where(bb),
                   detail={"problems": bad})
    ctx.floor("R-5", "structure call sites", n, 8)


def _arg_ty(f, op):
    if op["k"] in ("copy", "move") and not op["place"]["p"]:
        return f.local_ty(op["place"]["l"])
    return op.get("ty")


def _is_stored_protected(t):
    """X.protected with X = self / self.0 / a parameter (by ref)"""
    if t[0] != "field" or t[2] != "protected":
        return False
    base = t[1]
    while True:
        if base[0] in ("deref", "ref"):
            base = base[1]
        elif base[0] == "field" and base[2] in ("0", "signatures"):
            base = base[1]
        elif is_call(base, "core::ops::index::Index::index") and len(base[2]) == 2:
            base = base[2][0]          # one signer of self.signatures
        else:
            break
    return base[0] == "param"
