"""C09 - message structures: accepted iff they match their CDDL, slots map to fields."""
from lib.prov import Prov, show, is_call, resolve_consts
from lib.guards import outcomes, normalize_bool_cond
from lib.veclen import VecLen
from lib import codec
from lib.census import census
from spec.rfc8152 import STRUCTS, MESSAGE_TYPES

REGISTER = True
META = {
    "level": "proof",
    "decides": "for the 8 message types: R-1 the set of array lengths for which an Ok exit is reachable equals the CDDL arity "
               "(vec-length dataflow seeded with each length 0..9 and 40); R-2 every field of the result is fed from the array "
               "slot the CDDL names (original index re-derived through the order of removes) through the extractor of the CDDL's "
               "kind (from_cbor_bstr / Header decoder / try_as_bytes / bstr-or-nil match / element-wise conversion with the right "
               "element decoder); R-3 the decoder's reject sites are exactly: not-an-array, wrong arity, and one per slot kind - "
               "nothing else can reject; R-4 field coverage; R-5 from_cbor_bstr: empty bstr -> default header, otherwise the "
               "one-item parse of exactly those bytes, and the public decoder entry points are pure wrappers of the depth-budgeted ones.",
    "does_not_decide": "ciborium's parsing of the bytes into a Value (trusted); whether a nested signature/recipient array may be "
                       "empty is left open by the property and not checked; nesting of counter-signatures deeper than 16 is rejected "
                       "(the C01 repair) - a deliberate bound, not a CDDL rule",
    "trusted_base": ["RFC 8152 CDDL as transcribed in spec/rfc8152.py", "std Vec::remove/len semantics", "ciborium Value data model"],
}
META["decides"] += ' R-3 also: no decoding error is swallowed by any caller; R-5 also: read_to_value hands on exactly the parsed item.'

DEC = {"sign::CoseSignature": "sign::CoseSignature::from_cbor_value_depth"}
WRAPPERS = {
    "<sign::CoseSignature as common::AsCborValue>::from_cbor_value": "sign::CoseSignature::from_cbor_value_depth",
    "<header::Header as common::AsCborValue>::from_cbor_value": "header::Header::from_cbor_value_depth",
    "header::ProtectedHeader::from_cbor_bstr": "header::ProtectedHeader::from_cbor_bstr_depth",
}


def decoder_key(ty):
    return DEC.get(ty, "<%s as common::AsCborValue>::from_cbor_value" % ty)


def check_struct(ctx, ty, spec, rules=("R-1", "R-2", "R-3", "R-4")):
    prog = ctx.prog
    arities, slots = spec[0], spec[1]
    f = prog.fn(decoder_key(ty))
    pv = Prov(f)
    vl = VecLen(f)
    agg = codec.OkAggregate(f, pv)
    R1, R2, R3, R4 = rules
    if agg.problem or agg.adt != ty:
        ctx.cannot(R2, "shape:%s" % ty, "%s: %s" % (f.key, agg.problem or "Ok payload is %s" % agg.adt), where=f.span)
        return None
    got = codec.accepted_arities(f)
    got_small = {n for n in got if n < 40}
    ctx.ob(R1, "arity:%s" % ty, got_small == set(arities) and 40 not in got,
           "%s accepts exactly arrays of %s items (found: %s)" % (ty, sorted(arities), sorted(got)), where=f.span,
           detail={"accepted": sorted(got), "cddl": sorted(arities)}, sample={"type": ty, "accepted_lengths": sorted(got)})
    table = {}
    for s in slots:
        idx, field, kind = s[0], s[1], s[2]
        optional = len(s) > 3
        if field not in agg.fields:
            ctx.ob(R2, "slot:%s.%s" % (ty, field), False, "%s has a public field `%s`" % (ty, field), kind="missing-anchor")
            continue
        d = codec.slot_kind(prog, f, pv, vl, agg, field)
        table[field] = d
        ok = d["slot"] == idx and d["kind"] == kind and bool(d.get("optional")) == optional
        ctx.ob(R2, "slot:%s.%s" % (ty, field), ok,
               "%s.%s comes from array slot %d as %s%s (found: slot %s as %s%s)" % (
                   ty, field, idx, kind, " (optional)" if optional else "", d["slot"], d["kind"], " (optional)" if d.get("optional") else ""),
               where=f.where(d.get("site_bb")) if d.get("site_bb") is not None else f.span,
               detail={"found": d}, sample={"type": ty, "field": field, "slot": d["slot"], "kind": d["kind"]})
    # field coverage
    allf = prog.struct_fields(ty) or []
    specf = [s[1] for s in slots]
    ctx.ob(R4, "coverage:%s" % ty, sorted(allf) == sorted(specf) and sorted(agg.fields) == sorted(allf),
           "every field of %s is produced by its decoder and named by the CDDL table" % ty,
           detail={"struct": allf, "decoder": sorted(agg.fields), "cddl": specf})
    # census
    cen = census(f, pv, vl)
    expected = {"propagate:" + codec.TRY_ARRAY: 1, "err:UnexpectedItem@len": 1}
    alt = {}
    for s in slots:
        idx, field, kind = s[0], s[1], s[2]
        if kind == "protected":
            ks = ["propagate:header::ProtectedHeader::from_cbor_bstr", "propagate:header::ProtectedHeader::from_cbor_bstr_depth"]
        elif kind == "header":
            ks = ["propagate:<header::Header as common::AsCborValue>::from_cbor_value", "propagate:header::Header::from_cbor_value_depth"]
        elif kind == "bstr":
            ks = ["propagate:" + codec.TRY_BYTES]
        elif kind == "bstr/nil":
            ks = ["type-error:slot%d" % idx]
        elif kind.startswith("array<"):
            ks = ["propagate:" + codec.TRY_ARRAY_CONVERT]
        elif kind.startswith("int<"):
            ks = ["propagate:" + codec.TRY_INTEGER, "propagate:" + codec.TRY_INTO]
            for k in ks:
                expected[k] = expected.get(k, 0) + 1
            continue
        elif kind == "bstr/int<i64>/nil":
            ks = ["type-error:slot%d" % idx]
            expected["propagate:" + codec.TRY_INTO] = expected.get("propagate:" + codec.TRY_INTO, 0) + 1
            if "propagate:" + codec.TRY_INTEGER in cen:
                # the Integer arm narrowing through `v.try_as_integer()?.try_into()?`: the first `?` cannot fail on that arm
                expected["propagate:" + codec.TRY_INTEGER] = expected.get("propagate:" + codec.TRY_INTEGER, 0) + 1
        elif kind.startswith("nested<"):
            ks = None
        else:
            ks = None
        if ks:
            hit = [k for k in ks if k in cen]
            k = hit[0] if hit else ks[0]
            expected[k] = expected.get(k, 0) + 1
    extra = sorted(set(cen) - set(expected))
    missing = sorted(set(expected) - set(cen))
    if any(d.get("expanded") for d in table.values()):
        # a slot decoded by the loop `try_as_array_then_convert` stands for: the helper's one reject site is the array test (already
        # counted once for the input) plus the failures of the element decoder inside that loop
        missing = [k for k in missing if k != "propagate:" + codec.TRY_ARRAY_CONVERT]
        extra = [k for k in extra if not all(_inside_a_loop(f, o["bb"]) for o in cen[k])]
    ctx.ob(R3, "census:%s" % ty, not extra and not missing,
           "the reject sites of %s are exactly {not an array, wrong arity, one per slot}; extra=%s missing=%s" % (ty, extra, missing),
           where=f.span, detail={"found": {k: len(v) for k, v in cen.items()}, "expected": expected},
           sample={"type": ty, "reject_sites": {k: len(v) for k, v in cen.items()}})
    return table


def _inside_a_loop(f, bb):
    """bb lies in the body of some loop of f, or hangs off one (the error exit of a loop body)"""
    if f.cfg.in_loop(bb):
        return True
    seen, cur = set(), bb
    while cur not in seen and len(f.cfg.pred[cur]) == 1:
        seen.add(cur)
        cur = f.cfg.pred[cur][0]
        if f.cfg.in_loop(cur):
            return True
    return False


def check_protected_bstr(ctx, rule):
    """ProtectedHeader::from_cbor_bstr: the slot must be a bstr; empty -> the default header, otherwise the header decoded
    from exactly one item of those bytes; nothing else can reject (shared with C08: a header in protected position is
    accepted exactly when the bare map is)"""
    prog = ctx.prog
    ph = prog.fn("header::ProtectedHeader::from_cbor_bstr_depth")
    pv = Prov(ph)
    agg = codec.OkAggregate(ph, pv)
    good = False
    det = {}
    oks_ = [o for o in outcomes(ph, pv) if o["kind"] == "ok"]
    if agg.problem and len(oks_) == 2 and all(o["inner"][0] == "aggr" and o["inner"][1] == "header::ProtectedHeader" for o in oks_):
        # the empty-bstr shortcut as an early `return Ok(..)`: two literals, each under its own side of the emptiness test
        datas = set()
        seen = {}
        for o in oks_:
            flds = dict(o["inner"][3])
            od = flds.get("original_data")
            if od and od[0] == "aggr" and od[2] == "Some":
                datas.add(od[3][0][1])
            for c in o["conds"]:
                nb = normalize_bool_cond(c)
                if nb and is_call(nb[0]) and nb[0][1].endswith("::is_empty"):
                    a = nb[0][2][0]
                    inner = a[1] if a[0] == "ref" else a
                    if od and inner == od[3][0][1]:
                        seen[nb[1]] = flds.get("header")
        det["header_arms"] = [show(v)[:120] for v in seen.values() if v]
        if len(datas) == 1:
            data = next(iter(datas))
            e, ne = seen.get(True), seen.get(False)
            good = bool(data[0] == "tryok" and is_call(data[1], codec.TRY_BYTES) and data[1][2] == (("param", 0),)
                        and e is not None and ne is not None and is_call(e, "<header::Header as core::default::Default>::default")
                        and ne[0] == "tryok" and is_call(ne[1], "header::Header::from_cbor_value_depth"))
    if not agg.problem and agg.adt == "header::ProtectedHeader":
        data = None
        od = agg.term("original_data")
        if od[0] == "aggr" and od[2] == "Some":
            data = od[3][0][1]
        det["data"] = show(data) if data else None
        arms = agg.arms("header")
        det["header_arms"] = [show(a[0])[:120] for a in arms]
        if data == ("tryok", ("call", codec.TRY_BYTES, (("param", 0),), data[1][3] if data and data[0] == "tryok" else None)) and len(arms) == 2:
            from lib.guards import conditions
            seen = {}
            for term, dbb in arms:
                for c in conditions(ph, pv, dbb):
                    nb = normalize_bool_cond(c)
                    if nb and is_call(nb[0]) and nb[0][1].endswith("::is_empty"):
                        a = nb[0][2][0]
                        inner = a[1] if a[0] == "ref" else a
                        if inner == data:
                            seen[nb[1]] = term
            e, ne = seen.get(True), seen.get(False)
            good = bool(e is not None and ne is not None and is_call(e, "<header::Header as core::default::Default>::default")
                        and ne[0] == "tryok" and is_call(ne[1], "header::Header::from_cbor_value_depth"))
    ctx.ob(rule, "protected-bstr", good,
           "from_cbor_bstr: the slot must be a bstr; empty -> Header::default(), otherwise the header decoded from exactly one item of those bytes",
           where=ph.span, detail=det, sample=det)
    cen = census(ph, pv)
    want = {"propagate:" + codec.TRY_BYTES, "propagate:common::read_to_value", "propagate:header::Header::from_cbor_value_depth"}
    ctx.ob(rule, "protected-bstr-census", set(cen) == want, "from_cbor_bstr rejects only: not a bstr, not exactly one item, not a header map",
           detail={"found": sorted(cen)})


def check_wrappers(ctx, rule):
    """the public `from_cbor_value` of the depth-budgeted decoders is the budgeted function with a positive constant budget"""
    prog = ctx.prog
    for w, target in sorted(WRAPPERS.items()):
        f = prog.fn(w)
        rt = resolve_consts(prog, Prov(f).return_term())
        ok = is_call(rt) and rt[1] == target and len(rt[2]) == 2 and rt[2][0] == ("param", 0) and rt[2][1][0] == "const" \
            and isinstance(rt[2][1][1], int) and rt[2][1][1] >= 1
        ctx.ob(rule, "wrapper:%s" % w, ok, "%s is exactly %s(value, <constant budget >= 1>)" % (w, target), where=f.span,
               detail={"return": show(rt)[:160]})


def check(ctx):
    prog = ctx.prog
    for ty in MESSAGE_TYPES:
        check_struct(ctx, ty, STRUCTS[ty])
    ctx.floor("R-2", "message types", len(MESSAGE_TYPES), 8)
    from rules import extractors as _ex
    _ex.check_extractors(ctx.under("R-2", "extractors"), "R-2")
    from rules import c13 as _c13
    _c13.check_read_to_value(ctx.under("R-5", "parser-entry"), "R-5")      # the byte-level entry hands on exactly the parsed item
    from rules import c15 as _c15
    _c15.check_rejections_propagate(ctx.under("R-3", "rejections"), "R-3", set(), variants=None, what="any decoding error", floor=40)

    # R-5 wrappers and the protected bstr
    check_wrappers(ctx, "R-5")
    check_protected_bstr(ctx, "R-5")
