"""C08 - header maps: accepted iff well-formed, and every field means what the wire said."""
from lib.prov import Prov, show, is_call, subterms
from lib.guards import conditions, normalize_bool_cond, outcomes, path_variants, cond_variants
from lib.mapcodec import MapDecoder, NEXT, INTO_ITER, strip_into_iter
from lib import codec
from lib.evalterm import ev, Unknown
from spec.rfc8152 import HEADER_PARAMS

REGISTER = True
META = {
    "level": "proof",
    "decides": "R-1 the label dispatch of the header decoder has exactly the cases 1..7, each case writes exactly the typed field "
               "RFC 8152 table 2 names, from THIS entry's value, through the validator the table names (registry-with-private "
               "algorithm; non-empty array of registered header labels; registered CoAP content format or text with the three text "
               "rules; non-empty bstr x3; one COSE_Signature or non-empty array of them discriminated by the first element), and "
               "every other integer or text label pushes the unmodified (label, value) pair to `rest` in wire order; "
               "R-2 every path from a field write to the next iteration passes the IV/Partial-IV exclusion test "
               "(reject iff both non-empty); R-3 the set of reject sites, per label class, is exactly the RFC's rules - "
               "no rule missing, no extra rejection; R-4 the decoder can write all 8 fields of Header.",
    "does_not_decide": "'iff' as a statement over all maps; that std's str::trim / str::matches / is_empty do what their names say; "
                       "label classification and integer range are C17/C15; duplicate labels are C12; counter-signature nesting "
                       "deeper than 16 is rejected by the C01 repair",
    "trusted_base": ["RFC 8152 section 3.1 as transcribed in spec/rfc8152.py", "std str::trim, str::matches, Iterator::count, Vec::is_empty",
                     "ciborium Value data model (the decoder's input has no memory of its encoding)"],
}
META["decides"] += ' (As built: list-valued fields are decided on the sequence the arm contributes, however it is spelled; the decoded value is written only by the per-entry dispatch - nothing sorts or rewrites a field outside the loop; a header in protected position goes through the same decoder and is rejected for nothing else.)'
META["decides"] += ' Also under R-1: the duplicate rule of this decoder, read_to_value hands on the parsed item, no decoding error is swallowed by any caller on the way up, every entry is dispatched, derived Default / PartialEq / Eq.'

DEC = "header::Header::from_cbor_value_depth"
RESULT = "header::Header"

# (label class, normalised reject key) - RFC 8152 section 3.1 rules + section 14 (duplicates) + the C01 depth bound
CENSUS = {
    ("pre", "not-a-map"),                       # not a map
    ("all", "propagate:<common::Label as common::AsCborValue>::from_cbor_value"),  # label not int/tstr or out of range
    ("all", "err:DuplicateMapKey"),
    ("1", "propagate:<common::RegisteredLabelWithPrivate<T> as common::AsCborValue>::from_cbor_value"),
    ("2", "type-error:slot?"), ("2", "err:UnexpectedItem@is_empty"),
    ("2", "propagate:<common::RegisteredLabel<T> as common::AsCborValue>::from_cbor_value"),
    ("3", "propagate:<common::RegisteredLabel<T> as common::AsCborValue>::from_cbor_value"),
    ("3", "err:UnexpectedItem@is_empty"), ("3", "err:UnexpectedItem@eq+trim"), ("3", "err:UnexpectedItem@count+matches"),
    ("4", "propagate:" + codec.TRY_NONEMPTY), ("5", "propagate:" + codec.TRY_NONEMPTY), ("6", "propagate:" + codec.TRY_NONEMPTY),
    ("7", "err:DecodeFailed@checked_sub"),                        # nesting budget exhausted (C01 repair)
    ("7", "propagate:" + codec.TRY_ARRAY), ("7", "err:UnexpectedItem@is_empty"), ("7", "type-error:slot?"),
    ("7", "propagate:sign::CoseSignature::from_cbor_value_depth"),
    ("all", "err:iv-and-partial-iv"),                              # IV and Partial IV both present (R-2 truth table)
}


def full_of(fn, c):
    return codec._full_self(fn, c)


def check_dispatch(ctx, md, params, result_adt, rule="R-1"):
    """shared by C08/C10/C18: label -> field/validator table"""
    prog = ctx.prog
    fn = md.fn
    by_label = {}
    for cls, effs in md.table.items():
        name = md.class_name(cls)
        for f, e in effs:
            by_label.setdefault(name, []).append((f, e))
    stray = [(f, (e.get("callee") or "assignment").split("::")[-1], fn.where(e["bb"])) for f, e in md.outside_effects]
    ctx.ob(rule, "frame:outside-dispatch:%s" % result_adt, not stray,
           "the decoded %s is written only by the per-entry dispatch: nothing sorts, truncates, clears or rewrites a field before or "
           "after the loop over the map entries" % result_adt.split("::")[-1], where=fn.span, detail={"writes_outside_the_loop": stray})
    skipped = md.skipped_entries()
    ctx.ob(rule, "frame:every-entry-dispatched:%s" % result_adt, not skipped,
           "every map entry is either stored or rejected: no iteration goes on to the next entry without a write to the decoded %s"
           % result_adt.split("::")[-1], where=fn.where(skipped[0]) if skipped else fn.span,
           detail={"continues_without_storing_at": [fn.where(b) for b in skipped]})
    # "accepted if and only if": a rejection raised anywhere below (a nested header, signature, label, value extractor) reaches
    # the caller of every decoder on the way up - nobody catches an error and carries on (the rule of C15 R-5 for every error)
    from rules import c15 as _c15
    _c15.check_rejections_propagate(ctx.under(rule, "rejections"), rule, set(), variants=None, what="any decoding error", floor=40)
    # the label of every entry and every label-typed value is what the wire said: the label codecs carry the wire payload
    # over unchanged (C07 R-5's recogniser; a label decoder that lower-cases text labels changes what is stored)
    from rules import c07 as _c07
    for _ty in ("common::Label", "common::RegisteredLabel<T>", "common::RegisteredLabelWithPrivate<T>"):
        _c07._enum_pair(ctx.under(rule, "label-codec"), _ty)
    listed = sorted(md.listed)
    ctx.ob(rule, "cases:%s" % result_adt, listed == sorted(params),
           "the typed labels dispatched by the %s decoder are exactly %s (found %s)" % (result_adt, sorted(params), listed), where=fn.span)
    return by_label


def _protected_position(ctx):
    """a header map inside a protected bstr goes through the same decoder and is rejected for nothing else (C09 R-5's
    recogniser under this property's name)"""
    from rules import c09

    class Sub:
        def __init__(self, ctx):
            self.ctx, self.prog = ctx, ctx.prog

        def ob(self, rule, key, ok, what, **kw):
            return self.ctx.ob("R-3", "protected-position:" + key, ok, what, **kw)
    c09.check_protected_bstr(Sub(ctx), "R-3")


def _decoder_full(fn, pv, path):
    """the resolved `<T as AsCborValue>::from_cbor_value` behind a call of `path` in fn (generic impls print as <..<T>..>)"""
    from lib.facts import callee_path, callee_full
    fulls = {callee_full(t) for bb, t in fn.calls() if callee_path(t) == path}
    return next(iter(fulls)) if len(fulls) == 1 else None


def value_is_entry(md, t):
    return md.sym(t) == ("sym", "value")


def check(ctx):
    prog = ctx.prog
    fn = prog.fn(DEC)
    md = MapDecoder(prog, fn)
    if md.problem:
        ctx.cannot("R-1", "decoder-shape", "%s: %s" % (DEC, md.problem), where=fn.span)
        return
    pv = md.pv
    by_label = check_dispatch(ctx, md, HEADER_PARAMS, RESULT)
    from rules import extractors as _ex
    _ex.check_extractors(ctx.under("R-1", "extractors"), "R-1")
    # "a registered ... integer": the registries whose values decide what this decoder accepts carry the IANA integers
    from rules import c17 as _c17
    _c17.check_tables(ctx.under("R-4", "registry"), only={"iana::Algorithm", "iana::HeaderParameter", "iana::CoapContentFormat"})
    # "pairwise distinct labels": the duplicate rule of this decoder (C12 R-1's recogniser under this property's name)
    from rules import c12 as _c12
    _c12.check_decoder(ctx.under("R-1", "distinct-labels"), DEC, "R-1")
    # accepted "iff ..." is stated for CBOR items reaching the decoder through the byte-level API as well: the one parser entry
    # hands back exactly the parsed item (C13 R-1's recogniser; a read_to_value that unwraps a tag changes the accepted set)
    from rules import c13 as _c13
    _c13.check_read_to_value(ctx.under("R-1", "parser-entry"), "R-1")
    from rules import structs_common as _S
    _S.check_derived_impls(ctx, "R-1", {"core::default::Default"}, only_structs=True)
    _S.check_derived_impls(ctx, "R-1", {"core::cmp::PartialEq", "core::cmp::Eq"})
    _protected_position(ctx)

    def sym(t):
        return md.sym(t)

    V = ("sym", "value")

    # --- per label -------------------------------------------------------------------------------
    for k, (field, shape) in sorted(HEADER_PARAMS.items()):
        effs = by_label.get(str(k), [])
        fields = sorted({f for f, _ in effs})
        ctx.ob("R-1", "frame:label-%d" % k, fields == [field],
               "label %d writes exactly the field `%s` (writes: %s)" % (k, field, fields), where=fn.span)
        ok = False
        det = {"effects": [show(sym(e.get("value") or e["args"][1]))[:160] for _, e in effs]}
        if shape.startswith("label<"):
            want_ty = shape[len("label<"):shape.index(">", shape.rindex("iana::"))+1] if False else shape[6:].split(">+")[0].rstrip(">") + ">"
            want_ty = shape[6:shape.rindex(">")] if shape.endswith(">") else shape[6:shape.index(">+")]
            if len(effs) == 1 and effs[0][1]["kind"] == "assign":
                v = sym(effs[0][1]["value"])
                inner = v
                if inner[0] == "aggr" and inner[1] == "core::option::Option" and inner[2] == "Some":
                    inner = inner[3][0][1]
                if inner[0] == "tryok" and is_call(inner[1]) and inner[1][2] == (V,):
                    full = full_of(fn, inner[1])
                    ok = full == "<%s as common::AsCborValue>::from_cbor_value" % want_ty
                    det["decoder"] = full
        elif shape == "nonempty-bstr":
            if len(effs) == 1 and effs[0][1]["kind"] == "assign":
                v = sym(effs[0][1]["value"])
                ok = v[0] == "tryok" and is_call(v[1], codec.TRY_NONEMPTY) and v[1][2] == (V,)
        elif shape.startswith("nonempty-array<"):
            # what this arm appends to the field, as a sequence value: the entry's array decoded element by element in order
            want_ty = shape[len("nonempty-array<"):-1]
            from lib.seq import Seq, show_seq, X
            calls = [e for _, e in effs if e["kind"] == "call"]
            s = None
            if calls and len(calls) == len(effs):
                s = Seq(fn, pv).contribution(calls, md.next_bb)
            elif len(effs) == 1 and effs[0][1]["kind"] == "assign":
                # `field = <array>.into_iter().map(f).collect::<Result<_>>()?`: the list was empty before (a label occurs once)
                e0 = effs[0][1]
                from lib.seq import normalize
                s = normalize(Seq(fn, pv).of_value(e0["value"], 0, (e0["bb"], e0["idx"])))
            if s is not None:
                det["sequence"] = show_seq(s)[:200]
                if s[0] == "map" and s[2][0] == "elems" and s[2][2] == 0 and s[2][3] is None:
                    F, src = s[1], sym(s[2][1])
                    full = None
                    if F[0] == "tryok" and is_call(F[1]) and F[1][2] == (X,):
                        full = full_of(fn, F[1])
                    ok = (src == ("field", ("variant", V, "Array"), "0")
                          and full == "<%s as common::AsCborValue>::from_cbor_value" % want_ty)
                    det["decoder"] = full
                    det["element_source"] = show(src)
        elif shape == "signature-or-nonempty-array":
            ok, d2 = _countersig(prog, md, effs)
            det.update(d2)
        ctx.ob("R-1", "label-%d:%s" % (k, field), ok,
               "label %d -> `%s` from this entry's value through %s" % (k, field, shape), where=fn.span, detail=det,
               sample={"label": k, "field": field, "how": det})

    # --- default arm ------------------------------------------------------------------------------
    effs = by_label.get("default", [])
    ok = (len(effs) == 1 and effs[0][0] == "rest" and effs[0][1]["kind"] == "call" and effs[0][1]["callee"] == codec.VEC_PUSH
          and sym(effs[0][1]["args"][1]) == ("tuple", (("sym", "label"), V)))
    ctx.ob("R-1", "default:rest", ok, "every other integer label and every text label pushes the unmodified (label, value) pair to `rest`",
           where=fn.span, detail={"effects": [(f, show(sym(e.get("value") or e["args"][1]))[:120]) for f, e in effs]})
    other = sorted(set(by_label) - {str(k) for k in HEADER_PARAMS} - {"default"})
    ctx.ob("R-1", "no-mixed-writes", not other, "no write to the result happens under a mixture of label classes", detail={"classes": other})

    # --- R-2 IV / Partial IV ------------------------------------------------------------------------
    E = check_iv_exclusion(ctx, md)

    # --- R-3 census -----------------------------------------------------------------------------------
    Eset = set(E) if isinstance(E, tuple) else ({E} if E is not None else set())
    found = {(c, ("err:iv-and-partial-iv" if o["bb"] in Eset else k)) for c, k, o in md.reject_sites()}
    if isinstance(E, tuple) and {("5", "err:iv-and-partial-iv"), ("6", "err:iv-and-partial-iv")} <= found:
        # policed per arm: the one rule of the table, stated for each of the two labels
        found -= {("5", "err:iv-and-partial-iv"), ("6", "err:iv-and-partial-iv")}
        found.add(("all", "err:iv-and-partial-iv"))
    extra = sorted(found - CENSUS)
    missing = sorted(CENSUS - found)
    ctx.ob("R-3", "census", not extra and not missing,
           "reject sites per label class are exactly the RFC 8152 rules (%d); extra=%s missing=%s" % (len(CENSUS), extra, missing),
           where=fn.span, detail={"found": sorted(found)}, sample={"reject_sites": sorted(found)})
    _text_rules(ctx, md)
    _nonempty_guards(ctx, md)


    # label classification the accepted set depends on (shared recognisers of C17 R-3/R-4)
    from rules import c17
    for _enum in ['iana::Algorithm']:
        c17.check_private_predicate(ctx, "R-1", _enum)
    c17._classify(ctx, "<common::RegisteredLabelWithPrivate<T> as common::AsCborValue>::from_cbor_value", private=True)
    c17._classify(ctx, "<common::RegisteredLabel<T> as common::AsCborValue>::from_cbor_value", private=False)
    # --- R-4 ----------------------------------------------------------------------------------------
    written = sorted({f for f, e in md.field_effects() if e["bb"] in md.loop[1]})
    allf = sorted(prog.struct_fields(RESULT) or [])
    ctx.ob("R-4", "coverage", written == allf, "the decoder can write all fields of Header", detail={"written": written, "struct": allf})
    # result starts from Default and is returned as is
    rt = pv.local_term(md.result_local, md.ok_outcome["bb"], md.ok_outcome["idx"])
    ctx.ob("R-4", "starts-empty", is_call(rt, "<header::Header as core::default::Default>::default"),
           "absent parameters are reported as absent/empty: the result starts as Header::default()", detail={"init": show(rt)[:100]})
    nx = try_next_validator(prog)
    ctx.ob("R-3", "nonempty-bytes-validator", nx, "try_as_nonempty_bytes = try_as_bytes + reject the empty string")


def _loop_source(el):
    """if el is the Some payload of next() on into_iter(X) return X"""
    if el[0] == "field" and el[2] == "0" and el[1][0] == "variant" and el[1][2] == "Some" and is_call(el[1][1], NEXT):
        recv = el[1][1][2][0]
        it = recv[1] if recv[0] == "ref" else recv
        return strip_into_iter(it)
    return None


def _first_element_conds(prog, md, bb):
    """what the path conditions at bb say about element 0 of this entry's array (however it is peeked at)"""
    fn, pv = md.fn, md.pv
    V = ("sym", "value")
    firsts = {}
    for k, v in path_variants(prog, pv, conditions(fn, pv, bb)).items():
        ks = md.sym(k)
        if ks[0] == "deref" and is_call(ks[1], "core::ops::index::Index::index") and ks[1][2][1] == ("const", 0):
            a0 = ks[1][2][0]
            a0 = a0[1] if a0[0] == "ref" else a0
            if a0[0] == "tryok" and is_call(a0[1], codec.TRY_ARRAY) and a0[1][2] == (V,):
                firsts["element 0 of the array"] = sorted(v)
        elif ks[0] == "deref" and ks[1][0] == "field" and ks[1][2] == "0" and ks[1][1][0] == "variant" and ks[1][1][2] == "Some" \
                and is_call(ks[1][1][1], SLICE_FIRST):
            a0 = ks[1][1][1][2][0]
            while a0[0] in ("ref", "deref") or is_call(a0, "core::ops::deref::Deref::deref"):
                a0 = a0[1] if a0[0] != "call" else a0[2][0]
            if a0[0] == "tryok" and is_call(a0[1], codec.TRY_ARRAY) and a0[1][2] == (V,):
                firsts["element 0 of the array"] = sorted(v)
        elif any(is_call(s, "core::ops::index::Index::index") for s in subterms(ks)):
            firsts["other element: " + show(ks)[:60]] = sorted(v)
    return firsts


def _classify_sig_alternative(md, s):
    """'single' | 'multiple' | None for one alternative of what the arm stores, as a (symbolised) sequence value:
    single = [CoseSignature::from(Value::Array(<the entry's array>))?], multiple = one CoseSignature::from(x)? per element of it"""
    from lib.seq import X
    from lib.prov import strip_sites
    V = ("sym", "value")
    ARR = strip_sites(("tryok", ("call", codec.TRY_ARRAY, (V,))))
    if s[0] == "opt":
        s = s[2]
    if s[0] == "lit" and len(s[1]) == 1:
        a = md.sym(s[1][0])
        if a[0] == "tryok" and is_call(a[1]) and a[1][1] in codec.SIG_FROM:
            arg = a[1][2][0]
            if arg[0] == "aggr" and arg[1] == "ciborium::value::Value" and arg[2] == "Array" and strip_sites(arg[3][0][1]) == ARR:
                return "single"
    elif s[0] == "map" and s[2][0] == "elems" and s[2][2] == 0 and s[2][3] is None and strip_sites(md.sym(s[2][1])) == ARR:
        F = md.sym(s[1])
        if F[0] == "tryok" and is_call(F[1]) and F[1][1] in codec.SIG_FROM and F[1][2][0] == X:
            return "multiple"
    return None


from lib.codec import built_local as _built_local


def _countersig(prog, md, effs):
    """label 7: a single COSE_Signature (element 0 of the entry's array is a bstr) or an array of them (element 0 is an array).
    Decided on the sequence value of every alternative the arm stores - two pushes, push + loop of pushes, push + extend(collect),
    or one assignment whose value is chosen by a match - together with what the path conditions say about element 0."""
    from lib.seq import Seq, normalize, show_seq
    fn, pv = md.fn, md.pv
    alts = []      # (sequence, block whose conditions select it)
    if len(effs) == 1 and effs[0][1]["kind"] == "assign":
        e = effs[0][1]
        st = fn.blocks[e["bb"]]["stmts"][e["idx"]]
        if st["rv"]["k"] != "use":
            return False, {"problem": "assigned value is not a plain value"}
        arms_ = codec.arms(pv, st["rv"]["op"], e["bb"], e["idx"])
        built = _built_local(fn, pv, st["rv"]["op"], e["bb"], e["idx"]) if len(arms_) == 1 else None
        if built is not None:
            # the value is a list built in a local by an (inlined) helper and handed back: its pushes / extends are the
            # alternatives, exactly as if they were made on the field itself
            for e2 in pv.effects():
                if e2["kind"] == "call" and e2["place"][0] == "local" and e2["place"][1] == built:
                    alts.append((Seq(fn, pv).contribution([e2], md.next_bb), e2["bb"]))
        else:
            for term, dbb in arms_:
                sq = normalize(Seq(fn, pv).of_value(term, 0, (dbb, "term")))
                if sq and sq[0] == "unknown" and is_call(term) and len(term) > 3 and term[3] and term[3][0] == fn.key:
                    # `vec![x]` as one arm of the match: the literal is complete only after the block that creates it
                    nxt = fn.blocks[term[3][1]]["term"].get("target")
                    if nxt is not None:
                        sq = normalize(Seq(fn, pv).of_value(term, 0, (nxt, 0 if fn.blocks[nxt]["stmts"] else "term")))
                alts.append((sq, dbb))
    else:
        for f, e in effs:
            if e["kind"] != "call":
                return False, {"problem": "mixture of assignments and calls"}
            alts.append((Seq(fn, pv).contribution([e], md.next_bb), e["bb"]))
    det = {"alternatives": [show_seq(s)[:160] for s, _ in alts]}
    found = {}
    for s, bb in alts:
        k = _classify_sig_alternative(md, s)
        if k is None or k in found:
            det["problem"] = "single/multiple forms not both recognised exactly once"
            return False, det
        found[k] = _first_element_conds(prog, md, bb)
    if set(found) != {"single", "multiple"}:
        det["problem"] = "single/multiple forms not both recognised exactly once"
        return False, det
    det["single_when_first_element"] = found["single"]
    det["multiple_when_first_element"] = found["multiple"]
    return (found["single"] == {"element 0 of the array": ["Bytes"]} and found["multiple"] == {"element 0 of the array": ["Array"]}), det


def check_iv_exclusion(ctx, md, rule="R-2"):
    """truth table of the IV / Partial-IV exclusion by abstract evaluation of the loop body:
    atoms = the is_empty() tests on result.iv / result.partial_iv.  Returns the Err block or None."""
    from lib.absint import walk
    fn, pv = md.fn, md.pv
    res = ("local", md.result_local, fn.local_name(md.result_local))
    header, body = md.loop
    sites = {"iv": [], "partial_iv": []}
    for bb, t in fn.calls():
        name = callee_path_(t)
        if name and name.endswith("::is_empty") and t["args"]:
            lv = pv._borrowed_lvalue(t["args"][0], bb)
            if lv[0] == "field" and lv[1] == res and lv[2] in sites:
                sites[lv[2]].append(bb)
            else:
                fld = _result_field_viewed(fn, pv, t["args"][0], bb, md.result_local)
                if fld in sites:
                    sites[fld].append(bb)
    # candidate error exit: reachable for every label class, not the duplicate error
    cands = [o for c, k, o in md.reject_sites() if c == "all" and o["kind"] == "err" and "DuplicateMapKey" not in k]
    if len(cands) != 1 and sites["iv"] and sites["partial_iv"]:
        # the exclusion policed inside the two arms (each tests the OTHER field when its own label arrives): the same truth
        # table, evaluated per arm from the arm's entry - the other field non-empty must end in an error before the next entry,
        # the other field empty must not; a test of the arm's own field counts as empty before the arm's write, non-empty after
        E_arm = []
        bad = []
        for cls, own, other in (("5", "iv", "partial_iv"), ("6", "partial_iv", "iv")):
            ws = sorted({e["bb"] for f, e in md.field_effects() if f == own and e["bb"] in body})
            errs = {o["bb"] for c, k, o in md.reject_sites() if c == cls and o["kind"] == "err" and "DuplicateMapKey" not in k}
            if len(ws) != 1 or not errs:
                bad.append("label %s: %d writes of `%s`, %d error exits of its own" % (cls, len(ws), own, len(errs)))
                continue
            w = ws[0]
            entry = None
            for b in fn.cfg.dom_chain(w):
                if b in body and md.class_name(md.classes_at(b)) == cls:
                    entry = b
            if entry is None:
                bad.append("label %s: arm entry not found" % cls)
                continue
            for other_empty in (True, False):
                atoms = {b: other_empty for b in sites[other]}
                atoms.update({b: not (fn.cfg.dominates(w, b) and b != w) for b in sites[own]})
                reached, _ = walk(fn, entry, atoms=atoms, sinks=errs | {header}, stop=errs | {header})
                if not other_empty:
                    if header in reached:
                        bad.append("label %s arrives while `%s` is non-empty, yet the next entry is processed" % (cls, other))
                    if not (reached & errs):
                        bad.append("label %s arrives while `%s` is non-empty: no error exit reached" % (cls, other))
                    E_arm.extend(sorted(reached & errs))
                elif reached & errs:
                    bad.append("label %s is refused although `%s` is empty" % (cls, other))
        ctx.ob(rule, "iv-exclusion-truth-table", not bad,
               "each of the IV / Partial IV arms rejects the map iff the other field is already non-empty - truth table over the "
               "emptiness tests from the arm's entry to the next iteration (exclusion policed per arm)", where=fn.span,
               detail={"problems": sorted(set(bad))[:6]}, sample={"tests": sites, "form": "per-arm"})
        return tuple(E_arm) if not bad else None
    if len(cands) != 1 or not sites["iv"] or not sites["partial_iv"]:
        ctx.ob(rule, "iv-exclusion-guard", False,
               "the loop body tests both `iv` and `partial_iv` of the result and has one error exit common to all labels",
               where=fn.span, detail={"tests": sites, "common_error_exits": len(cands)})
        return None
    E = cands[0]["bb"]
    writes = sorted({e["bb"] for f, e in md.field_effects() if e["bb"] in body})
    bad = []
    hit = False
    for w in writes:
        t = fn.blocks[w]["term"]
        for iv_e in (True, False):
            for piv_e in (True, False):
                atoms = {b: iv_e for b in sites["iv"]}
                atoms.update({b: piv_e for b in sites["partial_iv"]})
                reached, _ = walk(fn, w, atoms=atoms, sinks={E, header}, stop={E, header})
                both = (not iv_e) and (not piv_e)
                if both and header in reached:
                    bad.append("%s: iv and partial_iv both non-empty yet the next entry is processed" % fn.where(w))
                if both and E in reached:
                    hit = True
                if not both and E in reached:
                    bad.append("%s: rejected although iv empty=%s / partial_iv empty=%s" % (fn.where(w), iv_e, piv_e))
    ok = not bad and hit
    ctx.ob(rule, "iv-exclusion-truth-table", ok,
           "after every field write (%d sites) the map is rejected iff `iv` and `partial_iv` are both non-empty - truth table over the "
           "two emptiness tests on every path to the next iteration" % len(writes), where=fn.where(E),
           detail={"problems": sorted(set(bad))[:6]}, sample={"writes": len(writes), "tests": sites})
    return E if ok else None


def _result_field_viewed(fn, pv, op, bb, res_local, depth=0):
    """the field of the result struct an operand is a (slice) view of: `&result.f`, `&*r` with `r = &result.f`, or
    `Deref::deref(&result.f)` / `as_slice` (a `&Vec<u8>` handed to a helper that takes `&[u8]`), following single definitions"""
    if op.get("k") not in ("copy", "move") or depth > 8:
        return None
    pl = op["place"]
    if pv._defs is None:
        pv._collect_defs()
    if pl["l"] == res_local:
        names = [e[2] for e in pl["p"] if e[0] == "field"]
        return names[0] if len(names) == 1 and all(e[0] in ("field", "deref") for e in pl["p"]) else None
    if any(e[0] != "deref" for e in pl["p"]):
        return None
    ds = [d for d in pv.reaching(pl["l"], bb, "term") if d != -1]
    if len(ds) != 1:
        return None
    _, dbb, didx, payload = pv._defs[ds[0]]
    if didx == "term":
        if callee_path_(payload) in ("core::ops::deref::Deref::deref", "alloc::vec::Vec::<T, A>::as_slice", "core::convert::AsRef::as_ref") \
                and payload["args"]:
            return _result_field_viewed(fn, pv, payload["args"][0], dbb, res_local, depth + 1)
        return None
    if payload["k"] == "ref":
        return _result_field_viewed(fn, pv, {"k": "copy", "place": payload["place"]}, dbb, res_local, depth + 1)
    if payload["k"] == "use" and payload["op"].get("k") in ("copy", "move"):
        return _result_field_viewed(fn, pv, payload["op"], dbb, res_local, depth + 1)
    return None


def callee_path_(t):
    from lib.facts import callee_path
    return callee_path(t)


def _text_rules(ctx, md):
    """the three content-type text predicates, compared as guard terms"""
    fn, pv = md.fn, md.pv
    res = ("local", md.result_local, fn.local_name(md.result_local))
    found = {}
    # the value this entry stores into content_type (Some(T) or T): the rules may be checked on it before it is stored
    stored = []
    for cls, effs in md.table.items():
        if md.class_name(cls) != "3":
            continue
        for f, e in effs:
            if f == "content_type" and e["kind"] == "assign":
                v = e["value"]
                if v[0] == "aggr" and v[1] == "core::option::Option" and v[2] == "Some" and v[3]:
                    v = v[3][0][1]
                stored.append(v)
    for cname, key, o in md.reject_sites():
        if cname != "3" or not key.startswith("err:"):
            continue
        conds = [normalize_bool_cond(c) for c in o["conds"]]
        last = [c for c in conds if c][-1] if any(conds) else None
        if not last:
            continue
        t, val = last
        names = [s[1].split("::")[-1] for s in subterms(t) if is_call(s)]

        def is_text(x):
            """x is (a borrow / deref coercion of) the Text payload of the content_type field just written - the WHOLE text"""
            while True:
                if x[0] in ("ref", "deref"):
                    x = x[1]
                elif is_call(x) and x[1] in ("core::ops::deref::Deref::deref",) and len(x[2]) == 1:
                    x = x[2][0]
                else:
                    break
            if not (x[0] == "field" and x[2] == "0" and x[1][0] == "variant" and x[1][2] == "Text"):
                return False
            inner = x[1][1]
            while inner[0] in ("ref", "deref"):
                inner = inner[1]
            if inner in stored:
                return True          # the very value that is stored for this entry
            if not (inner[0] == "field" and inner[2] == "0" and inner[1][0] == "variant" and inner[1][2] == "Some"):
                return False
            src = inner[1][1]
            while src[0] in ("ref", "deref"):
                src = src[1]
            return src[0] == "field" and src[2] == "content_type"
        if is_call(t) and t[1] in ("alloc::string::String::is_empty", "core::str::<impl str>::is_empty") and val is True:
            found["empty"] = is_text(t[2][0])
        elif "trim" in names and is_call(t) and len(t[2]) == 2 and (("ne" in names and val is True) or ("eq" in names and val is False)):
            # trim(text) != text : one operand is trim(<the text>), the other the text itself
            a, b = t[2]
            a2 = a[1] if a[0] == "ref" else a
            b2 = b[1] if b[0] == "ref" else b
            ok = False
            for x, y in ((a2, b2), (b2, a2)):
                if is_call(x) and x[1] == "core::str::<impl str>::trim" and is_text(x[2][0]) and is_text(y):
                    ok = True
            found["trim"] = ok
        elif "matches" in names and "count" in names:
            # count(matches(text, '/')) != 1 : truth table over the count, and the receiver of matches() is the whole text
            cnt = [s for s in subterms(t) if is_call(s) and s[1].endswith("::count")]
            ok = False
            if cnt and is_call(cnt[0][2][0], "core::str::<impl str>::matches"):
                m = cnt[0][2][0]
                if is_text(m[2][0]) and m[2][1] == ("const", "/"):
                    try:
                        table = {n: ev(t, {cnt[0]: n}) for n in (0, 1, 2, 3)}
                        ok = all((table[n] == val) == (n != 1) for n in table)
                    except Unknown:
                        ok = False
            found["one-slash"] = ok
    for name, what in (("empty", "text content type must be non-empty"), ("trim", "no leading/trailing whitespace (trim(text) == text)"),
                       ("one-slash", "exactly one '/' (count of matches of '/' == 1)")):
        if name not in found:
            ctx.cannot("R-3", "content-type-text:%s" % name, "guard for rule '%s' not recognised (cannot decide)" % what, where=fn.span)
        else:
            ctx.ob("R-3", "content-type-text:%s" % name, found[name], "content type text rule: %s" % what, where=fn.span)


SLICE_FIRST = "core::slice::<impl [T]>::first"


def _nonempty_guards(ctx, md):
    """crit and counter-signature arrays: reject iff empty"""
    fn, pv = md.fn, md.pv
    V = ("sym", "value")
    for cname, key, o in md.reject_sites():
        if cname not in ("2", "7") or key != "err:UnexpectedItem@is_empty":
            continue
        conds = [normalize_bool_cond(c) for c in o["conds"]]
        bools = [c for c in conds if c]
        firsts = [cond_variants(ctx.prog, pv, c) for c in o["conds"] if c[0][0] == "discr" and is_call(c[0][1], SLICE_FIRST)]
        if firsts and firsts[-1] and firsts[-1][1] == {"None"}:
            # `match arr.first() { None => reject, .. }`
            t, val = ("call", "is_empty", (firsts[-1][0][2][0],)), True
        elif bools:
            t, val = bools[-1]
        else:
            continue
        a = md.sym(t[2][0])
        while a[0] in ("ref", "deref") or is_call(a, "core::ops::deref::Deref::deref"):
            a = a[1] if a[0] != "call" else a[2][0]
        if cname == "2":
            ok = val is True and a == ("field", ("variant", V, "Array"), "0")
        else:
            ok = val is True and a[0] == "tryok" and is_call(a[1], codec.TRY_ARRAY) and a[1][2] == (V,)
        ctx.ob("R-3", "nonempty-array:label-%s" % cname, ok, "label %s: the array in this entry's value is rejected iff it is empty" % cname,
               where=fn.where(o["bb"]))


def try_next_validator(prog):
    f = prog.fn(codec.TRY_NONEMPTY)
    pv = Prov(f)
    outs = outcomes(f, pv)
    oks = [o for o in outs if o["kind"] == "ok"]
    errs = [o for o in outs if o["kind"] == "err"]
    props = [o for o in outs if o["kind"] == "propagate"]
    if len(oks) != 1 or len(errs) != 1 or len(props) != 1 or len(outs) != 3:
        return False
    v = oks[0]["inner"]
    if not (v[0] == "tryok" and is_call(v[1], codec.TRY_BYTES) and v[1][2] == (("param", 0),)):
        return False
    ce = [normalize_bool_cond(c) for c in errs[0]["conds"]]
    co = [normalize_bool_cond(c) for c in oks[0]["conds"]]
    e_ok = any(c and is_call(c[0]) and c[0][1].endswith("::is_empty") and c[1] is True for c in ce)
    o_ok = any(c and is_call(c[0]) and c[0][1].endswith("::is_empty") and c[1] is False for c in co)
    return e_ok and o_ok
