"""C14 - tagged forms carry exactly the structure's registered CBOR tag."""
from lib.prov import Prov, show, is_call
from lib.guards import outcomes, path_variants
from spec.iana import TAGS, REGISTRIES
from rules import c13

REGISTER = True
META = {
    "level": "proof",
    "decides": "R-1 exactly the six message types implement TaggedCborSerializable and each impl's evaluated TAG equals RFC 8152 "
               "table 1 (98,18,96,16,97,17); R-2 from_tagged_slice parses one item, requires a Tag whose number equals Self::TAG "
               "(else Err) and converts the tag's payload directly (nothing strips a second tag); to_tagged_vec serialises "
               "Value::Tag(Self::TAG, Box::new(self.to_cbor_value()?)) once; no impl overrides these defaults; R-3 every "
               "taggable type's from_cbor_value hands its argument directly to try_as_array, which succeeds only for the Array "
               "variant - so untagged decoding rejects tagged items and tagged decoding rejects doubly tagged ones; "
               "R-4 (thorough) compile-fail witnesses that non-taggable types have no tagged API.",
    "does_not_decide": "the byte encoding of tag heads (ciborium)",
    "trusted_base": ["rustc constant evaluation of associated consts", "ciborium's Value::Tag <-> major type 6 mapping",
                     "RFC 8152 section 2 table 1 as transcribed in spec/iana.py"],
}
META["decides"] += ' (As built: a further taggable type is noted, only checked for a distinct tag; R-2 re-checks that read_to_value hands back the parsed item itself.)'

TSER = "common::TaggedCborSerializable"
TRY_ARRAY = "<ciborium::value::Value as util::ValueTryAs>::try_as_array"


def check(ctx):
    prog = ctx.prog
    # R-1
    impls = [i for i in prog.impls if i.get("trait") == TSER]
    got = {i["self_adt"]: i["consts"].get("TAG") for i in impls}
    for ty, tag in sorted(TAGS.items()):
        ctx.ob("R-1", "tag:%s" % ty, got.get(ty) == tag, "<%s as TaggedCborSerializable>::TAG = %s (registered: %d)" % (ty, got.get(ty), tag),
               detail={"evaluated": got.get(ty), "registered": tag}, sample={"type": ty, "TAG": got.get(ty)})
    extra = sorted(set(got) - set(TAGS))
    for x in extra:
        # an additional taggable type is outside this property (which names six); its tag must only not collide (next rule)
        ctx.note("%s also implements TaggedCborSerializable (TAG = %s); not one of the six message types, only checked for distinctness" % (x, got.get(x)))
    vals = [v for v in got.values()]
    ctx.ob("R-1", "tags-distinct", len(vals) == len(set(vals)), "the tags are pairwise distinct (bytes tagged for one type are not another's)")
    ctx.floor("R-1", "TaggedCborSerializable impls", len(impls), 6)
    ds = prog.enum_discrs("iana::CborTag") or {}
    for name, v in REGISTRIES["iana::CborTag"].items():
        ctx.ob("R-1", "cbor-tag-registry:%s" % name, ds.get(name) == v, "iana::CborTag::%s = %s (IANA %d)" % (name, ds.get(name), v))

    # R-2 (shares the recognisers of C13 R-2/R-3)
    for imp in impls:
        fns = [i["name"] for i in imp["items"] if i["kind"] == "Fn"]
        ctx.ob("R-2", "no-override:%s" % imp["self_ty"], not fns, "impl TaggedCborSerializable for %s defines only TAG" % imp["self_ty"],
               where=imp["span"], detail={"overrides": fns})
    sub = _Sub(ctx, "R-2")
    # what both byte-level decoders look at is the parsed item itself: nothing strips or adds a tag before the tag check /
    # before the untagged decoders (which reject tags, R-3) see it
    c13.check_read_to_value(sub, "R-2")
    from rules import extractors as _ex
    _ex.check_extractors(ctx.under("R-2", "extractors"), "R-2", only={"try_as_tag", "try_as_array"})     # the tag handed to the comparison is the item's own
    pall = prog.view("all")       # a default delegating to another un-overridden default is judged as one function
    c13._check_from_tagged(sub, pall.fn(TSER + "::from_tagged_slice"))
    c13._check_to_vec(sub, pall.fn(TSER + "::to_tagged_vec"), tagged=True)

    # R-3
    ta = prog.fn(TRY_ARRAY)
    pv = Prov(ta)
    outs = outcomes(ta, pv)
    good = True
    det = []
    for o in outs:
        pvs = path_variants(prog, pv, o["conds"])
        allowed = pvs.get(("param", 0))
        det.append((o["kind"], sorted(allowed) if allowed else None, show(o["term"])[:100]))
        if o["kind"] == "ok":
            good = good and allowed == {"Array"} and o["inner"] == ("field", ("variant", ("param", 0), "Array"), "0")
        elif o["kind"] == "call":
            good = good and is_call(o["term"]) and o["term"][1] == "util::cbor_type_error" and allowed is not None and "Array" not in allowed
        else:
            good = False
    ctx.ob("R-3", "try_as_array-only-arrays", good and any(o["kind"] == "ok" for o in outs),
           "try_as_array returns Ok only for Value::Array (its payload) and cbor_type_error for every other variant, Tag included",
           where=ta.span, detail={"outcomes": det}, sample={"outcomes": det})
    cte = prog.fn("util::cbor_type_error")
    o2 = outcomes(cte, Prov(cte))
    ctx.ob("R-3", "cbor_type_error-always-err", bool(o2) and all(o["kind"] == "err" for o in o2),
           "cbor_type_error always returns Err", where=cte.span)
    for ty in sorted(TAGS):
        key = "<%s as common::AsCborValue>::from_cbor_value" % ty
        f = prog.fn(key)
        pv = Prov(f)
        # the `?` on try_as_array(arg0) must dominate every Ok exit
        trys = [(bb, t) for bb, t in f.calls() if (t.get("callee") or {}).get("path") == "core::ops::try_trait::Try::branch"]
        gate = None
        for bb, t in trys:
            op = pv.operand_term(t["args"][0], bb, "term")
            if is_call(op, TRY_ARRAY) and op[2] == (("param", 0),):
                gate = bb
        oks = [o for o in outcomes(f, pv) if o["kind"] == "ok"]
        ok = gate is not None and oks and all(f.cfg.dominates(gate, o["bb"]) for o in oks)
        # and nothing touches the argument before the gate
        if ok:
            first_calls = [bb for bb, t in f.calls() if f.cfg.dominates(bb, gate) and bb != gate]
            # (a call that does not see the argument at all - `3..=3` evaluated before the call it is handed to - touches nothing)
            from lib.prov import subterms
            def _blind(b):
                return not any(x == ("param", 0) for a in f.blocks[b]["term"].get("args", []) for x in subterms(pv.operand_term(a, b, "term")))
            ok = all(callee_is(f, b, (TRY_ARRAY,)) or _blind(b) for b in first_calls)
        ctx.ob("R-3", "untagged-starts-with-array:%s" % ty, bool(ok),
               "%s::from_cbor_value passes its argument directly to try_as_array()? before anything else" % ty, where=f.span)


def callee_is(f, bb, names):
    from lib.facts import callee_path
    return callee_path(f.blocks[bb]["term"]) in names


class _Sub:
    """adapter: re-label obligations of a shared recogniser under this property's rule name"""
    def __init__(self, ctx, rule):
        self.ctx = ctx
        self.rule = rule
        self.prog = ctx.prog

    def ob(self, rule, key, ok, what, **kw):
        return self.ctx.ob(self.rule, key, ok, what, **kw)


def thorough(ctx):
    """R-4: compile-fail witnesses (type level; rustdoc only type-checks, the compiling twins are no_run)"""
    import os
    import re
    import shutil
    import subprocess
    import tempfile
    verif = os.path.dirname(os.path.dirname(os.path.dirname(os.path.abspath(__file__))))
    src = os.path.join(verif, "witness")
    d = tempfile.mkdtemp(prefix="coset-witness-")
    try:
        os.makedirs(os.path.join(d, "src"))
        toml = open(os.path.join(src, "Cargo.toml.in")).read().replace("@REPO@", os.path.abspath(ctx.repo))
        open(os.path.join(d, "Cargo.toml"), "w").write(toml)
        shutil.copy(os.path.join(src, "src", "lib.rs"), os.path.join(d, "src", "lib.rs"))
        shutil.copy(os.path.join(ctx.repo, "Cargo.lock"), os.path.join(d, "Cargo.lock"))
        env = dict(os.environ, CARGO_TARGET_DIR=os.path.join(verif, "out", "witness-target"), CARGO_NET_OFFLINE="true")
        r = subprocess.run(["cargo", "+nightly", "test", "--doc", "--offline"], cwd=d, env=env, stdout=subprocess.PIPE,
                           stderr=subprocess.STDOUT, text=True)
        tests = re.findall(r"test src/lib.rs - \(line (\d+)\) - (compile fail|compile) \.\.\. (\w+)", r.stdout)
        n_fail = sum(1 for t in tests if t[1] == "compile fail")
        n_twin = sum(1 for t in tests if t[1] == "compile")
        for line, kind, res in sorted(tests, key=lambda t: int(t[0])):
            ctx.ob("R-4", "witness:line-%s:%s" % (line, kind.replace(" ", "-")), res == "ok",
                   "witness at witness/src/lib.rs:%s (%s) behaves as required" % (line, "must not type-check (E0599)" if kind == "compile fail" else "compiling twin (no_run)"))
        ctx.ob("R-4", "witness-run", r.returncode == 0 and n_fail >= 9 and n_twin >= 5,
               "cargo +nightly test --doc on the witness crate: %d compile-fail witnesses and %d compiling twins, all as expected" % (n_fail, n_twin),
               detail={"tail": r.stdout[-400:]}, sample={"compile_fail": n_fail, "twins": n_twin})
    finally:
        shutil.rmtree(d, ignore_errors=True)
