"""C17 - registry names and integers correspond one-to-one with the IANA assignments."""
from lib.prov import Prov, show, is_call, fold
from lib.guards import outcomes, normalize_bool_cond, cond_variants
from spec.iana import REGISTRIES, PRIVATE_USE, NOT_IN_CRATE, norm_name
from lib.evalterm import ev, Unknown, consts_in, break_points
from lib.absint import walk

REGISTER = True
META = {
    "level": "proof",
    "decides": "R-1 every registry enum's evaluated discriminant table equals the IANA table (finite, exhaustive); "
               "R-2 from_i64 is a chain of `i == discriminant(V) -> Some(V)` with one arm per variant and default None, "
               "to_i64 is the discriminant cast (so the two are mutually inverse by table); R-3 each is_private body is "
               "`i < -65536` and no registered value satisfies it; R-4 label decoding classifies Integer -> checked i64 -> "
               "from_i64 -> Assigned | (is_private -> PrivateUse | reject) | reject, Text kept, anything else a type error, each exit under exactly those guards; R-6 no caller of a label decoder turns the rejection of an unregistered value into acceptance; "
               "R-5 each label-typed position uses the registry the spec names.",
    "does_not_decide": "nothing inside the repository; the IANA table itself (spec/iana.py) is a trusted transcription",
    "trusted_base": ["rustc constant evaluation of enum discriminants (E0081 makes them distinct)",
                     "spec/iana.py transcription of the IANA registries", "ciborium Integer -> i64 TryFrom is checked"],
}

ENUMI64 = "iana::EnumI64"
WPR = "iana::WithPrivateRange"


def _table_lookup(prog, f, t, enum):
    """`TABLE.iter().copied().find(|v| *v as i64 == i)` (with or without copied / cloned, before or after the find): the list of
    variants searched, or None if the term is not that lookup.  With distinct discriminants (R-1) the result for an integer is
    the variant of the list that has it, if any - the order of the list and repeated entries do not matter."""
    from lib.prov import strip_sites, resolve_consts
    t = strip_sites(t)
    while is_call(t) and t[1] in ("core::option::Option::<&T>::copied", "core::option::Option::<&T>::cloned") and len(t[2]) == 1:
        t = t[2][0]
    if not (is_call(t, "core::iter::traits::iterator::Iterator::find") and len(t[2]) == 2):
        return None
    it, clo = t[2]
    while it[0] in ("ref", "deref"):
        it = it[1]
    while is_call(it) and it[1] in ("core::iter::traits::iterator::Iterator::copied", "core::iter::traits::iterator::Iterator::cloned"):
        it = it[2][0]
    if not (is_call(it) and it[1] in ("core::slice::<impl [T]>::iter", "core::iter::traits::collect::IntoIterator::into_iter")):
        return None
    src = resolve_consts(prog, it[2][0])
    for _ in range(4):
        if src[0] in ("ref", "deref"):
            src = src[1]
        elif src[0] == "cast" and src[1] == "PointerCoercion":
            src = resolve_consts(prog, src[2])
        else:
            break
    if src[0] != "array" or not all(e[0] == "aggr" and e[1] == enum and not e[3] for e in src[1]):
        return None
    if clo[0] != "closure" or len(clo[2]) != 1 or strip_sites(clo[2][0]) not in (("ref", ("param", 0), False), ("param", 0)):
        return None
    body = strip_sites(Prov(prog.fn(clo[1])).return_term())
    if not (body[0] == "binop" and body[1] == "Eq"):
        return None

    def peel(x):
        while x[0] in ("deref", "ref"):
            x = x[1]
        return x
    for a, b in ((body[2], body[3]), (body[3], body[2])):
        if is_call(a) and (a[1] == "iana::EnumI64::to_i64" or a[1] == "<%s as iana::EnumI64>::to_i64" % enum) and len(a[2]) == 1 \
                and peel(a[2][0]) == ("param", 1):
            # `v.to_i64() == i`: to_i64 is the discriminant cast (R-2 to_i64)
            a = ("cast", "IntToInt", ("discr", ("param", 1)), "i64")
        if a[0] == "cast" and a[1] == "IntToInt" and a[3] == "i64" and a[2][0] == "discr" and peel(a[2][1]) == ("param", 1) \
                and peel(b)[0] == "field" and peel(b)[2] == "0" and peel(peel(b)[1]) == ("param", 0):
            return [e[2] for e in src[1]]
    return None


def check_tables(ctx, only=None):
    """R-1 / R-2 for all registries, or for the ones named in `only` (re-used by C08 / C10 / C18 for the registries whose
    values decide what they accept: a wrong integer for a key type changes which keys are COSE_Keys)"""
    prog = ctx.prog
    # ---- R-1 table -------------------------------------------------------------
    total = 0
    for enum, table in sorted(REGISTRIES.items()):
        if only is not None and enum not in only:
            continue
        ds = prog.enum_discrs(enum)
        if ds is None:
            ctx.ob("R-1", "enum-present:%s" % enum, False, "registry enum %s exists" % enum, kind="missing-anchor")
            continue
        for name, val in sorted(table.items()):
            total += 1
            ctx.ob("R-1", "%s::%s" % (enum, name), ds.get(name) == val,
                   "%s::%s = %s (IANA: %d)" % (enum, name, ds.get(name, "<missing>"), val),
                   where=prog.adts[enum]["span"], detail={"code": ds.get(name), "iana": val},
                   sample={"enum": enum, "name": name, "code": ds.get(name), "iana": val} if name in ("ES256", "Alg") else None)
        new = sorted(set(ds) - set(table))
        later = NOT_IN_CRATE.get(enum, {})
        for name in list(new):
            if norm_name(name) in later:
                val = later[norm_name(name)]
                new.remove(name)
                total += 1
                ctx.ob("R-1", "%s::%s" % (enum, name), ds.get(name) == val,
                       "%s::%s = %s (IANA: %d; a name added after the pinned version)" % (enum, name, ds.get(name), val),
                       where=prog.adts[enum]["span"], detail={"code": ds.get(name), "iana": val})
        if new:
            ctx.note("unverifiable-new-name in %s: %s (not in spec/iana.py; table-independent checks still apply)" % (enum, new))
        vals = list(ds.values())
        ctx.ob("R-1", "injective:%s" % enum, len(vals) == len(set(vals)), "no two names of %s share an integer" % enum)
    local_enums = [k for k, a in prog.adts.items() if k.startswith("iana::") and a["kind"] == "enum"]
    if only is None:
        ctx.floor("R-1", "name/integer pairs", total, 222)
        extra = sorted(set(local_enums) - set(REGISTRIES))
        if extra:
            ctx.note("registry enums not in the table (unverifiable-new): %s" % extra)
    else:
        local_enums = [e for e in local_enums if e in only]

    # ---- R-2 from_i64 / to_i64 ----------------------------------------------------
    n_from = 0
    for enum in sorted(local_enums):
        ds = prog.enum_discrs(enum)
        fkey = "<%s as %s>::from_i64" % (enum, ENUMI64)
        tkey = "<%s as %s>::to_i64" % (enum, ENUMI64)
        if fkey not in prog.fns:
            ctx.ob("R-2", "from_i64-exists:%s" % enum, False, "%s implements EnumI64" % enum, kind="missing-anchor")
            continue
        n_from += 1
        f = prog.fn(fkey)
        pv = Prov(f)
        arms = {}
        none_seen = False
        bad = []
        lookups = {}        # block of a table lookup -> the variants it searches
        for o in outcomes(f, pv):
            t = o["term"]
            if t[0] == "aggr" and t[1] == "core::option::Option" and t[2] == "None":
                none_seen = True
                continue
            tl = _table_lookup(prog, f, t, enum)
            if tl is not None:
                # table-driven: every variant is in the table, found by its own discriminant
                lookups[o["bb"]] = tl
                none_seen = True            # `find` answers None when nothing matches
                for var in tl:
                    arms[var] = ds.get(var)
                continue
            if t[0] == "aggr" and t[1] == "core::option::Option" and t[2] == "Some" and t[3][0][1][0] == "aggr" \
                    and t[3][0][1][1] == enum:
                var = t[3][0][1][2]
                conds = [normalize_bool_cond(c) for c in o["conds"]]
                last = conds[-1] if conds else None
                k = None
                if last and last[1] is True and last[0][0] == "binop" and last[0][1] == "Eq":
                    a, b = last[0][2], last[0][3]
                    for x, y in ((a, b), (b, a)):
                        if x == ("param", 0) and y[0] == "const":
                            k = y[1]
                if var in arms:
                    bad.append("variant %s returned by two arms" % var)
                arms[var] = k
                if k != ds.get(var):
                    bad.append("arm for %s compares with %r, discriminant is %r" % (var, k, ds.get(var)))
                # earlier arms must all be different constants (no shadowing) - implied by distinct discriminants
                continue
            bad.append("unexpected outcome %s" % show(t)[:80])
        missing = sorted(set(ds) - set(arms))
        if missing:
            bad.append("no arm for %s" % missing)
        if not none_seen:
            bad.append("no default None")
        # ... and the arm is REACHED for its integer: the function evaluated on every discriminant and on the integers around
        # them, the private-use boundary and the 16/32/64-bit edges (an early `return None` for "values no registry assigns",
        # a narrowing cast before the comparison) - each must arrive at its own arm, everything else at a None
        undec = False
        if not bad:
            outs_ = outcomes(f, pv)
            some_bb = {}
            none_bbs = set()
            for o in outs_:
                t = o["term"]
                if o["bb"] in lookups:
                    continue
                if t[2] == "None":
                    none_bbs.add(o["bb"])
                else:
                    some_bb[t[3][0][1][2]] = o["bb"]
            sinks = set(some_bb.values()) | none_bbs | set(lookups)
            by_val = {v: k for k, v in ds.items()}
            pts = set(break_points(set(ds.values()) | {-65536, 65535, 65536, 2 ** 31, -2 ** 31, 2 ** 32, -2 ** 32, 2 ** 15, -2 ** 15, 255, 256}))
            pts |= {v + m for v in ds.values() for m in (2 ** 16, -2 ** 16, 2 ** 32, -2 ** 32) if -2 ** 63 <= v + m < 2 ** 63}
            for x in sorted(pts):
                reached, und = walk(f, 0, params={1: x}, sinks=sinks)
                if und or len(reached) != 1:
                    undec = True
                    bad.append("from_i64(%d) could not be evaluated" % x)
                    break
                want_bb = some_bb.get(by_val[x]) if x in by_val else None
                got = next(iter(reached))
                if got in lookups:
                    # the lookup finds the variant that has this integer, if the table lists it
                    if x in by_val and by_val[x] not in lookups[got]:
                        bad.append("from_i64(%d) searches a table that does not list %s" % (x, by_val[x]))
                    continue
                if x not in by_val:
                    if got not in none_bbs:
                        bad.append("from_i64(%d) is %s, no variant has that value" % (x, [k for k, b in some_bb.items() if b == got]))
                elif got != want_bb:
                    bad.append("from_i64(%d) does not arrive at %s (%s)" % (x, by_val[x], "None" if got in none_bbs else [k for k, b in some_bb.items() if b == got]))
            ctx.count("from_i64_points_evaluated", len(pts))
        ctx.ob("R-2", "from_i64:%s" % enum, not bad,
               "%s::from_i64 %s per variant (%d) and default None; evaluated on every discriminant and its neighbourhood" % (
                   enum, "searches a table that lists every variant by `v as i64 == i`" if lookups else "has exactly one arm `i == discriminant(V) => Some(V)`", len(ds)),
               where=f.span, detail={"problems": bad[:6]}, kind="cannot-decide" if undec else None,
               sample={"enum": enum, "arms": dict(list(arms.items())[:4])} if enum == "iana::KeyType" else None)
        g = prog.fn(tkey)
        rt = Prov(g).return_term()
        ok = rt == ("cast", "IntToInt", ("discr", ("deref", ("param", 0))), "i64")
        ctx.ob("R-2", "to_i64:%s" % enum, ok, "%s::to_i64 is the discriminant cast" % enum, where=g.span,
               detail={"return": show(rt)})
    if only is None:
        ctx.floor("R-2", "EnumI64 impls", n_from, 16)



def check(ctx):
    prog = ctx.prog
    check_tables(ctx)
    # ---- R-3 private ranges ---------------------------------------------------------------
    n_priv = 0
    for imp in prog.impls:
        if imp.get("trait") != WPR:
            continue
        enum = imp["self_adt"]
        n_priv += 1
        f = prog.fn("<%s as %s>::is_private" % (enum, WPR))
        rt = Prov(f).return_term()
        from lib.prov import resolve_consts
        rt2 = resolve_consts(prog, rt)
        bound = None
        try:
            pts = break_points(consts_in(rt2) | {-65536})
            table = {x: ev(rt2, {("param", 0): x}) for x in pts}
            bound = all(table[x] == (x < -65536) for x in pts)
        except Unknown:
            bound = None
        ctx.ob("R-3", "is_private:%s" % enum, bool(bound),
               "%s::is_private(i) is exactly i < -65536 (truth table on the break points)" % enum, where=f.span,
               detail={"body": show(rt2)}, sample={"enum": enum, "body": show(rt2)})
        ds = prog.enum_discrs(enum) or {}
        hit = sorted(n for n, v in ds.items() if v is not None and v < -65536)
        ctx.ob("R-3", "no-registered-private:%s" % enum, not hit,
               "no registered value of %s lies in its private-use range" % enum, detail={"offending": hit})
        ctx.ob("R-3", "expected-private-registry:%s" % enum, enum in PRIVATE_USE,
               "%s is one of the registries that have a private-use range" % enum)
    for enum in PRIVATE_USE:
        ctx.ob("R-3", "has-private:%s" % enum, any(i.get("trait") == WPR and i.get("self_adt") == enum for i in prog.impls),
               "%s implements WithPrivateRange" % enum)
    ctx.floor("R-3", "WithPrivateRange impls", n_priv, 4)

    # ---- R-4 classification ------------------------------------------------------------------
    _classify(ctx, "<common::RegisteredLabel<T> as common::AsCborValue>::from_cbor_value", private=False)
    _classify(ctx, "<common::RegisteredLabelWithPrivate<T> as common::AsCborValue>::from_cbor_value", private=True)

    # ---- R-5 which registry each typed position uses -------------------------------------------
    want = {
        ("header::Header", "alg"): "core::option::Option<common::RegisteredLabelWithPrivate<iana::Algorithm>>",
        ("header::Header", "crit"): "alloc::vec::Vec<common::RegisteredLabel<iana::HeaderParameter>>",
        ("header::Header", "content_type"): "core::option::Option<common::RegisteredLabel<iana::CoapContentFormat>>",
        ("key::CoseKey", "kty"): "common::RegisteredLabel<iana::KeyType>",
        ("key::CoseKey", "alg"): "core::option::Option<common::RegisteredLabelWithPrivate<iana::Algorithm>>",
        ("key::CoseKey", "key_ops"): "alloc::collections::btree::set::BTreeSet<common::RegisteredLabel<iana::KeyOperation>>",
        ("cwt::ClaimsSet", "rest"): "alloc::vec::Vec<(common::RegisteredLabelWithPrivate<iana::CwtClaimName>, ciborium::value::Value)>",
        ("context::CoseKdfContext", "algorithm_id"): "common::RegisteredLabelWithPrivate<iana::Algorithm>",
    }
    for (adt, field), ty in sorted(want.items()):
        a = prog.adts.get(adt)
        got = None
        if a:
            for fd in a["variants"][0]["fields"]:
                if fd["name"] == field:
                    got = fd["ty"]
        ctx.ob("R-5", "%s.%s" % (adt, field), got == ty, "%s.%s has label type %s" % (adt, field, ty),
               detail={"found": got})

    # R-6 "any other unregistered value is rejected": no caller of a label decoder turns that rejection into acceptance
    # (the same rule as C15 R-5, for the two unregistered-value errors)
    from rules import c15
    c15.check_rejections_propagate(ctx, "R-6", set(), variants=("UnregisteredIanaValue", "UnregisteredIanaNonPrivateValue"),
                                   what="an unregistered label value", floor=15)


def check_private_predicate(ctx, rule, enum):
    """<enum as WithPrivateRange>::is_private(i) is exactly i < -65536 (re-used by C08/C10/C18 for the registry they rely on)"""
    prog = ctx.prog
    from lib.prov import resolve_consts
    f = prog.fn("<%s as %s>::is_private" % (enum, WPR))
    rt2 = resolve_consts(prog, Prov(f).return_term())
    try:
        pts = break_points(consts_in(rt2) | {-65536})
        table = {x: ev(rt2, {("param", 0): x}) for x in pts}
        ok = all(table[x] == (x < -65536) for x in pts)
    except Unknown:
        ok = False
    ctx.ob(rule, "is_private:%s" % enum, bool(ok), "%s::is_private(i) is exactly i < -65536 (truth table on the break points)" % enum,
           where=f.span, detail={"body": show(rt2)})


def _is_narrowed(t):
    """the i64 obtained from the Integer payload of the input by the checked conversion: `i.try_into()?` or the Ok payload
    of `i.try_into().map_err(..)`"""
    x = None
    if t[0] == "tryok":
        x = t[1]
    elif t[0] == "field" and t[2] == "0" and t[1][0] == "variant" and t[1][2] == "Ok":
        x = t[1][1]
    if x is not None and is_call(x, "core::convert::TryInto::try_into") and x[2][0] == ("field", ("variant", ("param", 0), "Integer"), "0"):
        return True
    # the same integer taken from `Label::from_cbor_value(value)?` (type and range checks shared with the plain Label, whose
    # decoder is judged by C07 R-5 and C15 R-1)
    from lib.prov import strip_sites
    return strip_sites(t) == ("field", ("variant", VIA_LABEL, "Int"), "0")


LABEL_DEC = "<common::Label as common::AsCborValue>::from_cbor_value"
VIA_LABEL = ("tryok", ("call", LABEL_DEC, (("param", 0),)))


def _chain_guards(prog, pv, conds):
    """the decisions an exit of a label decoder depends on, besides the variant of the input and `?` edges:
    {('from_i64', variants), ('is_private', bool), ('other', text)}"""
    out = set()
    from lib.prov import strip_sites
    for c in conds:
        if c[0] == ("discr", ("param", 0)) or strip_sites(c[0]) == ("discr", VIA_LABEL):
            continue
        if c[0][0] == "discr" and is_call(c[0][1], "core::ops::try_trait::Try::branch"):
            continue
        cv = cond_variants(prog, pv, c)
        if cv and is_call(cv[0], "core::convert::TryInto::try_into"):
            continue        # the range check of the narrowing written as a match (C15 R-1 / R-3 judge it)
        if cv and is_call(cv[0], "iana::EnumI64::from_i64"):
            out.add(("from_i64", tuple(sorted(cv[1]))))
            continue
        nb = normalize_bool_cond(c)
        if nb and is_call(nb[0], "iana::WithPrivateRange::is_private"):
            out.add(("is_private", bool(nb[1])))
            continue
        out.add(("other", show(c[0])[:60]))
    return out


def _classify(ctx, key, private):
    prog = ctx.prog
    f = prog.fn(key)
    pv = Prov(f)
    outs = outcomes(f, pv)
    seen = {}
    problems = []
    n_ok = {}
    self_adt = "common::RegisteredLabelWithPrivate" if private else "common::RegisteredLabel"
    narrowed = None
    for o in outs:
        t = o["term"]
        inner = o["inner"]
        conds = o["conds"]
        # variant of the input Value on this path
        var = None
        for c in conds:
            if c[0] == ("discr", ("param", 0)) and c[1] == "eq":
                var = c[2]
            if c[0] == ("discr", ("param", 0)) and c[1] == "ne":
                var = "other"
        if o["kind"] == "ok" and inner[0] == "aggr" and inner[1] == self_adt:
            v = inner[2]
            payload = inner[3][0][1]
            n_ok[v] = n_ok.get(v, 0) + 1
            if v == "Assigned":
                # payload = (from_i64(i) as Some).0, reached when from_i64 returned Some - and under no other condition
                ok = (payload[0] == "field" and payload[1][0] == "variant" and payload[1][2] == "Some"
                      and is_call(payload[1][1], "iana::EnumI64::from_i64"))
                if ok:
                    arg = payload[1][1][2][0]
                    ok = _is_narrowed(arg)
                    narrowed = arg
                guards = _chain_guards(prog, pv, conds)
                if guards != {("from_i64", ("Some",))}:
                    ok = False
                    problems.append("Assigned is produced under %s, must be exactly `from_i64(i) is Some`" % sorted(guards))
                seen["Assigned"] = ok
            elif v == "PrivateUse":
                ok = private and _is_narrowed(payload)
                # guarded by from_i64 == None and is_private(i) == true
                g_none = g_priv = False
                for c in conds:
                    nb = normalize_bool_cond(c)
                    if nb and is_call(nb[0], "iana::WithPrivateRange::is_private") and nb[1] is True and nb[0][2][0] == payload:
                        g_priv = True
                    cv = cond_variants(prog, pv, c)
                    if cv and is_call(cv[0], "iana::EnumI64::from_i64") and cv[0][2][0] == payload and cv[1] == {"None"}:
                        g_none = True
                guards = _chain_guards(prog, pv, conds)
                if guards != {("from_i64", ("None",)), ("is_private", True)}:
                    ok = False
                    problems.append("PrivateUse is produced under %s, must be exactly `from_i64(i) is None and is_private(i)`" % sorted(guards, key=str))
                seen["PrivateUse"] = ok and g_none and g_priv
            elif v == "Text":
                from lib.prov import strip_sites
                seen["Text"] = payload == ("field", ("variant", ("param", 0), "Text"), "0") \
                    or strip_sites(payload) == ("field", ("variant", VIA_LABEL, "Text"), "0")
            else:
                problems.append("unexpected Ok variant %s" % v)
        elif o["kind"] == "err":
            name = inner[2] if inner[0] == "aggr" else show(inner)
            seen.setdefault("errs", []).append(name)
            if name in ("UnregisteredIanaValue", "UnregisteredIanaNonPrivateValue"):
                guards = _chain_guards(prog, pv, conds)
                want_g = {("from_i64", ("None",)), ("is_private", False)} if private else {("from_i64", ("None",))}
                if guards != want_g:
                    problems.append("%s is returned under %s, must be exactly %s" % (name, sorted(guards, key=str), sorted(want_g, key=str)))
        elif o["kind"] == "propagate":
            seen.setdefault("propagates", []).append(show(inner)[:80])
            if is_call(inner, LABEL_DEC) and inner[2] == (("param", 0),):
                seen["type_error"] = True       # the type error and the range error are the Label decoder's, handed on by `?`
        elif o["kind"] == "call" and is_call(t) and t[1].startswith("util::cbor_type_error"):
            seen["type_error"] = True
        else:
            problems.append("unexpected outcome %s %s" % (o["kind"], show(t)[:80]))
    for v, n in n_ok.items():
        if n != 1:
            problems.append("%d different paths produce Ok(%s): the classification is not a single chain" % (n, v))
    want_err = ["UnregisteredIanaNonPrivateValue"] if private else ["UnregisteredIanaValue"]
    errs = list(seen.get("errs", []))
    nprop = len(seen.get("propagates", []))
    if "OutOfRangeIntegerValue" in errs and nprop == 0:
        # the range error of the checked conversion written out (`map_err(|_| OutOfRangeIntegerValue)`) instead of `?` + From
        errs.remove("OutOfRangeIntegerValue")
        nprop = 1
    ok = (not problems and seen.get("Assigned") and seen.get("Text") and seen.get("type_error")
          and errs == want_err and nprop == 1
          and (seen.get("PrivateUse") if private else "PrivateUse" not in seen))
    ctx.ob("R-4", "classification:%s" % ("with-private" if private else "registered"), bool(ok),
           "label decoding: Integer -> checked i64 -> from_i64 Some => Assigned; None => %s; Text kept; other => type error" % (
               "is_private ? PrivateUse(i) : Err(UnregisteredIanaNonPrivateValue)" if private else "Err(UnregisteredIanaValue)"),
           where=f.span, detail={"seen": {k: v for k, v in seen.items()}, "problems": problems},
           sample={"fn": key, "seen": {k: v for k, v in seen.items()}})
META["decides"] += ' R-2 also evaluates every from_i64 on each discriminant and on the integers around them and around the 16/32-bit edges: each arrives at its own arm, everything else at None (an early return or a narrowing before the comparison is seen). R-1 also checks names added after the pinned version against a supplementary table of IANA assignments (spec/iana.py NOT_IN_CRATE).'
META["decides"] += ' The table-driven form `TABLE.iter().copied().find(|v| *v as i64 == i)` over a const slice that lists every variant is decided too (the driver dumps the promoted array of a const item).'
