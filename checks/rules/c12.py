"""C12 - no map handled by the crate ever carries the same label twice."""
from lib.prov import Prov, show
from lib.guards import conditions
from lib.mapcodec import MapDecoder, MapEncoder

REGISTER = True
META = {
    "level": "other",
    "explanation": "Static must-pass-through and coverage rules over the three map decoders and three map encoders (all paths of the "
                   "current MIR). Level is 'other' rather than 'proof' because two obligations are known, recorded findings "
                   "(cwt::ClaimsSet::to_cbor_value has no duplicate check, see known_findings.json).",
    "decides": "R-1 decode: in the header, key and claims-set decoders a set created once before the loop is consulted with the "
               "NORMALISED label of the current entry (contains -> Err(DuplicateMapKey), then insert), and that gate dominates every "
               "write to the result inside the loop and every continuation to the next entry - at every nesting level because nested headers use the same function; "
               "R-2 encode: every (label, value) pushed into an output map is covered by one duplicate set: pushes in the extras "
               "loop are dominated by contains/insert on that extra's label, and every typed entry inserts its own label constant "
               "into the same set under the same guard as its push.",
    "does_not_decide": "'however each key is encoded': normalisation of integer widths happens in ciborium before the crate sees the key "
                       "(trusted); Ord consistent with Eq for the set is C16",
    "trusted_base": ["std BTreeSet contains/insert", "ciborium data-model normalisation of map keys", "C16 (Ord consistent with Eq)"],
}
META["decides"] += " R-1 also: no entry skips the duplicate check, the map's entries are iterated as received, the duplicate rejection is not swallowed at any nesting position, derived Clone / PartialEq / Eq."

DECODERS = ["header::Header::from_cbor_value_depth", "<key::CoseKey as common::AsCborValue>::from_cbor_value",
            "<cwt::ClaimsSet as common::AsCborValue>::from_cbor_value"]
ENCODERS = ["<header::Header as common::AsCborValue>::to_cbor_value", "<key::CoseKey as common::AsCborValue>::to_cbor_value",
            "<cwt::ClaimsSet as common::AsCborValue>::to_cbor_value"]


def check_decoder(ctx, key, rule="R-1"):
    prog = ctx.prog
    f = prog.fn(key)
    md = MapDecoder(prog, f)
    if md.problem:
        ctx.cannot(rule, "decoder-shape:%s" % key, "%s: %s" % (key, md.problem), where=f.span)
        return None
    d = md.dup
    ctx.ob(rule, "set-created-once:%s" % key, d["seen_new_outside"] and d["seen_never_reset"],
           "the duplicate set is created once before the loop and never re-created or cleared inside it", where=f.span, detail=d)
    ctx.ob(rule, "dup-rejected:%s" % key, d["err_on_contains"] and (d["insert_bb"] is not None),
           "the normalised label of every entry is looked up in the set (hit -> Err(DuplicateMapKey)) and then inserted",
           where=f.where(d["contains_bb"]) if d["contains_bb"] is not None else f.span, detail=d,
           sample={"fn": key, "style": d["style"], "label": md.label_decoder})
    gates = md.dup_gate_blocks()
    # blocks of the loop body that can be reached from the loop header without passing a gate (failure-following: the Err exit
    # of a helper that performs the check joins its success exit before the caller's `?` separates them again)
    from lib.guards import reach_tracking_failures
    unguarded = set()
    for g in gates:
        unguarded |= reach_tracking_failures(f, md.loop[0], {g})
    late = []
    n = 0
    for fld, e in md.field_effects():
        if e["bb"] not in md.loop[1]:
            continue
        n += 1
        if not gates or e["bb"] in unguarded:
            late.append("%s (%s)" % (fld, f.where(e["bb"])))
    ctx.ob(rule, "check-before-use:%s" % key, not late and n > 0,
           "the duplicate check dominates all %d writes to the result in the loop body" % n, where=f.span,
           detail={"writes_not_dominated": late})
    header, body = md.loop
    latches = [p for p in f.cfg.pred[header] if p in body]
    from lib.guards import back_edges_taken
    skipping = sorted(set(latches) & set().union(*[set(back_edges_taken(f, header, {g}, header)) for g in gates])) if gates else latches
    ctx.ob(rule, "no-entry-skips-the-check:%s" % key, bool(latches) and not skipping,
           "every iteration of the entry loop that goes on to the next entry has passed the duplicate check (no entry is skipped "
           "on account of its value or label before its label was looked up and recorded)", where=f.span,
           detail={"continuing_blocks_not_dominated": [f.where(p) for p in skipping]})
    return md


def check(ctx):
    prog = ctx.prog
    # the duplicate sets hold clones of the normalised labels and find them by their (derived) equality
    from rules import structs_common as _S
    _S.check_derived_impls(ctx, "R-1", {"core::clone::Clone", "core::cmp::PartialEq", "core::cmp::Eq"})
    # ... and by their order: a BTreeSet finds a label only if cmp is Equal exactly on equal labels and a consistent total order
    # otherwise (C16's decision-table evaluation, without its demand that the order be the CBOR one)
    from rules import c16 as _c16
    _c16.check(ctx.under("R-1", "label-order"), consistency_only=True)
    # the entries walked are the map's own: try_as_map hands on the Vec inside Value::Map, unedited
    from rules import extractors as _ex
    _ex.check_extractors(ctx.under("R-1", "extractors"), "R-1", only={"try_as_map"})
    for key in DECODERS:
        check_decoder(ctx, key)
    # ... at every nesting position: no caller of a decoder turns the duplicate-label rejection into acceptance (C15 R-5's rule
    # for this error; a recipient / signer list that skips entries it cannot decode swallows it)
    from rules import c15
    c15.check_rejections_propagate(ctx, "R-1", set(), variants=("DuplicateMapKey",), what="a duplicate map label", floor=20)
    for key in ENCODERS:
        f = prog.fn(key)
        me = MapEncoder(prog, f)
        short = key.split(" as ")[0].lstrip("<")
        if me.problem:
            ctx.cannot("R-2", "encoder-shape:%s" % short, "%s: %s" % (key, me.problem), where=f.span)
            continue
        loop_entries = [e for e in me.entries if e.get("loop") is not None]
        typed = [e for e in me.entries if e.get("loop") is None]
        setl = None
        for ent in loop_entries:
            ok, setl, det = me.loop_dup_check(ent)
            ctx.ob("R-2", "%s::to_cbor_value:extras-unchecked" % short, ok,
                   "extra (label, value) pairs are checked against the duplicate set before they are pushed", where=f.where(ent["bb"]),
                   detail=det, sample={"fn": key, "check": det})
        ctx.ob("R-2", "%s::to_cbor_value:has-extras-loop" % short, len(loop_entries) == 1,
               "the encoder emits the extras in exactly one loop", where=f.span)
        missing = []
        for ent in typed:
            lab = ent.get("label")
            if not lab or lab[0] != "int":
                missing.append("entry with non-constant label at %s" % f.where(ent["bb"]))
                continue
            k = lab[1]
            pc = [c for c in conditions(f, me.pv, ent["bb"]) if not _is_try_edge(c)]
            hit = False
            for (k2, bb, conds, sl) in me.const_inserts:
                if k2 != k or (setl is not None and sl != setl):
                    continue
                ic = [c for c in conds if not _is_try_edge(c)]
                # same guard: the insert and the push are control-equivalent up to `?` edges, or the insert
                # is at least as general (its conditions are a prefix of the push's)
                if ic == pc[:len(ic)]:
                    hit = True
            if not hit:
                missing.append("label %d (field %s)" % (k, ent.get("field")))
        ctx.ob("R-2", "%s::to_cbor_value:typed-vs-extras-unchecked" % short, not missing and setl is not None,
               "every typed entry records its label in the duplicate set under the same guard as its push (%d typed entries)" % len(typed),
               where=f.span, detail={"typed_labels_not_in_set": missing, "const_inserts": [(k, bb) for k, bb, _, _ in me.const_inserts]},
               sample={"fn": key, "typed_entries": len(typed), "not_covered": missing})
        ctx.ob("R-2", "%s::to_cbor_value:set-not-reset" % short, not me.set_created_in_loop and not me.set_reset,
               "the duplicate set is not re-created or cleared while encoding", where=f.span)
        if me.sets:
            ctx.ob("R-2", "%s::to_cbor_value:set-starts-empty" % short, me.set_starts_empty,
                   "the duplicate set starts empty: a label is in it only because an entry with that label was emitted", where=f.span)


def _is_try_edge(c):
    from lib.prov import is_call
    return c[0][0] == "discr" and is_call(c[0][1], "core::ops::try_trait::Try::branch")
META["decides"] += ' R-1 also (dependency closure): the label types order consistently (C16\'s decision tables evaluated for Equal-iff-equal, antisymmetry, transitivity - not for which order), and try_as_map hands on the map\'s own entries unedited.'
