"""C04 - to-be-MACed bytes are exactly RFC 8152 MAC_structure (section 6.3)."""
from rules import structs_common as S
from rules.c11 import check_is_empty, check_cbor_bstr
from spec.rfc8152 import HELPERS, ROUTING

REGISTER = True
SFN = "mac::mac_structure_data"
MOD = "mac::"
META = {
    "level": "proof",
    "decides": "R-1 the context-string function maps every variant to the RFC 8152 section 6.3 string (exhaustive, injective); "
               "R-2 mac::mac_structure_data serialises exactly the array [context text, protected bstr via cbor_bstr, (optional signer protected, pushed iff "
               "supplied,) external_aad bstr, (payload bstr)] of its parameters in that order, is the only thing written to the returned "
               "buffer, and nothing else is returned; R-3 every caller (who-may-call is fixed) passes the context constant of its carrier "
               "type, a clone of its own stored protected header, the signer's protected header where the structure has one, the caller's "
               "AAD parameter and the right payload (embedded-or-empty for signing, required for MAC, the detached parameter only under "
               "the payload-absent check; recipient helpers only for the three recipient contexts); R-4 every public verify/create/"
               "decrypt helper of this family calls the caller's function once with its arguments in the documented order; R-5 the carriers "
               "of this family decode their protected slot through the byte-retaining constructor and cbor_bstr/is_empty implement "
               "'received bytes, else zero-length iff empty, else the encoded map' (shared with C02/C11).",
    "does_not_decide": "that ciborium's into_writer emits definite lengths and shortest heads (byte equality with an independent encoder); "
                       "injectivity of the bytes is a corollary (distinct contexts, definite-length strings, 4- vs 5-element arrays), not checked",
    "trusted_base": ["ciborium into_writer is deterministic and canonical for Text/Bytes/Array", "RFC 8152 section 6.3 as transcribed in spec/rfc8152.py",
                     "C02 (cbor_bstr yields the stored bytes) and C11 R-3"],
}
META["decides"] += ' (As built: R-2 re-checks the header encoder table, which is what a built protected header contributes; see C03 - decided per public entry point on the all-inlined view.)'
META["decides"] += ' R-2 also: map form of ProtectedHeader, un-overridden byte-level API; R-3 also: derived Clone, arguments not edited in place.'

META["decides"] += " R-5 also: retained wire bytes exist only in decoded headers - every construction of ProtectedHeader is the wire constructor, a derived Clone / Default or stores None, the builder setters discard retained bytes, nobody else writes original_data (C02 R-1's recogniser)."

def check(ctx):
    S.check_context_strings(ctx, "R-1", SFN)
    S.check_assembly(ctx, "R-2", SFN)
    S.check_routing_inlined(ctx, "R-3", SFN)
    check_is_empty(ctx, "R-2")
    check_cbor_bstr(ctx, "R-2")
    # "... the received bytes for a decoded message and otherwise the encoded map": retained bytes exist only where a header was
    # decoded - constructions, builder setters and writers of `original_data` (the recogniser of C02 R-1 under this property's name)
    from rules.c02 import check_constructions
    check_constructions(ctx, "R-5")
    S.check_derived_impls(ctx, "R-3", {"core::clone::Clone"})
    # "... otherwise the encoded map": the header map that a built protected header contributes is what the header encoder
    # emits - its table is re-checked here (the recogniser of C11 R-1/R-2/R-5/R-6 under this property's name)
    from rules.c11 import check_map_encoder, HEADER_EMIT, HEADER_EXTRAS
    check_map_encoder(ctx, "header::Header", HEADER_EMIT, HEADER_EXTRAS, rules=("R-2", "R-2", "R-2", "R-2"))
    # ... serialised by `to_vec()`: the trait default composed with the map form of the protected header
    from rules.c11 import check_protected_map_form
    from rules import c13 as _c13
    check_protected_map_form(ctx, "R-2")
    _c13.check_byte_api(ctx.under("R-2", "bytes-api"))
    S.check_carriers(ctx, "R-5", ["mac::CoseMac", "mac::CoseMac0"])
    n = 0
    for key, h in sorted(HELPERS.items()):
        if key.startswith(MOD):
            n += 1
            S.check_helper(ctx, "R-4", key, h)
    ctx.floor("R-3", "direct callers of the structure function", len([k for k, v in ROUTING.items() if v["fn"] == SFN]), 2)
    ctx.floor("R-4", "public helpers", n, 6)
