"""C07 - decode-encode reaches a fixed point in one step and loses nothing (table inversion)."""
from lib.prov import Prov, show, is_call, subterms
from lib.guards import outcomes, conditions, path_variants, normalize_bool_cond
from lib.veclen import VecLen
from lib import codec
from lib.mapcodec import MapDecoder, MapEncoder, SET_INSERT
from rules.c08 import full_of, _loop_source, _countersig
from rules.c09 import decoder_key
from rules.c11 import enc_key, codec_loop_source

REGISTER = True
META = {
    "level": "other",
    "explanation": "Sibling cross-check (no spec table): for every AsCborValue pair the decoder's table wire position/label -> (field, "
                   "extractor kind) and the encoder's table field -> (wire position/label, constructor kind, omission guard) are "
                   "extracted from the MIR and must be mutually inverse. This is a necessary condition of the round-trip property, "
                   "not the value equality itself, hence level 'other'.",
    "decides": "R-1 for all 21 AsCborValue implementations the encoder table is the inverse of the decoder table with matched "
               "extractor/constructor kinds (try_as_bytes <-> Value::Bytes, bstr-or-nil <-> Some->Bytes/None->Null, from_cbor_bstr <-> "
               "cbor_bstr, T::from_cbor_value <-> T::to_cbor_value, element-wise conversion <-> to_cbor_array, checked narrowing <-> "
               "Value::from); R-2 a field the encoder omits under a guard can never be produced satisfying that guard from a present "
               "label (non-empty validators, Some-wrapping, mandatory kty) and vice versa; R-3 single/multiple counter-signature "
               "discrimination pairs up; R-4 optional trailing slots (recipients, SuppPubInfo.other) agree on both sides; "
               "R-5 the variant maps of the enum-like codecs (Label, RegisteredLabel, RegisteredLabelWithPrivate, Timestamp, Nonce) "
               "are mutually inverse.",
    "does_not_decide": "the behavioural statement itself (needs ciborium's from_reader / into_writer to be mutually inverse on the data "
                       "model, float width selection, bignum folding); totality of re-encoding for decoded values is C01 I-enc + C12",
    "trusted_base": ["ciborium parse/serialise are inverse on the Value data model"],
}
META["decides"] += ' (As built: the from_cbor_bstr <-> cbor_bstr pairing re-checks that cbor_bstr returns the retained bytes untouched; encoder arrays and list-valued map fields are read as sequence values, so loops, extend, collect and iterator chains are equivalent.)'
META["decides"] += ' The byte-level API (from_slice / to_vec and the tagged pair) is the un-overridden trait defaults composed with these codecs.'

ARRAY_TYPES = ["sign::CoseSignature", "sign::CoseSign", "sign::CoseSign1", "encrypt::CoseRecipient", "encrypt::CoseEncrypt",
               "encrypt::CoseEncrypt0", "mac::CoseMac", "mac::CoseMac0", "context::PartyInfo", "context::SuppPubInfo"]
MAP_TYPES = {"header::Header": ("header::Header::from_cbor_value_depth", "rest"),
             "key::CoseKey": ("<key::CoseKey as common::AsCborValue>::from_cbor_value", "params"),
             "cwt::ClaimsSet": ("<cwt::ClaimsSet as common::AsCborValue>::from_cbor_value", "rest")}
ENUM_TYPES = ["common::Label", "common::RegisteredLabel<T>", "common::RegisteredLabelWithPrivate<T>", "cwt::Timestamp"]


def check(ctx):
    prog = ctx.prog
    n = 0
    for ty in ARRAY_TYPES:
        n += 1
        _array_pair(ctx, ty)
    for ty, (dk, extras) in MAP_TYPES.items():
        n += 1
        _map_pair(ctx, ty, dk, extras)
    for ty in ENUM_TYPES:
        n += 1
        _enum_pair(ctx, ty)
    n += _misc_pairs(ctx)
    from rules import extractors as _ex
    _ex.check_extractors(ctx.under("R-1", "extractors"), "R-1")
    _ex.check_to_cbor_array(ctx.under("R-1", "extractors"), "R-1")
    # the pairing from_cbor_bstr <-> cbor_bstr used by every array table is an inverse pair only because cbor_bstr hands
    # back the retained bytes of a decoded header untouched (shared with C02 R-3 / C11 R-3)
    from rules.c11 import check_cbor_bstr, check_is_empty
    check_cbor_bstr(ctx, "R-1")
    check_is_empty(ctx, "R-1")
    # the header encoder emits the typed fields in label order, so a decoded header that holds both an IV and a Partial IV
    # re-encodes to a map the decoder rejects in wire order 5, 6: the decoder's exclusion must hold for BOTH wire orders
    # (C08 R-2's truth table over the loop body, under this property)
    from rules import c08 as _c08
    from lib.mapcodec import MapDecoder as _MD
    _hd = prog.fn(_c08.DEC)
    _md = _MD(prog, _hd)
    if _md.problem:
        ctx.cannot("R-1", "iv-exclusion:decoder-shape", "%s: %s" % (_c08.DEC, _md.problem), where=_hd.span)
    else:
        _c08.check_iv_exclusion(ctx.under("R-1", "iv-exclusion"), _md, "R-2")
    # "for every byte string b": the byte-level API is the trait defaults composed with the Value-level codecs checked above;
    # no type overrides them (an overriding `ProtectedHeader::from_slice` that retains its input makes decode(encode(v)) != v)
    from rules import c13
    c13.check_byte_api(ctx.under("R-1", "bytes-api"))
    ctx.floor("R-1", "AsCborValue pairs cross-checked", n, 21)
    impls = [i for i in prog.impls if i.get("trait") == "common::AsCborValue"]
    ctx.ob("R-1", "all-impls-covered", len(impls) == n,
           "every AsCborValue implementation in the crate (%d) has been cross-checked (%d)" % (len(impls), n),
           detail={"impls": sorted(i["self_ty"] for i in impls)})


# ------------------------------------------------------------------------------------------------------------
def _array_pair(ctx, ty):
    prog = ctx.prog
    d = prog.fn(decoder_key(ty))
    pd = Prov(d)
    vl = VecLen(d)
    agg = codec.OkAggregate(d, pd)
    e = prog.fn(enc_key(ty))
    pe = Prov(e)
    rc = codec.returned_operand(e, pe, "Array")
    els = codec.array_elements(e, pe, *rc) if rc else None
    if agg.problem or els is None:
        ctx.cannot("R-1", "pair:%s" % ty, "cannot extract the codec tables of %s" % ty, where=d.span)
        return
    enc = []
    for i, el in enumerate(els):
        kind, field = codec.emit_kind(prog, e, pe, el)
        enc.append((i, field, kind, codec.guard_desc(prog, e, pe, el)))
    dec = {}
    for name in agg.fields:
        dec[name] = codec.slot_kind(prog, d, pd, vl, agg, name)
    problems = []
    for i, field, kind, guard in enc:
        dd = dec.get(field)
        if dd is None:
            problems.append("slot %d encodes `%s`, which the decoder never produces" % (i, field))
            continue
        if dd["slot"] != i:
            problems.append("`%s` is written at slot %d but read from slot %s" % (field, i, dd["slot"]))
        if dd["kind"] != kind:
            problems.append("`%s` is written as %s but read as %s" % (field, kind, dd["kind"]))
        opt_dec = bool(dd.get("optional"))
        opt_enc = guard != ["always"]
        if opt_dec != opt_enc:
            problems.append("`%s`: optional on %s only" % (field, "decode" if opt_dec else "encode"))
        elif opt_enc:
            want = ["nonempty:%s" % field] if kind.startswith("array<") else ["some:%s" % field]
            if guard != codec.canon_guard(want):
                problems.append("`%s`: decoder's default (empty/None) does not match the encoder's omission guard %s" % (field, guard))
    missing = sorted(set(dec) - {f for _, f, _, _ in enc})
    if missing:
        problems.append("decoded but never encoded: %s" % missing)
    ctx.ob("R-1", "pair:%s" % ty, not problems, "%s: encoder table is the inverse of the decoder table (%d slots)" % (ty, len(enc)),
           where=d.span, detail={"problems": problems, "decoder": {k: (v["slot"], v["kind"]) for k, v in dec.items()},
                                 "encoder": [(i, f, k) for i, f, k, _ in enc]},
           sample={"type": ty, "decoder": {k: (v["slot"], v["kind"]) for k, v in dec.items()}, "encoder": [(i, f, k) for i, f, k, _ in enc]})
    for i, field, kind, guard in enc:
        if guard != ["always"]:
            dd = dec.get(field) or {}
            ctx.ob("R-4", "optional-slot:%s.%s" % (ty, field), bool(dd.get("optional")) and dd.get("slot") == i,
                   "%s.%s is optional on both sides: decoded only from the longer array, omitted under %s" % (ty, field, guard), where=d.span)


# ------------------------------------------------------------------------------------------------------------
def decode_map_kinds(prog, md):
    """{label int: (field, kind, presence)} from a MapDecoder (spec-free)"""
    fn = md.fn
    V = ("sym", "value")
    out = {}
    by = {}
    for cls, effs in md.table.items():
        by.setdefault(md.class_name(cls), []).extend(effs)
    for name, effs in by.items():
        if not name.isdigit():
            continue
        k = int(name)
        fields = sorted({f for f, _ in effs})
        if len(fields) != 1:
            out[k] = (fields, "?", None)
            continue
        field = fields[0]
        kind = "?"
        presence = None
        if len(effs) == 1:
            e = effs[0][1]
            if e["kind"] == "assign":
                v = md.sym(e["value"])
                inner = v
                if inner[0] == "aggr" and inner[1] == "core::option::Option" and inner[2] == "Some":
                    inner = inner[3][0][1]
                    presence = "some"
                if inner[0] == "tryok" and is_call(inner[1]) and inner[1][2] == (V,):
                    c = inner[1]
                    if c[1] == codec.TRY_NONEMPTY:
                        kind, presence = "bstr", "nonempty"
                    elif c[1] == codec.TRY_BYTES:
                        kind = "bstr"
                    elif c[1] == codec.TRY_STRING:
                        kind = "tstr"
                    elif c[1].endswith("::from_cbor_value"):
                        kind = "nested<%s>" % codec.type_of_decoder(full_of(fn, c))
            elif e["kind"] == "call" and e["callee"] in (codec.VEC_PUSH, SET_INSERT):
                a = md.sym(e["args"][1])
                if a[0] == "tryok" and is_call(a[1]) and len(a[1][2]) == 1 and _loop_source(a[1][2][0]) is not None:
                    kind = "array<%s>" % codec.type_of_decoder(full_of(fn, a[1]))
                    presence = "nonempty?"
        if kind == "?" and field == "counter_signatures":
            ok, det = _countersig(prog, md, effs)       # single / multiple forms, however they are stored
            if ok:
                kind, presence = "single-or-array<sign::CoseSignature>", "nonempty?"
        if kind == "?" and len(effs) == 1 and effs[0][1]["kind"] == "assign":
            from lib.seq import Seq, X, normalize
            e0 = effs[0][1]
            s = normalize(Seq(fn, md.pv).of_value(e0["value"], 0, (e0["bb"], e0["idx"])))
            if s[0] == "map" and s[2][0] == "elems" and s[2][2] == 0 and s[2][3] is None \
                    and md.sym(s[2][1]) == ("field", ("variant", V, "Array"), "0") \
                    and s[1][0] == "tryok" and is_call(s[1][1]) and s[1][1][2] == (X,) and s[1][1][1].endswith("::from_cbor_value"):
                kind = "array<%s>" % codec.type_of_decoder(full_of(fn, s[1][1]))
                presence = "nonempty?"
        if kind == "?" and effs and all(e["kind"] == "call" for _, e in effs):
            # any other way of filling a list field from the entry's array (extend with a helper's result, collect, ..):
            # decided on the sequence the arm contributes
            from lib.seq import Seq, X
            from lib.prov import strip_sites
            s = Seq(fn, md.pv).contribution([e for _, e in effs], md.next_bb)
            if s[0] == "map" and s[2][0] == "elems" and s[2][2] == 0 and s[2][3] is None \
                    and md.sym(s[2][1]) == ("field", ("variant", V, "Array"), "0") \
                    and s[1][0] == "tryok" and is_call(s[1][1]) and s[1][1][2] == (X,) and s[1][1][1].endswith("::from_cbor_value"):
                kind = "array<%s>" % codec.type_of_decoder(full_of(fn, s[1][1]))
                presence = "nonempty?"
        out[k] = (field, kind, presence)
    return out


def _map_pair(ctx, ty, dk, extras):
    prog = ctx.prog
    d = prog.fn(dk)
    md = MapDecoder(prog, d)
    e = prog.fn(enc_key(ty))
    me = MapEncoder(prog, e)
    if md.problem or me.problem:
        ctx.cannot("R-1", "pair:%s" % ty, "cannot extract the codec tables of %s: %s" % (ty, md.problem or me.problem), where=d.span)
        return
    dec = decode_map_kinds(prog, md)
    enc = {}
    for ent in me.entries:
        if ent.get("loop") is not None or not ent.get("label") or ent["label"][0] != "int":
            continue
        enc.setdefault(ent["label"][1], []).append(ent)
    problems = []
    reject_keys = {(c, k) for c, k, _ in md.reject_sites()}
    for k in sorted(set(dec) | set(enc)):
        if k not in dec:
            problems.append("label %d is encoded but never decoded into a typed field" % k)
            continue
        if k not in enc:
            problems.append("label %d is decoded into `%s` but never encoded" % (k, dec[k][0]))
            continue
        field, kind, presence = dec[k]
        ents = enc[k]
        if kind.startswith("single-or-array<"):
            kinds = sorted((x.get("kind") or "?") for x in ents)
            inner = kind[len("single-or-array<"):-1]
            if kinds != ["array<%s>" % inner, "first-of<%s>" % inner] or any(x.get("field") != field for x in ents):
                problems.append("label %d: decoder accepts one-or-many %s, encoder emits %s" % (k, inner, kinds))
            g = sorted(tuple(x["guard"]) for x in ents)
            ctx.ob("R-3", "counter-signature-pairing:%s" % ty,
                   g == sorted([tuple(codec.canon_guard(["nonempty:%s" % field, "len!=1:%s" % field])),
                                tuple(codec.canon_guard(["nonempty:%s" % field, "len==1:%s" % field]))]),
                   "one counter-signature is written inline and recognised by its first element (bstr); several are written as an array "
                   "and recognised by theirs (array)", where=e.span, detail={"guards": g})
        else:
            if len(ents) != 1:
                problems.append("label %d emitted %d times" % (k, len(ents)))
                continue
            x = ents[0]
            if x.get("field") != field:
                problems.append("label %d: decoded into `%s`, encoded from `%s`" % (k, field, x.get("field")))
            if x.get("kind") != kind:
                problems.append("label %d (`%s`): decoded as %s, encoded as %s" % (k, field, kind, x.get("kind")))
        # R-2 omission vs rejection
        for x in ents:
            g = [y for y in x["guard"] if not y.startswith("len")]
            if g == ["nonempty:%s" % field]:
                ok = presence == "nonempty" or (presence == "nonempty?" and any(
                    c == str(k) and key.startswith("err:") and ("is_empty" in key or "empty" in key) for c, key in reject_keys))
                why = "omitted when empty, so a present label must never decode to empty"
            elif g == ["some:%s" % field]:
                ok = presence == "some"
                why = "omitted when None, so a present label must decode to Some(..)"
            elif g == ["always"]:
                ok = any(c == "pre" and key.startswith("err:") and "eq" in key for c, key in reject_keys)
                why = "always emitted, so decoding must require its presence"
            else:
                ok, why = False, "unrecognised omission guard %s" % g
            ctx.ob("R-2", "omit-iff-reject:%s.%d.%s" % (ty, k, (x.get("kind") or "?").split("<")[0]), ok,
                   "%s label %d (`%s`): %s" % (ty, k, field, why), where=e.span, detail={"guard": x["guard"], "decoder_presence": presence})
    muts = [m for m in me.self_mutations if not (m[0] == "counter_signatures" and m[1] == codec.VEC_REMOVE and m[2] == ["0"])]
    if muts:
        problems.append("the encoder mutates %s before emitting it (%s): decoded order / content is not what is written" % (
            sorted({m[0] for m in muts}), sorted({m[1].split("::")[-1] for m in muts})))
    # extras
    loops = [x for x in me.entries if x.get("loop") is not None]
    dflt = []
    for cls, effs in md.table.items():
        if md.class_name(cls) == "default":
            dflt = effs
    # the decoder appends each extra (label, value) unchanged (push: wire order = list order), the encoder walks the list in order
    ok = len(loops) == 1 and len(dflt) == 1 and dflt[0][0] == extras and dflt[0][1]["kind"] == "call" \
        and dflt[0][1]["callee"] == codec.VEC_PUSH \
        and md.sym(dflt[0][1]["args"][1]) == ("tuple", (("sym", "label"), ("sym", "value")))
    if ok:
        src = loops[0].get("label_src")
        from rules.c11 import extras_source
        it = extras_source(loops[0])
        ok = it == ("field", ("param", 0), extras)
    if not ok:
        problems.append("extras: the decoder must append every other (label, value) to `%s` unchanged and the encoder must iterate it in order" % extras)
    ctx.ob("R-1", "pair:%s" % ty, not problems, "%s: encoder label table is the inverse of the decoder's (%d typed labels + extras)" % (ty, len(dec)),
           where=d.span, detail={"problems": problems, "decoder": dec},
           sample={"type": ty, "decoder": {k: v for k, v in dec.items()}, "encoder": {k: [(x.get("field"), x.get("kind")) for x in v] for k, v in enc.items()}})


# ------------------------------------------------------------------------------------------------------------
def _variant_of_value_term(t, prog=None):
    """wire variant a constructor term produces"""
    if t[0] == "aggr" and t[1] == "ciborium::value::Value":
        return t[2]
    if is_call(t, "core::convert::From::from"):
        # `Value::from(x)`: ciborium's From impls build the variant of the source type
        src = None
        if prog is not None and len(t) > 3 and t[3] and t[3][0] in prog.fns and isinstance(t[3][1], int):
            c = prog.fns[t[3][0]].blocks[t[3][1]]["term"].get("callee") or {}
            if len(c.get("args") or []) == 2 and c["args"][0] == "ciborium::value::Value":
                src = c["args"][1]
        if src in ("f64", "f32"):
            return "Float"
        if src == "bool":
            return "Bool"
        if src in ("alloc::string::String", "&str"):
            return "Text"
        if src in ("alloc::vec::Vec<u8>", "&[u8]"):
            return "Bytes"
        return "Integer"
    return None


def _wire_payload(p, wire):
    """p is the payload of the input's `wire` variant itself, its checked narrowing, or the registry entry found for it"""
    from lib.prov import strip_sites
    p = strip_sites(p)
    P0 = ("param", 0)
    LBL = ("tryok", ("call", "<common::Label as common::AsCborValue>::from_cbor_value", (P0,)))
    raw = ("field", ("variant", P0, wire), "0")
    via = ("field", ("variant", LBL, {"Integer": "Int", "Text": "Text"}.get(wire, wire)), "0")
    narrowed = [("tryok", ("call", "core::convert::TryInto::try_into", (raw,))),
                ("field", ("variant", ("call", "core::convert::TryInto::try_into", (raw,)), "Ok"), "0"), via]
    if p in (raw, via) or p in narrowed:
        return True
    if p[0] == "field" and p[2] == "0" and p[1][0] == "variant" and p[1][2] == "Some" and is_call(p[1][1], "iana::EnumI64::from_i64"):
        return p[1][1][2][0] in narrowed
    return False


def _own_payload(term, variant):
    """the encoder arm for `variant` writes that variant's own payload: as it is, or through the lossless std conversions / to_i64"""
    from lib.prov import strip_sites
    t = strip_sites(term)
    own = ("field", ("variant", ("param", 0), variant), "0")

    def conv(x):
        if x == own:
            return True
        if is_call(x) and x[1] in ("core::convert::From::from", "core::convert::Into::into") and len(x[2]) == 1:
            return conv(x[2][0])
        if is_call(x, "iana::EnumI64::to_i64") and len(x[2]) == 1:
            a = x[2][0]
            while a[0] == "ref":
                a = a[1]
            return a == own
        return False
    if t[0] == "aggr" and t[1] == "ciborium::value::Value" and len(t[3]) == 1:
        return conv(t[3][0][1])
    return conv(t)


def _enum_pair(ctx, ty):
    prog = ctx.prog
    d = prog.fn("<%s as common::AsCborValue>::from_cbor_value" % ty)
    e = prog.fn("<%s as common::AsCborValue>::to_cbor_value" % ty)
    pd, pe = Prov(d), Prov(e)
    self_adt = ty.split("<")[0]
    dec = {}
    payload_problems = []
    for o in outcomes(d, pd):
        if o["kind"] != "ok":
            continue
        pvs = path_variants(prog, pd, o["conds"])
        src = pvs.get(("param", 0))
        if src is None:
            # decoded through the plain Label first: its Int / Text variants stand for the Integer / Text wire variants
            from lib.prov import strip_sites
            for k, names in pvs.items():
                if strip_sites(k) == ("tryok", ("call", "<common::Label as common::AsCborValue>::from_cbor_value", (("param", 0),))):
                    src = {{"Int": "Integer", "Text": "Text"}.get(n, n) for n in names}
        inner = o["inner"]
        if src and len(src) == 1 and inner[0] == "aggr" and inner[1] == self_adt:
            dec.setdefault(next(iter(src)), set()).add(inner[2])
            if inner[3] and not _wire_payload(inner[3][0][1], next(iter(src))):
                payload_problems.append("decoder: the payload of %s is %s, not the wire payload (converted exactly)" % (inner[2], show(inner[3][0][1])[:90]))
    enc = {}
    multi = []
    oks = [o for o in outcomes(e, pe) if o["kind"] == "ok"]
    others = [o for o in outcomes(e, pe) if o["kind"] != "ok"]
    if oks:
        for term, dbb in codec.ok_payload_arms(e, pe):
            pvs = path_variants(prog, pe, conditions(e, pe, dbb))
            sv = pvs.get(("param", 0))
            wv = _variant_of_value_term(term, prog)
            if sv and len(sv) == 1 and wv:
                v = next(iter(sv))
                if not _own_payload(term, v):
                    payload_problems.append("encoder: %s is written as %s, not its own payload (converted exactly)" % (v, show(term)[:90]))
                if v in enc and enc[v] != wv:
                    multi.append("variant %s is encoded as %s or %s depending on its value" % (v, enc[v], wv))
                enc[v] = wv
            else:
                multi.append("encoder arm not selected by a single variant: %s" % show(term)[:60])
    problems = list(multi) + payload_problems
    for wire, outs in dec.items():
        for v in outs:
            if enc.get(v) != wire:
                problems.append("wire %s decodes to %s, which encodes to %s" % (wire, v, enc.get(v)))
    for v, wire in enc.items():
        if v not in set().union(*dec.values()) if dec else True:
            problems.append("variant %s is encoded (as %s) but never decoded" % (v, wire))
    variants = [x["name"] for x in prog.adts[self_adt]["variants"]]
    if sorted(enc) != sorted(variants):
        problems.append("encoder does not cover all variants %s (covers %s)" % (variants, sorted(enc)))
    if others:
        problems.append("encoder has a failing exit")
    ctx.ob("R-5", "enum-pair:%s" % ty, not problems and bool(dec),
           "%s: wire-variant -> type-variant map of the decoder and type-variant -> wire-variant map of the encoder are mutually inverse" % ty,
           where=d.span, detail={"problems": problems, "decoder": {k: sorted(v) for k, v in dec.items()}, "encoder": enc},
           sample={"type": ty, "decoder": {k: sorted(v) for k, v in dec.items()}, "encoder": enc})
    ctx.ob("R-1", "pair:%s" % ty, not problems and bool(dec), "%s: codec pair cross-checked (variant tables)" % ty, where=d.span)


def _misc_pairs(ctx):
    """CoseKeySet, ProtectedHeader (bare map form), Value, CoseKdfContext"""
    prog = ctx.prog
    n = 0
    # CoseKeySet
    n += 1
    e = prog.fn(enc_key("key::CoseKeySet"))
    rt = Prov(e).return_term()
    d = prog.fn("<key::CoseKeySet as common::AsCborValue>::from_cbor_value")
    agg = codec.OkAggregate(d)
    dt = agg.term("0") if not agg.problem else None
    ad = codec.array_of_decoded(prog, d, agg.pv, VecLen(d), agg, "0") if not agg.problem else None
    ok = (is_call(rt, codec.TO_ARRAY) and rt[2] == (("field", ("param", 0), "0"),) and ad is not None
          and ad[0] == ("param", 0) and ad[1] == "key::CoseKey")
    ctx.ob("R-1", "pair:key::CoseKeySet", ok, "CoseKeySet: array of keys <-> to_cbor_array(self.0)", where=d.span)
    # ProtectedHeader as a bare map
    n += 1
    d = prog.fn("<header::ProtectedHeader as common::AsCborValue>::from_cbor_value")
    agg = codec.OkAggregate(d)
    e = prog.fn(enc_key("header::ProtectedHeader"))
    rt = Prov(e).return_term()
    ok = False
    if not agg.problem:
        h = agg.term("header")
        od = agg.term("original_data")
        ok = (h[0] == "tryok" and is_call(h[1]) and h[1][1] in codec.HDR_FROM and h[1][2][0] == ("param", 0)
              and od[0] == "aggr" and od[2] == "None"
              and is_call(rt, "<header::Header as common::AsCborValue>::to_cbor_value") and rt[2] == (("field", ("param", 0), "header"),))
    ctx.ob("R-1", "pair:header::ProtectedHeader", ok,
           "ProtectedHeader (bare map form): header decoded by / encoded with the Header codec, no stored bytes", where=d.span)
    # Value
    n += 1
    d = prog.fn("<ciborium::value::Value as common::AsCborValue>::from_cbor_value")
    e = prog.fn("<ciborium::value::Value as common::AsCborValue>::to_cbor_value")
    idt = ("aggr", "core::result::Result", "Ok", (("0", ("param", 0)),))
    ctx.ob("R-1", "pair:ciborium::value::Value", Prov(d).return_term() == idt and Prov(e).return_term() == idt, "Value: identity both ways", where=d.span)
    # CoseKdfContext: fixed slots via the array machinery; the tail is checked in C18
    n += 1
    ty = "context::CoseKdfContext"
    d = prog.fn(decoder_key(ty))
    pd = Prov(d)
    vl = VecLen(d)
    agg = codec.OkAggregate(d, pd)
    e = prog.fn(enc_key(ty))
    pe = Prov(e)
    rc = codec.returned_collection(e, pe, "Array")
    from lib.seq import Seq, show_seq
    s = Seq(e, pe).of_local(*rc) if rc else None
    problems = []
    if agg.problem or s is None:
        problems.append("cannot extract tables")
    else:
        parts = list(s[1]) if s[0] == "cat" else [s]
        fixed = parts[0][1] if parts and parts[0][0] == "lit" else ()
        tail = parts[1:] if parts and parts[0][0] == "lit" else parts
        for i, term in enumerate(fixed):
            kind, field = codec.emit_kind(prog, e, pe, {"term": term, "op": {"k": "const", "ty": "?", "val": None}, "at": (0, "term")})
            dd = codec.slot_kind(prog, d, pd, vl, agg, field) if field in agg.fields else None
            if not dd or dd["slot"] != i or dd["kind"] != kind:
                problems.append("slot %d: encoded from `%s` as %s, decoded %s" % (i, field, kind, (dd or {}).get("kind")))
        if len(fixed) != 4:
            problems.append("%d fixed slots before the tail, expected 4" % len(fixed))
        if len(tail) != 1 or tail[0][0] != "map":
            problems.append("expected one variable tail after the fixed slots: %s" % show_seq(s)[:120])
    ctx.ob("R-1", "pair:%s" % ty, not problems, "CoseKdfContext: the four fixed slots are inverse tables (the variable tail is C18 R-kdf)",
           where=d.span, detail={"problems": problems})
    return n
META["decides"] += ' R-1 also re-checks that the header decoder refuses IV together with Partial IV in either wire order (C08 R-2): the encoder emits them in label order, so an order-dependent exclusion breaks the fixed point.'
