"""Shared recognisers for C02..C06: context strings, structure assembly, routing, closure arguments."""
from lib.prov import Prov, show, is_call, subterms
from lib.guards import outcomes, conditions, path_variants, normalize_bool_cond
from lib.facts import callee_path
from lib import codec
from spec.rfc8152 import STRUCTURES, CONTEXTS, ROUTING, HELPERS, RECIPIENT_CONTEXTS

CLONE_PH = "<header::ProtectedHeader as core::clone::Clone>::clone"
CALL_ONCE = "core::ops::function::FnOnce::call_once"
DEREF = "core::ops::deref::Deref::deref"
TO_VEC_SLICE = "alloc::slice::<impl [T]>::to_vec"
EXPECT_R = "core::result::Result::<T, E>::expect"
UNWRAP_R = "core::result::Result::<T, E>::unwrap"


def strip_ref(t):
    while isinstance(t, tuple) and t and t[0] == "ref":
        t = t[1]
    return t


def strip_deref_call(t):
    """deref(&X) / deref(X) -> X (Vec<u8> -> [u8] coercions)"""
    while is_call(t, DEREF):
        t = strip_ref(t[2][0])
    return t


# ---- R-1 ------------------------------------------------------------------------------------------------
def check_context_strings(ctx, rule, sfn):
    prog = ctx.prog
    spec = STRUCTURES[sfn]
    want = CONTEXTS[spec["ctx_enum"]]
    f = prog.fn(spec["text"])
    pv = Prov(f)
    got = {}
    for o in outcomes(f, pv):
        pvs = path_variants(prog, pv, o["conds"])
        names = pvs.get(("deref", ("param", 0))) or pvs.get(("param", 0))
        t = o["term"]
        if names and len(names) == 1 and t[0] == "const":
            got[next(iter(names))] = t[1]
        else:
            got["?%d" % o["bb"]] = show(t)
    variants = [v["name"] for v in prog.adts[spec["ctx_enum"]]["variants"]]
    ctx.ob(rule, "context-strings:%s" % spec["ctx_enum"], got == want and sorted(variants) == sorted(want),
           "%s::text maps each variant to its RFC 8152 context string %s (found %s)" % (spec["ctx_enum"], want, got),
           where=f.span, detail={"found": got, "rfc": want, "variants": variants}, sample={"enum": spec["ctx_enum"], "strings": got})
    vals = list(got.values())
    ctx.ob(rule, "context-strings-distinct:%s" % spec["ctx_enum"], len(set(vals)) == len(vals), "context strings are pairwise distinct")


# ---- R-2 ------------------------------------------------------------------------------------------------
def check_assembly(ctx, rule, sfn):
    prog = ctx.prog
    spec = STRUCTURES[sfn]
    f = prog.fn(sfn)
    pv = Prov(f)
    r, why = codec.array_passed_to_writer(f, pv)
    if r is None:
        ctx.cannot(rule, "assembly:%s" % sfn, "%s: %s" % (sfn, why), where=f.span)
        return
    wbb, els = r
    want = spec["elements"]
    problems = []
    if len(els) != len(want):
        problems.append("array has %d elements, structure has %d" % (len(els), len(want)))
    for i, ((role, pi), e) in enumerate(zip(want, els)):
        t = e["term"]
        P = ("param", pi)
        guard_ok = e["conds"] == [] or all(_is_try_edge(c) for c in e["conds"])
        if role == "context":
            ok = (t[0] == "aggr" and t[1] == "ciborium::value::Value" and t[2] == "Text" and is_call(t[3][0][1], "alloc::borrow::ToOwned::to_owned")
                  and is_call(t[3][0][1][2][0], spec["text"]) and strip_ref(t[3][0][1][2][0][2][0]) == P) and guard_ok
        elif role == "protected":
            ok = _is_expect_cbor_bstr(t, P) and guard_ok
        elif role == "optional-protected":
            ok = _is_expect_cbor_bstr(t, ("field", ("variant", P, "Some"), "0"))
            pvs = path_variants(prog, pv, [c for c in e["conds"] if not _is_try_edge(c)])
            ok = ok and pvs == {P: {"Some"}} and e["via"] == "push"
        elif role == "bstr":
            ok = (t[0] == "aggr" and t[1] == "ciborium::value::Value" and t[2] == "Bytes" and is_call(t[3][0][1], TO_VEC_SLICE)
                  and strip_ref(t[3][0][1][2][0]) == P) and guard_ok
        else:
            ok = False
        if not ok:
            problems.append("element %d should be %s of parameter %d, found %s (guard %s)" % (i, role, pi, show(t)[:100], [show(c[0])[:40] for c in e["conds"]]))
    ctx.ob(rule, "assembly:%s" % sfn, not problems,
           "%s serialises exactly [%s]" % (sfn, ", ".join("%s(arg%d)" % w for w in want)), where=f.span,
           detail={"problems": problems}, sample={"fn": sfn, "elements": [show(e["term"])[:90] for e in els]})
    # the function returns the buffer written once by that into_writer, whose result is unwrapped
    rt = pv.return_term()
    buf_ok = is_call(rt, "alloc::vec::Vec::<T>::new")
    writers = [e for e in pv.effects() if e["kind"] == "call" and e["place"][0] == "local" and f.local_ty(e["place"][1]) == "alloc::vec::Vec<u8>"]
    ctx.ob(rule, "returns-serialisation:%s" % sfn, buf_ok and len(writers) == 1 and writers[0]["bb"] == wbb,
           "%s returns a fresh buffer written only by the one into_writer call" % sfn, where=f.span,
           detail={"return": show(rt)[:80], "buffer_writers": [w["callee"] for w in writers]})


def _is_try_edge(c):
    return c[0][0] == "discr" and is_call(c[0][1], "core::ops::try_trait::Try::branch")


def _is_expect_cbor_bstr(t, arg):
    return is_call(t, EXPECT_R) and is_call(t[2][0], codec.CBOR_BSTR) and t[2][0][2] == (arg,)


# ---- R-3 routing ---------------------------------------------------------------------------------------------
def self_protected(form):
    if form == "ref":
        return ("field", ("deref", ("param", 0)), "protected")
    if form == "builder":
        return ("field", ("field", ("param", 0), "0"), "protected")
    if form == "builder-ref":
        return ("field", ("field", ("deref", ("param", 0)), "0"), "protected")
    raise ValueError(form)


def self_field(form, name):
    base = self_protected(form)[1]
    return ("field", base, name)


def is_clone_of(t, place):
    return is_call(t, CLONE_PH) and strip_ref(t[2][0]) == place


def structure_call_sites(prog, sfn):
    out = []
    for f in prog.real_fns():
        for bb, t in f.calls():
            if callee_path(t) == sfn:
                out.append((f, bb))
    return out


def check_routing(ctx, rule, sfn):
    prog = ctx.prog
    sites = structure_call_sites(prog, sfn)
    want_callers = {k for k, v in ROUTING.items() if v["fn"] == sfn}
    got_callers = {f.key for f, _ in sites}
    ctx.ob(rule, "callers:%s" % sfn, got_callers == want_callers,
           "the callers of %s are exactly %s" % (sfn, sorted(want_callers)), detail={"found": sorted(got_callers)})
    spec = STRUCTURES[sfn]
    for f, bb in sites:
        r = ROUTING.get(f.key)
        if r is None:
            continue
        pv = Prov(f)
        t = f.blocks[bb]["term"]
        args = [pv.operand_term(a, bb, "term") for a in t["args"]]
        roles = spec["elements"]
        conds = conditions(f, pv, bb)
        problems = []
        # context
        c = args[0]
        if isinstance(r["context"], tuple):
            P = r["context"]
            if c != P:
                problems.append("context is %s, expected the caller's parameter %d" % (show(c)[:60], P[1]))
            pvs = path_variants(prog, pv, conds)
            allowed = pvs.get(P)
            if allowed != RECIPIENT_CONTEXTS:
                problems.append("the call is reached for contexts %s, must be exactly %s" % (sorted(allowed) if allowed else "any", sorted(RECIPIENT_CONTEXTS)))
        else:
            if c != ("aggr", spec["ctx_enum"], r["context"], ()):
                problems.append("context is %s, expected %s::%s" % (show(c)[:60], spec["ctx_enum"], r["context"]))
        # body protected
        if not is_clone_of(args[1], self_protected(r["self"])):
            problems.append("body protected header is %s, expected a clone of self.protected" % show(args[1])[:80])
        idx = 2
        if sfn == "sign::sig_structure_data":
            s = args[2]
            if r["sign"] == "none":
                if s != ("aggr", "core::option::Option", "None", ()):
                    problems.append("sign_protected is %s, expected None" % show(s)[:60])
            else:
                P = r["sign"]
                okp = (s[0] == "aggr" and s[2] == "Some" and is_clone_of(s[3][0][1], ("field", ("deref", P), "protected")))
                if not okp:
                    problems.append("sign_protected is %s, expected Some(clone of the signer's protected header)" % show(s)[:80])
            idx = 3
        # aad
        if args[idx] != ("param", r["aad"]):
            problems.append("external AAD is %s, expected parameter %d" % (show(args[idx])[:60], r["aad"]))
        # payload
        if r["payload"] is not None:
            p = strip_deref_call(args[idx + 1])
            sp = self_field(r["self"], "payload")
            if r["payload"] == "self-or-empty":
                ok = (is_call(p, "core::option::Option::<T>::unwrap_or") and is_call(p[2][0], "core::option::Option::<T>::as_ref")
                      and strip_ref(p[2][0][2][0]) == sp and is_call(strip_ref(p[2][1]), "alloc::vec::Vec::<T>::new"))
                if not ok:
                    problems.append("payload is %s, expected self.payload or the empty string" % show(p)[:100])
            elif r["payload"] == "self-required":
                ok = (is_call(p, "core::option::Option::<T>::expect") and is_call(p[2][0], "core::option::Option::<T>::as_ref")
                      and strip_ref(p[2][0][2][0]) == sp)
                if not ok:
                    problems.append("payload is %s, expected self.payload.expect(..) (refuse a missing payload)" % show(p)[:100])
            elif isinstance(r["payload"], tuple):
                if args[idx + 1] != ("param", r["payload"][1]):
                    problems.append("payload is %s, expected the detached payload parameter %d" % (show(args[idx + 1])[:60], r["payload"][1]))
                guarded = False
                for cnd in conds:
                    nb = normalize_bool_cond(cnd)
                    if nb and is_call(nb[0], "core::option::Option::<T>::is_none") and strip_ref(nb[0][2][0]) == sp and nb[1] is True:
                        guarded = True
                if not guarded:
                    problems.append("the detached variant is not dominated by the `self.payload.is_none()` check")
        if r.get("needs_ciphertext"):
            pass  # checked with the closure arguments (R-4): the ciphertext handed over is self.ciphertext.unwrap()
        ctx.ob(rule, "routing:%s" % f.key, not problems,
               "%s builds its structure from (context %s, self.protected, %saad=arg%d%s)" % (
                   f.key, r["context"], "" if r["sign"] is None else "sign=%s, " % (r["sign"],), r["aad"],
                   "" if r["payload"] is None else ", payload=%s" % (r["payload"],)),
               where=f.where(bb), detail={"problems": problems, "args": [show(a)[:100] for a in args]},
               sample={"caller": f.key, "args": [show(a)[:80] for a in args]})


# ---- R-4 closure arguments / C06 -----------------------------------------------------------------------------
def closure_call(f, pv):
    """the single call of the caller-supplied closure in f: (bb, closure term, tuple of argument terms)"""
    hits = []
    for bb, t in f.calls():
        if callee_path(t) == CALL_ONCE:
            fn_t = pv.operand_term(t["args"][0], bb, "term")
            tup = pv.operand_term(t["args"][1], bb, "term")
            hits.append((bb, fn_t, tup))
    return hits


def structure_arg(t):
    """strip `deref(&X)`"""
    return strip_deref_call(strip_ref(t))


def check_helper(ctx, rule, key, h, rules=None):
    """closure argument order and structure source for one public helper"""
    prog = ctx.prog
    f = prog.fn(key)
    pv = Prov(f)
    hits = closure_call(f, pv)
    problems = []
    if len(hits) != 1:
        ctx.ob(rule, "helper:%s" % key, False, "%s calls the caller's function exactly once (found %d calls)" % (key, len(hits)), where=f.span)
        return None
    bb, fn_t, tup = hits[0]
    if fn_t != ("param", h["closure"]):
        problems.append("the called function is %s, not the closure parameter %d" % (show(fn_t)[:60], h["closure"]))
    args = list(tup[1]) if tup[0] == "tuple" else []
    kind = h["kind"]
    form = "ref" if kind in ("verify", "decrypt") else "builder"
    struct_t = structure_arg(args[-1]) if args else None
    # the structure argument: a call of `via` on self / self.0 with the forwarded parameters
    via = h["via"]
    if not (struct_t is not None and is_call(struct_t, via)):
        problems.append("last closure argument is %s, expected the bytes from %s" % (show(struct_t)[:80] if struct_t else None, via))
    elif "fwd" in h:
        a = list(struct_t[2])
        self_t = strip_ref(a[0])
        want_self = ("param", 0) if form == "ref" else ("field", ("param", 0), "0")
        if kind == "verify" and self_t != ("param", 0):
            problems.append("structure is computed on %s, not on self" % show(self_t)[:60])
        if kind in ("create", "create-sig", "encrypt") and self_t not in (want_self, ("param", 0)):
            problems.append("structure is computed on %s, not on the builder's message" % show(self_t)[:60])
        for want, got in zip(h["fwd"], a[1:]):
            g = strip_ref(got)
            if want == "sig":
                ok = is_call(g, "core::ops::index::Index::index") and strip_ref(g[2][0]) == ("field", ("deref", ("param", 0)), "signatures") and g[2][1] == ("param", 1)
            elif want == "sig1":
                ok = g == ("param", 1)
            else:
                ok = g == ("param", want)
            if not ok:
                problems.append("argument forwarded to %s is %s, expected %s" % (via.split("::")[-1], show(g)[:60], want))
    if kind == "verify":
        stored = strip_deref_call(args[0]) if len(args) == 2 else None
        if h["stored"].startswith("signatures["):
            ok = (stored is not None and stored[0] == "field" and stored[2] == "signature"
                  and is_call(strip_deref(stored[1]), "core::ops::index::Index::index")
                  and strip_ref(strip_deref(stored[1])[2][0]) == ("field", ("deref", ("param", 0)), "signatures")
                  and strip_deref(stored[1])[2][1] == ("param", 1))
        else:
            ok = stored == ("field", ("deref", ("param", 0)), h["stored"])
        if not ok or len(args) != 2:
            problems.append("closure is called with (%s), expected (stored %s, structure) in that order" % (
                ", ".join(show(a)[:50] for a in args), h["stored"]))
    elif kind == "decrypt":
        ct = strip_deref_call(args[0]) if len(args) == 2 else None
        ok = (ct is not None and is_call(ct, "core::option::Option::<T>::unwrap") and is_call(ct[2][0], "core::option::Option::<T>::as_ref")
              and strip_ref(ct[2][0][2][0]) == ("field", ("deref", ("param", 0)), "ciphertext"))
        if not ok:
            problems.append("cipher is called with (%s), expected (self.ciphertext.unwrap(), aad)" % ", ".join(show(a)[:50] for a in args))
    elif kind in ("create", "create-sig"):
        if len(args) != 1:
            problems.append("signer/MAC function is called with %d arguments, expected (structure)" % len(args))
    elif kind == "encrypt":
        if len(args) != 2 or args[0] != ("param", h["plaintext"]):
            problems.append("cipher is called with (%s), expected (plaintext, aad)" % ", ".join(show(a)[:50] for a in args))
    ctx.ob(rule, "helper:%s" % key, not problems,
           "%s hands the caller's function %s" % (key, {"verify": "(stored value, structure) in that order", "decrypt": "(ciphertext, aad)",
                                                          "create": "(structure)", "create-sig": "(structure)", "encrypt": "(plaintext, aad)"}[kind]),
           where=f.where(bb), detail={"problems": problems, "closure_args": [show(a)[:100] for a in args]},
           sample={"helper": key, "closure_args": [show(a)[:80] for a in args]})
    return (f, pv, bb, args, struct_t)


def strip_deref(t):
    while isinstance(t, tuple) and t and t[0] in ("deref", "ref"):
        t = t[1]
    return t
