"""Shared recognisers for C02..C06: context strings, structure assembly, routing, closure arguments."""
from lib.prov import Prov, show, is_call, subterms
from lib.guards import outcomes, conditions, path_variants, normalize_bool_cond
from lib.facts import callee_path
from lib import codec
from spec.rfc8152 import STRUCTURES, CONTEXTS, ROUTING, HELPERS, RECIPIENT_CONTEXTS

CLONE_PH = "<header::ProtectedHeader as core::clone::Clone>::clone"
CALL_ONCE = "core::ops::function::FnOnce::call_once"
DEREF = "core::ops::deref::Deref::deref"
TO_VEC_SLICE = "alloc::slice::<impl [T]>::to_vec"
EXPECT_R = "core::result::Result::<T, E>::expect"
UNWRAP_R = "core::result::Result::<T, E>::unwrap"


def strip_ref(t):
    while isinstance(t, tuple) and t and t[0] == "ref":
        t = t[1]
    return t


# the same bytes seen as a slice: `&*v`, `v.as_slice()`, `v.as_ref()`, `v.borrow()`, `&v[..]`
SLICE_VIEWS = {DEREF, "alloc::vec::Vec::<T, A>::as_slice", "core::convert::AsRef::as_ref", "core::borrow::Borrow::borrow"}


def is_slice_view(t):
    if not is_call(t):
        return False
    if t[1] in SLICE_VIEWS and len(t[2]) == 1:
        return True
    return t[1] == "core::ops::index::Index::index" and len(t[2]) == 2 and t[2][1][0] == "aggr" \
        and t[2][1][1] == "core::ops::range::RangeFull"


def strip_deref_call(t):
    """deref(&X) / deref(X) / X.as_slice() / &X[..] -> X (Vec<u8> -> [u8] coercions)"""
    while is_slice_view(t):
        t = strip_ref(t[2][0])
    return t


# ---- R-1 ------------------------------------------------------------------------------------------------
STR_OWNERS = ("alloc::borrow::ToOwned::to_owned", "alloc::string::ToString::to_string", "core::convert::From::from",
              "core::convert::Into::into", "alloc::str::<impl str>::to_string", "alloc::string::String::from")


def context_map(prog, sfn):
    """({variant: context string}, index of the context parameter, problem) as the structure function computes it for
    element 0 of its array: Text(<a string constant selected by the variant of one parameter>.to_owned()).  Works on the
    all-inlined body, so it does not matter whether the strings live in a `text()` method, a match in place or a table."""
    f = prog.view("all").fn(sfn)
    pv = Prov(f)
    r, why = codec.array_passed_to_writer(f, pv)
    if r is None:
        return None, None, why
    els = r[1]
    if not els:
        return None, None, "empty array"
    e = els[0]
    d = codec.find_def_stmt(pv, e["op"], e["at"][0], e["at"][1])
    if not d or d[0] != "stmt" or d[1]["k"] != "aggr" or d[1].get("variant") != "Text" or not d[1]["ops"]:
        return None, None, "element 0 is not a Value::Text"
    d2 = codec.find_def_stmt(pv, d[1]["ops"][0], d[2], d[3])
    if not d2 or d2[0] != "call" or callee_path(d2[1]) not in STR_OWNERS or not d2[1]["args"]:
        return None, None, "the text of element 0 is not an owned copy of a string"
    got = {}
    subj = None
    for term, dbb in codec.arms(pv, d2[1]["args"][0], d2[2], "term"):
        term = strip_ref(term)
        pvs = path_variants(prog, pv, conditions(f, pv, dbb))
        sel = [(k, v) for k, v in pvs.items() if strip_deref(k)[0] == "param" and len(v) == 1]
        if term[0] != "const" or not isinstance(term[1], str) or len(sel) != 1:
            got["?%d" % dbb] = show(term)[:60]
            continue
        subj = strip_deref(sel[0][0])
        got[next(iter(sel[0][1]))] = term[1]
    return got, (subj[1] if subj else None), None


def check_context_strings(ctx, rule, sfn):
    prog = ctx.prog
    spec = STRUCTURES[sfn]
    want = CONTEXTS[spec["ctx_enum"]]
    got, pi, problem = context_map(prog, sfn)
    f = prog.fn(sfn)
    if got is None:
        ctx.cannot(rule, "context-strings:%s" % spec["ctx_enum"], "%s: %s" % (sfn, problem), where=f.span)
        return
    variants = [v["name"] for v in prog.adts[spec["ctx_enum"]]["variants"]]
    ctx.ob(rule, "context-strings:%s" % spec["ctx_enum"], got == want and sorted(variants) == sorted(want) and pi == 0,
           "%s puts the RFC 8152 context string of its context argument first: %s (found %s)" % (sfn, want, got),
           where=f.span, detail={"found": got, "rfc": want, "variants": variants, "context_parameter": pi},
           sample={"enum": spec["ctx_enum"], "strings": got})
    vals = list(got.values())
    ctx.ob(rule, "context-strings-distinct:%s" % spec["ctx_enum"], len(set(vals)) == len(vals), "context strings are pairwise distinct")


# ---- R-2 ------------------------------------------------------------------------------------------------
def check_assembly(ctx, rule, sfn):
    prog = ctx.prog.view("all")
    spec = STRUCTURES[sfn]
    f = prog.fn(sfn)
    cmap, cpi, _ = context_map(ctx.prog, sfn)
    pv = Prov(f)
    r, why = codec.array_passed_to_writer(f, pv)
    if r is None:
        ctx.cannot(rule, "assembly:%s" % sfn, "%s: %s" % (sfn, why), where=f.span)
        return
    wbb, els = r
    want = spec["elements"]
    problems = []
    if len(els) != len(want):
        problems.append("array has %d elements, structure has %d" % (len(els), len(want)))
    for i, ((role, pi), e) in enumerate(zip(want, els)):
        t = e["term"]
        P = ("param", pi)
        guard_ok = e["conds"] == [] or all(_is_try_edge(c) for c in e["conds"])
        if role == "context":
            # Text(<context string of parameter pi>): the string itself is R-1's business (context_map)
            ok = (t[0] == "aggr" and t[1] == "ciborium::value::Value" and t[2] == "Text" and cmap is not None and cpi == pi) and guard_ok
        elif role == "protected":
            ok = _is_expect_cbor_bstr(t, P) and guard_ok
        elif role == "optional-protected":
            ok = _is_expect_cbor_bstr(t, ("field", ("variant", P, "Some"), "0"))
            pvs = path_variants(prog, pv, [c for c in e["conds"] if not _is_try_edge(c)])
            ok = ok and pvs == {P: {"Some"}} and e["via"] == "push"
        elif role == "bstr":
            ok = (t[0] == "aggr" and t[1] == "ciborium::value::Value" and t[2] == "Bytes" and is_call(t[3][0][1], TO_VEC_SLICE)
                  and strip_ref(t[3][0][1][2][0]) == P) and guard_ok
        else:
            ok = False
        if not ok:
            problems.append("element %d should be %s of parameter %d, found %s (guard %s)" % (i, role, pi, show(t)[:100], [show(c[0])[:40] for c in e["conds"]]))
    ctx.ob(rule, "assembly:%s" % sfn, not problems,
           "%s serialises exactly [%s]" % (sfn, ", ".join("%s(arg%d)" % w for w in want)), where=f.span,
           detail={"problems": problems}, sample={"fn": sfn, "elements": [show(e["term"])[:90] for e in els]})
    # the function returns the buffer written once by that into_writer, whose result is unwrapped
    rt = pv.return_term()
    from lib.prov import unmutated
    rt, handed_out = unmutated(rt)
    buf_ok = (is_call(rt, "alloc::vec::Vec::<T>::new") or is_call(rt, "alloc::vec::Vec::<T>::with_capacity")) and len(handed_out) == 1
    writers = [e for e in pv.effects() if e["kind"] == "call" and e["place"][0] == "local" and f.local_ty(e["place"][1]) == "alloc::vec::Vec<u8>"]
    ctx.ob(rule, "returns-serialisation:%s" % sfn, buf_ok and len(writers) == 1 and writers[0]["bb"] == wbb,
           "%s returns a fresh buffer written only by the one into_writer call" % sfn, where=f.span,
           detail={"return": show(rt)[:80], "buffer_writers": [w["callee"] for w in writers]})


def _is_try_edge(c):
    return c[0][0] == "discr" and is_call(c[0][1], "core::ops::try_trait::Try::branch")


def _is_expect_cbor_bstr(t, arg):
    return is_call(t, EXPECT_R) and is_call(t[2][0], codec.CBOR_BSTR) and t[2][0][2] == (arg,)


# ---- R-3 routing ---------------------------------------------------------------------------------------------
def self_protected(form):
    if form == "ref":
        return ("field", ("deref", ("param", 0)), "protected")
    if form == "builder":
        return ("field", ("field", ("param", 0), "0"), "protected")
    if form == "builder-ref":
        return ("field", ("field", ("deref", ("param", 0)), "0"), "protected")
    raise ValueError(form)


def self_field(form, name):
    base = self_protected(form)[1]
    return ("field", base, name)


def is_clone_of(t, place):
    return is_call(t, CLONE_PH) and strip_ref(t[2][0]) == place


def structure_call_sites(prog, sfn):
    out = []
    for f in prog.real_fns():
        for bb, t in f.calls():
            if callee_path(t) == sfn:
                out.append((f, bb))
    return out


def check_routing(ctx, rule, sfn):
    prog = ctx.prog
    sites = structure_call_sites(prog, sfn)
    want_callers = {k for k, v in ROUTING.items() if v["fn"] == sfn}
    got_callers = {f.key for f, _ in sites}
    ctx.ob(rule, "callers:%s" % sfn, got_callers == want_callers,
           "the callers of %s are exactly %s" % (sfn, sorted(want_callers)), detail={"found": sorted(got_callers)})
    spec = STRUCTURES[sfn]
    for f, bb in sites:
        r = ROUTING.get(f.key)
        if r is None:
            continue
        pv = Prov(f)
        t = f.blocks[bb]["term"]
        args = [pv.operand_term(a, bb, "term") for a in t["args"]]
        roles = spec["elements"]
        conds = conditions(f, pv, bb)
        problems = []
        # context
        c = args[0]
        if isinstance(r["context"], tuple):
            P = r["context"]
            if c != P:
                problems.append("context is %s, expected the caller's parameter %d" % (show(c)[:60], P[1]))
            pvs = path_variants(prog, pv, conds)
            allowed = pvs.get(P)
            if allowed != RECIPIENT_CONTEXTS:
                problems.append("the call is reached for contexts %s, must be exactly %s" % (sorted(allowed) if allowed else "any", sorted(RECIPIENT_CONTEXTS)))
        else:
            if c != ("aggr", spec["ctx_enum"], r["context"], ()):
                problems.append("context is %s, expected %s::%s" % (show(c)[:60], spec["ctx_enum"], r["context"]))
        # body protected
        if not is_clone_of(args[1], self_protected(r["self"])):
            problems.append("body protected header is %s, expected a clone of self.protected" % show(args[1])[:80])
        idx = 2
        if sfn == "sign::sig_structure_data":
            s = args[2]
            if r["sign"] == "none":
                if s != ("aggr", "core::option::Option", "None", ()):
                    problems.append("sign_protected is %s, expected None" % show(s)[:60])
            else:
                P = r["sign"]
                okp = (s[0] == "aggr" and s[2] == "Some" and is_clone_of(s[3][0][1], ("field", ("deref", P), "protected")))
                if not okp:
                    problems.append("sign_protected is %s, expected Some(clone of the signer's protected header)" % show(s)[:80])
            idx = 3
        # aad
        if args[idx] != ("param", r["aad"]):
            problems.append("external AAD is %s, expected parameter %d" % (show(args[idx])[:60], r["aad"]))
        # payload
        if r["payload"] is not None:
            p = strip_deref_call(args[idx + 1])
            sp = self_field(r["self"], "payload")
            if r["payload"] == "self-or-empty":
                ok = (is_call(p, "core::option::Option::<T>::unwrap_or") and is_call(p[2][0], "core::option::Option::<T>::as_ref")
                      and strip_ref(p[2][0][2][0]) == sp and is_call(strip_ref(p[2][1]), "alloc::vec::Vec::<T>::new"))
                if not ok:
                    problems.append("payload is %s, expected self.payload or the empty string" % show(p)[:100])
            elif r["payload"] == "self-required":
                ok = (is_call(p, "core::option::Option::<T>::expect") and is_call(p[2][0], "core::option::Option::<T>::as_ref")
                      and strip_ref(p[2][0][2][0]) == sp)
                if not ok:
                    problems.append("payload is %s, expected self.payload.expect(..) (refuse a missing payload)" % show(p)[:100])
            elif isinstance(r["payload"], tuple):
                if args[idx + 1] != ("param", r["payload"][1]):
                    problems.append("payload is %s, expected the detached payload parameter %d" % (show(args[idx + 1])[:60], r["payload"][1]))
                guarded = False
                for cnd in conds:
                    nb = normalize_bool_cond(cnd)
                    if nb and is_call(nb[0], "core::option::Option::<T>::is_none") and strip_ref(nb[0][2][0]) == sp and nb[1] is True:
                        guarded = True
                if not guarded:
                    problems.append("the detached variant is not dominated by the `self.payload.is_none()` check")
        if r.get("needs_ciphertext"):
            pass  # checked with the closure arguments (R-4): the ciphertext handed over is self.ciphertext.unwrap()
        ctx.ob(rule, "routing:%s" % f.key, not problems,
               "%s builds its structure from (context %s, self.protected, %saad=arg%d%s)" % (
                   f.key, r["context"], "" if r["sign"] is None else "sign=%s, " % (r["sign"],), r["aad"],
                   "" if r["payload"] is None else ", payload=%s" % (r["payload"],)),
               where=f.where(bb), detail={"problems": problems, "args": [show(a)[:100] for a in args]},
               sample={"caller": f.key, "args": [show(a)[:80] for a in args]})


# ---- R-4 closure arguments / C06 -----------------------------------------------------------------------------
FN_CALLS = (CALL_ONCE, "core::ops::function::FnMut::call_mut", "core::ops::function::Fn::call")


def closure_call(f, pv):
    """calls of function VALUES in f: (bb, callee value term, tuple of argument terms)"""
    hits = []
    for bb, t in f.calls():
        if callee_path(t) in FN_CALLS:
            fn_t = strip_ref(pv.operand_term(t["args"][0], bb, "term"))
            tup = pv.operand_term(t["args"][1], bb, "term")
            hits.append((bb, fn_t, tup))
    return hits


def structure_arg(t):
    """strip `deref(&X)`"""
    return strip_deref_call(strip_ref(t))


OPTION_VIEWS = ("core::option::Option::<T>::as_ref", "core::option::Option::<T>::as_deref")


def is_self_option_unwrapped(t, field):
    """self.<field>.as_ref().unwrap() in any of its equivalent spellings"""
    t = strip_deref_call(strip_ref(t))
    if not (is_call(t) and t[1] in ("core::option::Option::<T>::unwrap", "core::option::Option::<T>::expect")):
        return False
    v = t[2][0]
    return is_call(v) and v[1] in OPTION_VIEWS and strip_ref(v[2][0]) == ("field", ("deref", ("param", 0)), field)


def check_helper(ctx, rule, key, h, rules=None, guards_only=False):
    """closure argument order and structure source for one public helper (all-inlined view of the helper).
    guards_only (C19): of the structure's routing only the refusal guard of the detached variants is judged - the documented
    panic of the builder call - not which structure is signed"""
    prog = ctx.prog.view("all")
    if key not in prog.fns:
        ctx.ob(rule, "helper:%s" % key, False, "%s exists" % key, kind="missing-anchor")
        return None
    f = prog.fn(key)
    pv = Prov(f)
    hits = [x for x in closure_call(f, pv) if x[1] == ("param", h["closure"])]
    others = [x for x in closure_call(f, pv) if x[1] != ("param", h["closure"])]
    problems = []
    if len(hits) != 1:
        ctx.ob(rule, "helper:%s" % key, False, "%s calls the caller's function exactly once (found %d calls)" % (key, len(hits)), where=f.span,
               detail={"other_function_values_called": [show(x[1])[:80] for x in others]})
        return None
    bb, fn_t, tup = hits[0]
    args = list(tup[1]) if tup[0] == "tuple" else []
    kind = h["kind"]
    struct_t = structure_arg(args[-1]) if args else None
    # the structure argument: the bytes returned by the structure function, called (in this body, after inlining) with
    # the abstract arguments the tables prescribe for this helper
    a = abstract_structure(prog, key)
    if a is None or not (struct_t is not None and is_call(struct_t) and struct_t[1] == a[0][0]):
        problems.append("last closure argument is %s, expected the bytes of the structure function" % (show(struct_t)[:80] if struct_t else None))
    else:
        ep = entry_problems(prog, key, a)
        problems.extend([p_ for p_ in ep if "detached payload" in p_] if guards_only else ep)
    if kind == "verify":
        stored = strip_deref_call(args[0]) if len(args) == 2 else None
        if h["stored"].startswith("signatures["):
            ok = (stored is not None and stored[0] == "field" and stored[2] == "signature"
                  and is_call(strip_deref(stored[1]), "core::ops::index::Index::index")
                  and strip_ref(strip_deref(stored[1])[2][0]) == ("field", ("deref", ("param", 0)), "signatures")
                  and strip_deref(stored[1])[2][1] == ("param", 1))
        else:
            ok = stored is not None and strip_ref(stored) == ("field", ("deref", ("param", 0)), h["stored"])
        if not ok or len(args) != 2:
            problems.append("closure is called with (%s), expected (stored %s, structure) in that order" % (
                ", ".join(show(a)[:50] for a in args), h["stored"]))
    elif kind == "decrypt":
        ok = len(args) == 2 and is_self_option_unwrapped(args[0], "ciphertext")
        if not ok:
            problems.append("cipher is called with (%s), expected (self.ciphertext.unwrap(), aad)" % ", ".join(show(a)[:50] for a in args))
    elif kind in ("create", "create-sig"):
        if len(args) != 1:
            problems.append("signer/MAC function is called with %d arguments, expected (structure)" % len(args))
    elif kind == "encrypt":
        if len(args) != 2 or args[0] != ("param", h["plaintext"]):
            problems.append("cipher is called with (%s), expected (plaintext, aad)" % ", ".join(show(a)[:50] for a in args))
    ctx.ob(rule, "helper:%s" % key, not problems,
           "%s hands the caller's function %s" % (key, {"verify": "(stored value, structure) in that order", "decrypt": "(ciphertext, aad)",
                                                          "create": "(structure)", "create-sig": "(structure)", "encrypt": "(plaintext, aad)"}[kind]),
           where=f.where(bb), detail={"problems": problems, "closure_args": [show(a)[:100] for a in args]},
           sample={"helper": key, "closure_args": [show(a)[:80] for a in args]})
    return (f, pv, bb, args, struct_t)


def strip_deref(t):
    while isinstance(t, tuple) and t and t[0] in ("deref", "ref"):
        t = t[1]
    return t


# ---- abstract structure reached from a function, inlining crate-local wrappers -------------------------------
_ABS_MEMO = {}


def _norm(t):
    """normalise self forms ((*self).x, self.0.x by value or by ref) to ('SELF',); own parameters to ('P', i);
    drop references / derefs / Deref::deref coercions"""
    if not isinstance(t, tuple) or not t:
        return t
    if t in (("param", 0), ("deref", ("param", 0)), ("field", ("param", 0), "0"), ("field", ("deref", ("param", 0)), "0")):
        return ("SELF",)
    k = t[0]
    if k == "param":
        return ("P", t[1])
    if k == "call":
        if is_slice_view(t):
            return _norm(t[2][0])
        return ("call", t[1], tuple(_norm(a) for a in t[2]))
    if k == "aggr":
        return ("aggr", t[1], t[2], tuple((n, _norm(x)) for n, x in t[3]))
    if k in ("field", "variant"):
        return (k, _norm(t[1]), t[2])
    if k in ("deref", "ref"):
        return _norm(t[1])
    if k == "tuple":
        return ("tuple", tuple(_norm(x) for x in t[1]))
    if k == "binop":
        return (k, t[1], _norm(t[2]), _norm(t[3]))
    if k == "unop":
        return (k, t[1], _norm(t[2]))
    if k == "discr":
        return (k, _norm(t[1]))
    if k == "tryok":
        return (k, _norm(t[1]))
    if k == "cast" and t[1] == "PointerCoercion":
        return _norm(t[2])      # unsizing `&[T; N]` -> `&[T]` etc.
    return t


def _subst(t, actual):
    if not isinstance(t, tuple) or not t:
        return t
    if t == ("SELF",):
        return actual[0] if actual else t
    if t[0] == "P":
        return actual[t[1]] if t[1] < len(actual) else t
    if t[0] == "call":
        return ("call", t[1], tuple(_subst(a, actual) for a in t[2]))
    if t[0] == "aggr":
        return ("aggr", t[1], t[2], tuple((n, _subst(x, actual)) for n, x in t[3]))
    if t[0] in ("field", "variant"):
        return (t[0], _subst(t[1], actual), t[2])
    if t[0] == "tuple":
        return ("tuple", tuple(_subst(x, actual) for x in t[1]))
    if t[0] == "binop":
        return (t[0], t[1], _subst(t[2], actual), _subst(t[3], actual))
    if t[0] in ("unop",):
        return (t[0], t[1], _subst(t[2], actual))
    if t[0] in ("discr", "tryok"):
        return (t[0], _subst(t[1], actual))
    return t


def _arg_term(prog, pv, a, bb):
    """normalised term of a call argument; a value that was edited in place (`x.f = v`, `&mut x`) between its definition
    and the call is not what its definition says and is reported as such"""
    t = _norm(_resolve_promoted(prog, pv.operand_term(a, bb, "term")))
    edits = pv.tampered(a, bb, "term")
    if edits:
        return ("edited", t, tuple(sorted(set(edits))))
    return t


def abstract_structure(prog, key, depth=0):
    """(args, conds, chain): the structure function and normalised arguments that the bytes produced by `key` come from,
    the path conditions collected along the way (normalised, `?` edges dropped) and the chain of functions inlined.
    None if `key` does not (transitively, through exactly one call) build a structure."""
    mk = (id(prog), key)
    if mk in _ABS_MEMO:
        return _ABS_MEMO[mk]
    _ABS_MEMO[mk] = None
    f = prog.fns.get(key)
    if f is None or not f.blocks or depth > 4:
        return None
    pv = Prov(f)
    res = None
    direct = [(bb, t) for bb, t in f.calls() if callee_path(t) in STRUCTURES]
    if len(direct) > 1:
        # the arm of a match on a literal that the literal does not take (an Option parameter of an inlined helper that is
        # `None` / `Some(..)` at this call site) is not a site of this function
        live = [(bb, t) for bb, t in direct if not pv._block_statically_dead(bb)]
        if live:
            direct = live
    if len(direct) == 1:
        bb, t = direct[0]
        from lib.prov import resolve_consts
        args = tuple(_arg_term(prog, pv, a, bb) for a in t["args"])
        cs = _norm_conds(prog, pv, f, bb)
        res = ((callee_path(t),) + args, cs, [key])
    elif not direct:
        cands = []
        for bb, t in f.calls():
            g = callee_path(t)
            if g and g in prog.fns and g != key and prog.fns[g].blocks:
                sub = abstract_structure(prog, g, depth + 1)
                if sub is not None:
                    cands.append((bb, t, sub))
        if len(cands) == 1:
            bb, t, (sargs, sconds, chain) = cands[0]
            actual = [_arg_term(prog, pv, a, bb) for a in t["args"]]
            args = (sargs[0],) + tuple(_subst(x, actual) for x in sargs[1:])
            cs = _norm_conds(prog, pv, f, bb) + [(_subst(c[0], actual), c[1], c[2]) for c in sconds]
            res = (args, cs, [key] + chain)
    _ABS_MEMO[mk] = res
    return res


def _norm_conds(prog, pv, f, bb):
    out = []
    for c in conditions(f, pv, bb):
        if _is_try_edge(c):
            continue
        subj = c[0]
        if subj[0] == "discr":
            cv = None
            from lib.guards import cond_variants
            cv = cond_variants(prog, pv, c)
            if cv:
                out.append((("discr", _norm(cv[0])), "variants", tuple(sorted(cv[1]))))
                continue
        out.append((_norm(subj), c[1], c[2]))
    return out


def expected_structure(r):
    """abstract argument tuple a ROUTING row prescribes"""
    spec = STRUCTURES[r["fn"]]
    out = [r["fn"]]
    if isinstance(r["context"], tuple):
        out.append(("P", r["context"][1]))
    else:
        out.append(("aggr", spec["ctx_enum"], r["context"], ()))
    out.append(("call", CLONE_PH, (("field", ("SELF",), "protected"),)))
    if r["fn"] == "sign::sig_structure_data":
        if r["sign"] == "none":
            out.append(("aggr", "core::option::Option", "None", ()))
        else:
            out.append(("aggr", "core::option::Option", "Some",
                        (("0", ("call", CLONE_PH, (("field", ("P", r["sign"][1]), "protected"),))),)))
    out.append(("P", r["aad"]))
    if r["payload"] is not None:
        as_ref = ("call", "core::option::Option::<T>::as_ref", (("field", ("SELF",), "payload"),))
        if r["payload"] == "self-or-empty":
            out.append("OR-EMPTY")
        elif r["payload"] == "self-required":
            out.append("EXPECT")
        else:
            out.append(("P", r["payload"][1]))
    return tuple(out)


def _resolve_promoted(prog, t):
    """replace promoted constants (`&[]`, `&CONST`) by their value terms"""
    from lib.prov import promoted_term
    if not isinstance(t, tuple) or not t:
        return t
    if t[0] == "promoted":
        return promoted_term(prog, t[1], t[2])
    if t[0] == "call":
        return ("call", t[1], tuple(_resolve_promoted(prog, a) for a in t[2])) + tuple(t[3:])
    if t[0] == "aggr":
        return ("aggr", t[1], t[2], tuple((n, _resolve_promoted(prog, x)) for n, x in t[3]))
    if t[0] in ("ref",):
        return (t[0], _resolve_promoted(prog, t[1]), t[2])
    if t[0] in ("deref", "tryok"):
        return (t[0], _resolve_promoted(prog, t[1]))
    if t[0] in ("field", "variant"):
        return (t[0], _resolve_promoted(prog, t[1]), t[2])
    if t[0] == "cast":
        return (t[0], t[1], _resolve_promoted(prog, t[2]), t[3])
    return t


SELF_PAYLOAD_VIEWS = (("call", "core::option::Option::<T>::as_ref", (("field", ("SELF",), "payload"),)),
                      ("call", "core::option::Option::<T>::as_deref", (("field", ("SELF",), "payload"),)))
EMPTY_BYTES = (("call", "alloc::vec::Vec::<T>::new", ()), ("array", ()))


def is_self_payload_or_empty(g):
    """self.payload if present, else the empty string - in any of the equivalent std spellings"""
    if g[0] != "call":
        return False
    if g[1] == "core::option::Option::<T>::unwrap_or" and len(g[2]) == 2:
        return g[2][0] in SELF_PAYLOAD_VIEWS and g[2][1] in EMPTY_BYTES
    if g[1] == "core::option::Option::<T>::unwrap_or_default" and len(g[2]) == 1:
        return g[2][0] in SELF_PAYLOAD_VIEWS
    return False


def is_self_payload_required(g):
    """self.payload, diverging (documented panic) when absent"""
    return (g[0] == "call" and g[1] in ("core::option::Option::<T>::expect", "core::option::Option::<T>::unwrap")
            and g[2][0] in SELF_PAYLOAD_VIEWS)


def compare_abstract(args, want):
    problems = []
    if args[0] != want[0]:
        problems.append("reaches %s instead of %s" % (args[0], want[0]))
    if len(args) != len(want):
        problems.append("argument count differs")
    for i, (g, w) in enumerate(zip(args[1:], want[1:]), 1):
        if w == "EXPECT":
            ok = is_self_payload_required(g)
        elif w == "OR-EMPTY":
            ok = is_self_payload_or_empty(g)
        else:
            ok = g == w
        if not ok:
            problems.append("structure argument %d is %s, expected %s" % (i, show(g)[:90], {
                "EXPECT": "self.payload (refusing a missing one)", "OR-EMPTY": "self.payload or the empty string"}.get(w) or show(w)[:90]))
    return problems


def expected_for(key):
    """abstract structure arguments the tables prescribe for a function, over ITS OWN parameters: a ROUTING row, or
    for a public helper the row of the (logical) producer it is documented to use, composed with the forwarding map"""
    if key in ROUTING:
        return expected_structure(ROUTING[key])
    h = HELPERS.get(key)
    if h is None or h["via"] not in ROUTING:
        return None
    actual = [("SELF",)]
    for w in h.get("fwd", []):
        if w == "sig":
            actual.append(("call", "core::ops::index::Index::index", (("field", ("SELF",), "signatures"), ("P", 1))))
        elif w == "sig1":
            actual.append(("P", 1))
        else:
            actual.append(("P", w))
    return tuple(_subst(x, actual) if not isinstance(x, str) else x for x in expected_structure(ROUTING[h["via"]]))


def row_for(key):
    if key in ROUTING:
        return ROUTING[key]
    h = HELPERS.get(key)
    return ROUTING.get(h["via"]) if h else None


def entry_problems(prog, key, a):
    """compare the abstract structure `a` reached from `key` (all-inlined view) with the tables"""
    r = row_for(key)
    want = expected_for(key)
    args, conds, chain = a
    problems = []
    if args[0] != r["fn"]:
        problems.append("reaches %s instead of %s" % (args[0], r["fn"]))
    problems.extend(compare_abstract(args, want))
    if isinstance(r["context"], tuple):
        P = want[1]
        allowed = None
        for c in conds:
            if c[0] == ("discr", P) and c[1] == "variants":
                allowed = set(c[2]) if allowed is None else allowed & set(c[2])
        if allowed != RECIPIENT_CONTEXTS:
            problems.append("reached for contexts %s, must be exactly the three recipient contexts" % (sorted(allowed) if allowed else "any"))
    if isinstance(r["payload"], tuple):
        guarded = any(c[0] == ("call", "core::option::Option::<T>::is_none", (("field", ("SELF",), "payload"),)) and
                      ((c[1] == "ne" and c[2] == (0,)) or (c[1] == "eq" and c[2] == 1)) for c in conds) or \
            any(c[0] == ("call", "core::option::Option::<T>::is_some", (("field", ("SELF",), "payload"),)) and
                ((c[1] == "eq" and c[2] == 0) or (c[1] == "ne" and c[2] == (1,))) for c in conds)
        if not guarded:
            problems.append("the detached payload is used without the `self.payload.is_none()` check on the path")
    return problems


def check_routing_inlined(ctx, rule, sfn):
    """R-3: every entry point of the tables reaches the structure function with exactly the prescribed abstract arguments,
    under the prescribed guards.  Entry points are analysed in the all-inlined view (every crate-local function they
    call is expanded in place), so it does not matter how the work is split between public methods and private
    helpers.  ROUTING rows that name a private function are logical rows (the producer a public helper is documented
    to use); they are checked when such a function exists and skipped otherwise."""
    prog = ctx.prog.view("all")
    n = 0
    for key, r in sorted(ROUTING.items()):
        if r["fn"] != sfn:
            continue
        if key not in prog.fns:
            if not r.get("private"):
                ctx.ob(rule, "routing:%s" % key, False, "%s exists" % key, kind="missing-anchor")
            continue
        a = abstract_structure(prog, key)
        if a is None:
            ctx.cannot(rule, "routing:%s" % key, "%s produces its bytes through exactly one call of %s" % (key, sfn), where=prog.fns[key].span)
            continue
        n += 1
        problems = entry_problems(prog, key, a)
        ctx.ob(rule, "routing:%s" % key, not problems,
               "%s builds its structure from (context %s, self.protected, %saad=arg%d%s)" % (
                   key, r["context"], "" if r["sign"] is None else "sign=%s, " % (r["sign"],), r["aad"],
                   "" if r["payload"] is None else ", payload=%s" % (r["payload"],)),
               where=prog.fns[key].span, detail={"problems": problems, "args": [show(x)[:100] for x in a[0]]},
               sample={"entry": key, "args": [show(x)[:80] for x in a[0][1:]]})
    # who else builds this structure?  public functions outside the tables are additions to the API: noted, not judged
    known = set(ROUTING) | set(HELPERS)
    extra = sorted({f.key for f, _ in structure_call_sites(prog, sfn) if f.is_pub and f.key not in known})
    for k in extra:
        ctx.note("%s also builds a %s structure; it is not in the tables and is not checked" % (k, sfn.split("::")[-1]))
    return n


def check_carriers(ctx, rule, types):
    """the carriers' decoders keep the received protected bytes (C02 R-2 restricted to this family)"""
    from lib.veclen import VecLen
    from rules.c09 import decoder_key
    from spec.rfc8152 import STRUCTS
    prog = ctx.prog
    for ty in types:
        f = prog.fn(decoder_key(ty))
        pv = Prov(f)
        vl = VecLen(f)
        agg = codec.OkAggregate(f, pv)
        if agg.problem or "protected" not in agg.fields:
            ctx.cannot(rule, "wire-slot:%s" % ty, "cannot read the decoder of %s" % ty, where=f.span)
            continue
        d = codec.slot_kind(prog, f, pv, vl, agg, "protected")
        ctx.ob(rule, "wire-slot:%s" % ty, d["kind"] == "protected" and d["slot"] == 0,
               "%s.protected = ProtectedHeader::from_cbor_bstr(<array slot 0>)? - the received bytes are retained for the structure" % ty,
               where=f.span, detail={"found": d})


EMPTY_CTORS = ("core::default::Default::default", "alloc::vec::Vec::<T>::new", "alloc::string::String::new",
               "alloc::collections::btree::set::BTreeSet::<T>::new")


def _structural_eq(prog, imp, adt):
    """a hand-written `PartialEq` for a struct that computes what the derive computes: the conjunction of `self.f == other.f` over
    ALL fields (any order, any spelling of the short-circuit), decided on the path rows of `eq`: a path returns false only after a
    field comparison came out false, and true (or the last comparison) only after every other field compared equal"""
    from lib.guards import path_rows
    fields = sorted(fd["name"] for fd in adt["variants"][0]["fields"])
    key = next((it["path"] for it in imp.get("items", []) if it["name"] == "eq"), None)
    f = prog.fns.get(key)
    if f is None or not f.blocks or any(it["name"] == "ne" for it in imp.get("items", [])):
        return False
    pv = Prov(f)
    if pv.effects():
        return False

    def fld(t):
        if not (is_call(t) and (t[1].endswith("PartialEq>::eq") or t[1] == "core::cmp::PartialEq::eq") and len(t[2]) == 2):
            return None
        names = []
        for i, a in enumerate(t[2]):
            while a[0] == "ref":
                a = a[1]
            if not (a[0] == "field" and a[1] == ("deref", ("param", i))):
                return None
            names.append(a[2])
        return names[0] if names[0] == names[1] else None
    try:
        rows = path_rows(f, pv)
    except Exception:
        return False
    if not rows:
        return False
    for r in rows:
        known = {}
        for c in r["conds"]:
            x = fld(c[0])
            if x is None:
                return False
            v = True if (c[1] == "ne" and c[2] in ((0,), (False,))) or (c[1] == "eq" and c[2] in (1, True)) else \
                False if (c[1] == "eq" and c[2] in (0, False)) else None
            if v is None or known.get(x, v) != v:
                return False
            known[x] = v
        t = r["term"]
        if any(v is False for v in known.values()):
            if t != ("const", False):
                return False
        elif t == ("const", True):
            if sorted(known) != fields:
                return False
        else:
            x = fld(t)
            if x is None or sorted(set(known) | {x}) != fields:
                return False
    return True


def _structural_impl(prog, imp, adt):
    """a hand-written `Clone` / `Default` for a struct that is literally what the derive generates: every field cloned from the same
    field of self / every field its empty value"""
    tr = imp.get("trait")
    if len(adt.get("variants", [])) == 1 and tr == "core::cmp::PartialEq":
        return _structural_eq(prog, imp, adt)
    if len(adt.get("variants", [])) != 1 or tr not in ("core::clone::Clone", "core::default::Default"):
        return False
    fields = [fd["name"] for fd in adt["variants"][0]["fields"]]
    name = "clone" if tr.endswith("Clone") else "default"
    key = next((it["path"] for it in imp.get("items", []) if it["name"] == name), None)
    f = prog.fns.get(key)
    if f is None or not f.blocks:
        return False
    rt = Prov(f).return_term()
    if rt[0] != "aggr" or rt[1] != imp["self_adt"] or sorted(n for n, _ in rt[3]) != sorted(fields):
        return False
    for fname, v in rt[3]:
        if name == "clone":
            src = ("field", ("deref", ("param", 0)), fname)
            arg = v[2][0] if (is_call(v) and v[1].endswith("::clone") and len(v[2]) == 1) else None
            while arg is not None and arg[0] == "ref":
                arg = arg[1]
            if arg != src:
                return False
        else:
            ok = (is_call(v) and (v[1] in EMPTY_CTORS or v[1].endswith("core::default::Default>::default")) and not v[2]) \
                or v == ("aggr", "core::option::Option", "None", ())
            if not ok:
                return False
    return True


def check_derived_impls(ctx, rule, traits, only_structs=False):
    """the analyses read `x.clone()` as x, `T::default()` as the all-empty T and `a == b` as structural equality - which is
    what `#[derive]` generates.  Every impl of the named std traits for a crate-local type must therefore be compiler-derived;
    a hand-written one is not analysed and is reported (a `Clone for ProtectedHeader` that drops `original_data` changes what
    every structure function is handed)."""
    prog = ctx.prog
    n = 0
    manual = []
    for i in prog.impls:
        tr = i.get("trait")
        if tr not in traits or not i.get("self_adt"):
            continue
        adt = prog.adts.get(i["self_adt"]) or {}
        if only_structs and len(adt.get("variants", [])) != 1:
            continue
        n += 1
        if not i.get("from_expansion") and not _structural_impl(prog, i, adt):
            manual.append("%s for %s (%s)" % (tr.split("::")[-1], i["self_ty"], i.get("span")))
    ctx.ob(rule, "derived:%s" % "+".join(sorted(t.split("::")[-1] for t in traits)), not manual and n > 0,
           "all %d impls of %s for the crate's own types are compiler-derived or literally structural, as the analyses assume" % (
               n, " / ".join(sorted(t.split("::")[-1] for t in traits))), detail={"hand_written": manual})
