"""C13 - an accepted input is exactly one CBOR item; byte and Value APIs agree (DESIGN 5/C13)."""
from lib.prov import Prov, show, is_call, calls_in, subterms
from lib.guards import outcomes, normalize_bool_cond
from lib.facts import callee_path

META = {
    "level": "proof",
    "decides": "R-1 read_to_value parses with the single from_reader call and returns Ok only on the is_empty edge of the "
               "same slice; R-2 no impl overrides from_slice/to_vec/from_tagged_slice/to_tagged_vec; R-3 the four trait "
               "defaults are exactly parse/serialise composed with the Value conversions; R-4 the header inside a protected "
               "bstr is parsed by the same one-item routine on exactly the stored bytes",
    "does_not_decide": "that ciborium's from_reader consumes exactly one complete item and fails on every proper prefix "
                       "(prefix-freeness of CBOR; ciborium is the trusted base)",
    "trusted_base": ["rustc type checking / MIR construction", "ciborium 0.2.x from_reader parses one item and advances the slice",
                     "std slice::is_empty"],
}

READ = "common::read_to_value"
SER = "common::CborSerializable"
TSER = "common::TaggedCborSerializable"
ASV = "common::AsCborValue"


def is_from_reader(t):
    c = t.get("callee") or {}
    return c.get("crate") == "ciborium" and c.get("name", "").startswith("from_reader")


def check_read_to_value(ctx, rule):
    """read_to_value hands back exactly the item the parser produced (not a part of it, not something unwrapped from it),
    only when the slice is exhausted; every other exit is an error"""
    prog = ctx.prog
    rtv = prog.fn(READ)
    pv = Prov(rtv)
    outs = outcomes(rtv, pv)
    oks = [o for o in outs if o["kind"] == "ok"]
    errs = [o for o in outs if o["kind"] == "err"]
    props = [o for o in outs if o["kind"] == "propagate"]
    others = [o for o in outs if o["kind"] not in ("ok", "err", "propagate")]
    good_ok = False
    det = {}
    if len(oks) == 1:
        o = oks[0]
        v = o["inner"]
        det["ok_value"] = show(v)
        val_ok = v[0] == "tryok" and is_call(v[1]) and v[1][1].startswith("ciborium::") and v[1][2][0] == ("ref", ("param", 0), True)
        if val_ok and len(v[1][2]) > 1:
            # from_reader_with_recursion_limit(reader, limit): the byte level agrees with ciborium's own parse (what a caller of
            # the Value level API uses) only if the limit is ciborium's default
            from lib.prov import resolve_consts
            lim = resolve_consts(prog, v[1][2][1])
            while lim[0] == "cast":
                lim = lim[2]
            val_ok = v[1][1].endswith("from_reader_with_recursion_limit") and len(v[1][2]) == 2 and lim == ("const", 256)
            det["recursion_limit"] = show(lim)
        conds = [normalize_bool_cond(c) for c in o["conds"]]
        det["ok_conditions"] = [(show(c[0]), c[1]) for c in conds if c]
        guard_ok = False
        for c in conds:
            if c and c[1] is True and is_call(c[0], "core::slice::<impl [T]>::is_empty") and c[0][2][0] == ("param", 0):
                # the emptiness test must come after the parse
                if not val_ok:
                    continue
                e_bb = c[0][3][1]
                p_bb = v[1][3][1]
                guard_ok = rtv.cfg.dominates(p_bb, e_bb) and p_bb != e_bb
        good_ok = val_ok and guard_ok
    ctx.ob(rule, "ok-only-when-slice-empty", good_ok,
           "read_to_value returns Ok(v) only with v = the parsed item and only on the is_empty() edge of the same slice, tested after the parse",
           where=rtv.span, detail=det, sample=det)
    err_ok = len(errs) == 1 and errs[0]["inner"][0] == "aggr" and errs[0]["inner"][2] == "ExtraneousData"
    if err_ok:
        conds = [normalize_bool_cond(c) for c in errs[0]["conds"]]
        err_ok = any(c and c[1] is False and is_call(c[0], "core::slice::<impl [T]>::is_empty") for c in conds)
    ctx.ob(rule, "trailing-bytes-rejected", err_ok,
           "the non-empty edge returns Err(ExtraneousData)", where=rtv.span,
           detail={"errs": [show(e["term"]) for e in errs]})
    ctx.ob(rule, "no-other-exit", len(props) == 1 and not others,
           "read_to_value has no exit besides Ok / ExtraneousData / the parser's error",
           where=rtv.span, detail={"outcomes": [(o["kind"], show(o["term"])[:120]) for o in outs]})



def check_byte_api(ctx):
    """R-2 / R-3: the byte-level API (from_slice, to_vec, from_tagged_slice, to_tagged_vec) is the trait defaults, which are
    the compositions of read_to_value / into_writer with the Value-level conversions (re-used by C07, whose statement
    quantifies over byte strings)"""
    prog = ctx.prog
    # ---- R-2 no overrides ---------------------------------------------------
    n_ser = n_tser = 0
    for imp in prog.impls:
        if imp.get("trait") == SER:
            n_ser += 1
            fns = [i["name"] for i in imp["items"] if i["kind"] == "Fn"]
            ctx.ob("R-2", "no-override:%s" % imp["self_ty"], not fns,
                   "impl CborSerializable for %s defines no method (defaults are the only implementation)" % imp["self_ty"],
                   where=imp["span"], detail={"overrides": fns})
        if imp.get("trait") == TSER:
            n_tser += 1
            fns = [i["name"] for i in imp["items"] if i["kind"] == "Fn"]
            ctx.ob("R-2", "no-override-tagged:%s" % imp["self_ty"], not fns,
                   "impl TaggedCborSerializable for %s defines only TAG" % imp["self_ty"],
                   where=imp["span"], detail={"overrides": fns})
    ctx.floor("R-2", "CborSerializable impls", n_ser, 20)
    ctx.floor("R-2", "TaggedCborSerializable impls", n_tser, 6)

    # ---- R-3 defaults are the compositions -------------------------------------
    # (net-effect view: a default that delegates to another, un-overridden default of the same trait is judged as one function)
    prog = prog.view("all")
    fs = prog.fn(SER + "::from_slice")
    pv = Prov(fs)
    outs = outcomes(fs, pv)
    calls = [o for o in outs if o["kind"] == "call"]
    want = None
    if len(calls) == 1:
        t = calls[0]["term"]
        want = (t[1] == ASV + "::from_cbor_value" and len(t[2]) == 1 and t[2][0][0] == "tryok"
                and is_call(t[2][0][1], READ) and t[2][0][1][2] == (("param", 0),))
    rest = [o for o in outs if o["kind"] != "call"]
    ctx.ob("R-3", "from_slice", bool(want) and all(o["kind"] == "propagate" and is_call(o["inner"], READ) for o in rest) and len(rest) == 1,
           "from_slice(s) = Self::from_cbor_value(read_to_value(s)?) and nothing else", where=fs.span,
           detail={"outcomes": [(o["kind"], show(o["term"])[:200]) for o in outs]},
           sample={"return": show(pv.return_term())[:300]})

    tv = prog.fn(SER + "::to_vec")
    _check_to_vec(ctx, tv, tagged=False)
    ttv = prog.fn(TSER + "::to_tagged_vec")
    _check_to_vec(ctx, ttv, tagged=True)

    fts = prog.fn(TSER + "::from_tagged_slice")
    _check_from_tagged(ctx, fts)


def check(ctx):
    prog = ctx.prog
    # ---- R-1 ------------------------------------------------------------
    sites = []
    for f in prog.real_fns():
        for bb, t in f.calls():
            if is_from_reader(t):
                sites.append((f, bb, t))
    ctx.count("from_reader_call_sites", len(sites))
    ctx.ob("R-1", "single-parser-entry", len(sites) == 1 and sites[0][0].key == READ,
           "the only call of ciborium::de::from_reader* in the crate is in common::read_to_value",
           where=", ".join("%s (%s)" % (f.key, f.where(bb)) for f, bb, _ in sites) or None,
           detail={"sites": [f.key for f, _, _ in sites]})
    check_read_to_value(ctx, "R-1")

    # ---- who may call read_to_value ------------------------------------------
    callers = sorted({f.key for f in prog.real_fns() for bb, t in f.calls() if callee_path(t) == READ})
    allowed = {SER + "::from_slice", TSER + "::from_tagged_slice", "header::ProtectedHeader::from_cbor_bstr_depth"}
    # (a new provided method of the two traits that parses through read_to_value inherits its one-item discipline)
    extra = [k for k in callers if k not in allowed and prog.fn(k).trait_default_of not in (SER, TSER)]
    ctx.ob("R-1", "callers-of-read_to_value", not extra and (SER + "::from_slice") in callers,
           "read_to_value is called only by provided methods of the serialisation traits and the protected-header path",
           detail={"callers": callers, "unexpected": extra})

    check_byte_api(ctx)
    from rules import extractors as _ex
    _ex.check_extractors(ctx.under("R-3", "extractors"), "R-3", only={"try_as_tag"})

    # ---- R-4 protected header path ------------------------------------------------
    ph = prog.fn("header::ProtectedHeader::from_cbor_bstr_depth")
    pv = Prov(ph)
    outs = outcomes(ph, pv)
    oks = [o for o in outs if o["kind"] == "ok"]
    good = False
    det = {}
    # (an early `return Ok(..)` for the empty-bstr shortcut makes two Ok exits: the one that parses is the one judged here)
    if len(oks) > 1:
        oks = [o for o in oks if o["inner"][0] == "aggr" and any(True for _ in calls_in(dict(o["inner"][3]).get("header") or ("const", 0), READ))] or oks
    if len(oks) == 1 and oks[0]["inner"][0] == "aggr":
        fields = dict(oks[0]["inner"][3])
        od = fields.get("original_data")
        hd = fields.get("header")
        det = {"original_data": show(od), "header": show(hd)}
        data = None
        if od and od[0] == "aggr" and od[2] == "Some":
            data = od[3][0][1]
        parsed = [c for c in calls_in(hd, READ)] if hd else []
        if data is not None and parsed:
            # the bytes handed to read_to_value must be (a borrow of) the stored data
            arg = parsed[0][2][0]
            good = any(x == data for x in subterms(arg))
            # and the header decoder must consume the parsed value directly
            hdec = [c for c in calls_in(hd) if c[1] == "header::Header::from_cbor_value_depth"]
            good = good and len(hdec) == 1 and hdec[0][2][0] == ("tryok", parsed[0])
    ctx.ob("R-4", "protected-header-one-item", good,
           "the header inside a protected bstr is read by read_to_value from exactly the stored bytes and converted directly",
           where=ph.span, detail=det, sample=det)


def _check_to_vec(ctx, fn, tagged):
    pv = Prov(fn)
    outs = outcomes(fn, pv)
    oks = [o for o in outs if o["kind"] == "ok"]
    name = "to_tagged_vec" if tagged else "to_vec"
    good = False
    det = {"outcomes": [(o["kind"], show(o["term"])[:200]) for o in outs]}
    if len(oks) == 1:
        buf = oks[0]["inner"]
        det["buffer"] = show(buf)
        from lib.prov import unmutated
        buf, handed_out = unmutated(buf)
        if (is_call(buf, "alloc::vec::Vec::<T>::new") or is_call(buf, "alloc::vec::Vec::<T>::with_capacity")) and len(handed_out) == 1:
            # writes into the buffer: exactly one, by into_writer
            effs = [e for e in pv.effects() if e["kind"] == "call" and e["place"][0] == "local"
                    and fn.local_ty(e["place"][1]).startswith("alloc::vec::Vec<u8>")]
            det["buffer_writers"] = [e["callee"] for e in effs]
            if len(effs) == 1 and effs[0]["callee"].startswith("ciborium::") and "into_writer" in effs[0]["callee"]:
                val = effs[0]["args"][0]
                det["serialised"] = show(val)
                inner = val[1] if val[0] == "ref" else val
                conv = ("tryok", None)
                if not tagged:
                    good = (inner[0] == "tryok" and is_call(inner[1], "common::AsCborValue::to_cbor_value")
                            and inner[1][2] == (("param", 0),))
                else:
                    if inner[0] == "aggr" and inner[1] == "ciborium::value::Value" and inner[2] == "Tag":
                        f = dict(inner[3])
                        tagv, boxed = f.get("0"), f.get("1")
                        good = (tagv == ("constdef", "common::TaggedCborSerializable::TAG")
                                and is_call(boxed, "alloc::boxed::Box::<T>::new")
                                and boxed[2][0][0] == "tryok"
                                and is_call(boxed[2][0][1], "common::AsCborValue::to_cbor_value")
                                and boxed[2][0][1][2] == (("param", 0),))
    others = [o for o in outs if o["kind"] not in ("ok", "propagate")]
    ctx.ob("R-3", name, good and not others,
           "%s(self) returns the fresh buffer written once by into_writer(%s)" % (
               name, "&Value::Tag(Self::TAG, Box::new(self.to_cbor_value()?))" if tagged else "&self.to_cbor_value()?"),
           where=fn.span, detail=det, sample={"serialised": det.get("serialised")})


def _check_from_tagged(ctx, fn):
    pv = Prov(fn)
    outs = outcomes(fn, pv)
    calls = [o for o in outs if o["kind"] == "call"]
    errs = [o for o in outs if o["kind"] == "err"]
    det = {"outcomes": [(o["kind"], show(o["term"])[:200]) for o in outs]}
    good = False
    if len(calls) == 1 and len(errs) == 1:
        t = calls[0]["term"]
        tagpair = ("tryok", None)
        arg = t[2][0] if t[2] else None
        # arg = *((try_as_tag(read_to_value(s)?)?).1)
        ok_arg = False
        if arg and arg[0] == "deref" and arg[1][0] == "field" and arg[1][2] == "1":
            pair = arg[1][1]
            ok_arg = (pair[0] == "tryok" and is_call(pair[1], "<ciborium::value::Value as util::ValueTryAs>::try_as_tag")
                      and pair[1][2][0][0] == "tryok" and is_call(pair[1][2][0][1], READ)
                      and pair[1][2][0][1][2] == (("param", 0),))
            # guard: tag == Self::TAG on the path to the conversion, != on the path to the error
            cond_ok = False
            for c in calls[0]["conds"]:
                nb = normalize_bool_cond(c)
                if nb and nb[0][0] == "binop" and nb[0][1] == "Ne" and nb[1] is False:
                    a, b = nb[0][2], nb[0][3]
                    if a == ("field", pair, "0") and b == ("constdef", "common::TaggedCborSerializable::TAG"):
                        cond_ok = True
                if nb and nb[0][0] == "binop" and nb[0][1] == "Eq" and nb[1] is True:
                    a, b = nb[0][2], nb[0][3]
                    if a == ("field", pair, "0") and b == ("constdef", "common::TaggedCborSerializable::TAG"):
                        cond_ok = True
            if not cond_ok:
                # the comparison sits in an (inlined) extractor whose Err / Ok exits join before the caller's `?`: the conversion
                # must not be reachable from the mismatch edge of `tag != Self::TAG` (failure-following reachability, DESIGN 3.18)
                from lib.guards import edge_condition, reach_tracking_failures
                TAGC = ("constdef", "common::TaggedCborSerializable::TAG")
                for dblk, blk in enumerate(fn.blocks):
                    if blk["cleanup"] or blk["term"]["k"] != "switch":
                        continue
                    for succ in set(fn.cfg.succ[dblk]):
                        nb = normalize_bool_cond(edge_condition(fn, pv, dblk, succ) or (None, None, None)) if edge_condition(fn, pv, dblk, succ) else None
                        if not nb or nb[0][0] != "binop" or nb[0][1] not in ("Ne", "Eq"):
                            continue
                        a, b = nb[0][2], nb[0][3]
                        if not ((a == ("field", pair, "0") and b == TAGC) or (b == ("field", pair, "0") and a == TAGC)):
                            continue
                        mismatch = (nb[0][1] == "Ne") == bool(nb[1])
                        if mismatch:
                            seen = reach_tracking_failures(fn, succ, set())
                            if calls[0]["bb"] not in seen and errs[0]["bb"] in seen | {succ}:
                                cond_ok = True
            e = errs[0]
            err_is = e["inner"][0] == "aggr" and e["inner"][2] == "UnexpectedItem"
            good = ok_arg and cond_ok and err_is and t[1] == "common::AsCborValue::from_cbor_value"
    others = [o for o in outs if o["kind"] not in ("call", "err", "propagate")]
    ctx.ob("R-3", "from_tagged_slice", good and not others,
           "from_tagged_slice(s): read_to_value(s)? -> try_as_tag()? -> tag != Self::TAG => Err, else Self::from_cbor_value(*payload)",
           where=fn.span, detail=det)
REGISTER = True


def thorough(ctx):
    """re-derive the facts about the pinned ciborium that this property leans on (DESIGN section 9)"""
    from rules import audit
    audit.audit(ctx, "R-audit", ['recursion'])
