"""C18 - CWT claims sets and KDF contexts decode and encode per their definitions."""
from lib.prov import Prov, show, is_call, subterms
from lib.guards import outcomes, path_variants, conditions
from lib.veclen import VecLen, VEC_PUSH, VEC_REVERSE
from lib.mapcodec import MapDecoder, MapEncoder
from lib import codec
from rules.c08 import check_dispatch, full_of
from rules.c09 import check_struct
from rules.c11 import check_array_encoder, check_map_encoder, enc_key, codec_loop_source
from rules.c12 import check_decoder as check_dup
from rules.c19 import norm_effects
from spec.rfc8152 import KDF_STRUCTS
from spec.rfc8392 import CLAIMS, CLAIMS_EMIT, CLAIMS_EXTRAS, CLAIM_KEY_TYPE

REGISTER = True
META = {
    "level": "proof",
    "decides": "claims set: R-1 the input must be a map; keys are normalised by the registry-with-private CWT claim label type; the "
               "dispatch has exactly the cases 1..7 writing issuer/subject/audience (text), expiration/not-before/issued-at (Timestamp) "
               "and CWT id (bstr) from this entry's value, all other claims pushed unmodified in order; reject sites are exactly those "
               "rules plus duplicates; the encoder emits exactly the populated fields in key order then the rest in list order; "
               "Timestamp: Integer -> checked i64 -> WholeSeconds, Float -> FractionalSeconds, anything else an error, encoder inverse. "
               "KDF context: R-kdf PartyInfo (arity 3; identity/other bstr-or-nil; nonce bstr / checked i64 / nil), SuppPubInfo "
               "(arity 2 or 3; checked u64; protected via from_cbor_bstr; optional bstr <-> pushed iff Some), CoseKdfContext (arity >= 4; "
               "slots 0-3 algorithm / PartyU / PartyV / SuppPub; every further slot a byte string, order preserved by the reverse tail "
               "drain followed by reverse()); encoders emit the same tables.",
    "does_not_decide": "int/float duality over the whole numeric range (ciborium decides which Value variant a number becomes); "
                       "the claims encoder's missing duplicate check is C12's known finding",
    "trusted_base": ["RFC 8392 section 3/4, RFC 8152 section 11.2 as transcribed in spec/", "std Vec::reverse, Vec::remove, Rev<Range>",
                     "ciborium data model"],
}
META["decides"] += " (As built: the KDF context's trailing byte strings and its encoder are decided as sequence values; shares C08's frame rule.)"
META["decides"] += ' Also: duplicate rule, read_to_value, no decoding error swallowed, every entry dispatched, int<u64> narrowed from the CBOR integer itself, extras encoder skips nothing.'

CLAIMS_DEC = "<cwt::ClaimsSet as common::AsCborValue>::from_cbor_value"
CENSUS = {
    ("pre", "not-a-map"),
    ("all", "propagate:<common::RegisteredLabelWithPrivate<T> as common::AsCborValue>::from_cbor_value"),
    ("all", "err:DuplicateMapKey"),
    ("1", "propagate:" + codec.TRY_STRING), ("2", "propagate:" + codec.TRY_STRING), ("3", "propagate:" + codec.TRY_STRING),
    ("4", "propagate:<cwt::Timestamp as common::AsCborValue>::from_cbor_value"),
    ("5", "propagate:<cwt::Timestamp as common::AsCborValue>::from_cbor_value"),
    ("6", "propagate:<cwt::Timestamp as common::AsCborValue>::from_cbor_value"),
    ("7", "propagate:" + codec.TRY_BYTES),
}


def check(ctx):
    prog = ctx.prog
    _claims(ctx)
    _timestamp(ctx)

    # label classification the accepted set depends on (shared recognisers of C17 R-3/R-4)
    from rules import c17
    for _enum in ['iana::CwtClaimName', 'iana::Algorithm']:
        c17.check_private_predicate(ctx, "R-1", _enum)
    c17._classify(ctx, "<common::RegisteredLabelWithPrivate<T> as common::AsCborValue>::from_cbor_value", private=True)
    c17._classify(ctx, "<common::RegisteredLabel<T> as common::AsCborValue>::from_cbor_value", private=False)

    for ty in ("context::PartyInfo", "context::SuppPubInfo"):
        check_struct(ctx, ty, KDF_STRUCTS[ty], rules=("R-kdf", "R-kdf", "R-kdf", "R-kdf"))
        check_array_encoder(ctx, ty, KDF_STRUCTS[ty], rules=("R-kdf-enc", "R-kdf-enc", "R-kdf-enc"))
    _kdf_context(ctx)


def _claims(ctx):
    prog = ctx.prog
    fn = prog.fn(CLAIMS_DEC)
    md = MapDecoder(prog, fn)
    if md.problem:
        ctx.cannot("R-1", "decoder-shape", "%s: %s" % (CLAIMS_DEC, md.problem), where=fn.span)
        return
    V = ("sym", "value")
    ctx.ob("R-1", "claim-key-type", md.label_decoder == "<%s as common::AsCborValue>::from_cbor_value" % CLAIM_KEY_TYPE,
           "claim keys are normalised by %s (registered, private-use or text)" % CLAIM_KEY_TYPE, where=fn.span, detail={"found": md.label_decoder})
    by_label = check_dispatch(ctx, md, CLAIMS, "cwt::ClaimsSet")
    from rules import extractors as _ex
    _ex.check_extractors(ctx.under("R-1", "extractors"), "R-1")
    from rules import c17 as _c17
    _c17.check_tables(ctx.under("R-4", "registry"), only={"iana::CwtClaimName"})
    # accepted "iff ..." is stated for CBOR items reaching the decoder through the byte-level API as well: the one parser entry
    # hands back exactly the parsed item (C13 R-1's recogniser; a read_to_value that unwraps a tag changes the accepted set)
    from rules import c13 as _c13
    _c13.check_read_to_value(ctx.under("R-1", "parser-entry"), "R-1")
    from rules import structs_common as _S
    _S.check_derived_impls(ctx, "R-1", {"core::default::Default"}, only_structs=True)
    _S.check_derived_impls(ctx, "R-1", {"core::cmp::PartialEq", "core::cmp::Eq"})
    for k, (field, kind) in sorted(CLAIMS.items()):
        effs = by_label.get(str(k), [])
        ok = False
        det = {"effects": [show(md.sym(e.get("value") or e["args"][1]))[:140] for _, e in effs]}
        if len(effs) == 1 and effs[0][0] == field and effs[0][1]["kind"] == "assign":
            v = md.sym(effs[0][1]["value"])
            if v[0] == "aggr" and v[2] == "Some":
                inner = v[3][0][1]
                if inner[0] == "tryok" and is_call(inner[1]) and inner[1][2] == (V,):
                    c = inner[1]
                    got = {codec.TRY_STRING: "tstr", codec.TRY_BYTES: "bstr"}.get(c[1])
                    if got is None and c[1].endswith("::from_cbor_value"):
                        got = "nested<%s>" % codec.type_of_decoder(full_of(fn, c))
                    det["kind"] = got
                    ok = got == kind
        ctx.ob("R-1", "claim-%d:%s" % (k, field), ok, "claim %d -> `%s` = Some(<%s of this entry's value>)" % (k, field, kind), where=fn.span,
               detail=det, sample={"claim": k, "field": field, "kind": kind})
    effs = by_label.get("default", [])
    ok = (len(effs) == 1 and effs[0][0] == "rest" and effs[0][1]["kind"] == "call" and effs[0][1]["callee"] == VEC_PUSH
          and md.sym(effs[0][1]["args"][1]) == ("tuple", (("sym", "label"), V)))
    ctx.ob("R-1", "default:rest", ok, "all other claims are pushed unmodified to `rest` in wire order", where=fn.span)
    other = sorted(set(by_label) - {str(k) for k in CLAIMS} - {"default"})
    ctx.ob("R-1", "no-mixed-writes", not other, "no write happens under a mixture of claim keys", detail={"classes": other})
    found = {(c, k) for c, k, _ in md.reject_sites()}
    ctx.ob("R-1", "census", found == CENSUS, "claims set reject sites are exactly: not a map, bad/duplicate key, one type rule per typed claim; "
           "extra=%s missing=%s" % (sorted(found - CENSUS), sorted(CENSUS - found)), where=fn.span, detail={"found": sorted(found)})
    written = sorted({f for f, e in md.field_effects() if e["bb"] in md.loop[1]})
    allf = sorted(prog.struct_fields("cwt::ClaimsSet") or [])
    ctx.ob("R-1", "coverage", written == allf, "the decoder can write all fields of ClaimsSet", detail={"written": written, "struct": allf})
    check_dup(ctx, CLAIMS_DEC, rule="R-1")
    check_map_encoder(ctx, "cwt::ClaimsSet", CLAIMS_EMIT, CLAIMS_EXTRAS, rules=("R-enc", "R-enc", "R-enc", "R-enc"))


def _timestamp(ctx):
    prog = ctx.prog
    d = prog.fn("<cwt::Timestamp as common::AsCborValue>::from_cbor_value")
    pd = Prov(d)
    got = {}
    others = []
    n_ok = 0
    for o in outcomes(d, pd):
        pvs = path_variants(prog, pd, o["conds"])
        src = pvs.get(("param", 0))
        if o["kind"] == "ok" and src and len(src) == 1:
            n_ok += 1
            got[next(iter(src))] = o["inner"]
        elif o["kind"] == "ok":
            n_ok += 1
            others.append(("ok-without-variant", show(o["inner"])[:60]))
        elif o["kind"] == "call" and is_call(o["term"], "util::cbor_type_error"):
            others.append(("type-error", sorted(src) if src else None))
        elif o["kind"] == "propagate":
            others.append(("propagate", show(o["inner"])[:60]))
        else:
            others.append((o["kind"], show(o["term"])[:60]))
    w = got.get("Integer")
    fl = got.get("Float")
    ok = (set(got) == {"Integer", "Float"}
          and w is not None and w[0] == "aggr" and w[2] == "WholeSeconds" and w[3][0][1][0] == "tryok" and is_call(w[3][0][1][1], codec.TRY_INTO)
          and w[3][0][1][1][2][0] == ("field", ("variant", ("param", 0), "Integer"), "0")
          and fl == ("aggr", "cwt::Timestamp", "FractionalSeconds", (("0", ("field", ("variant", ("param", 0), "Float"), "0")),)))
    tgt = None
    if w is not None and ok:
        tgt = d.blocks[w[3][0][1][1][3][1]]["term"]["callee"]["args"][1]
    te = [o for o in others if o[0] == "type-error"]
    ok = ok and n_ok == 2 and tgt == "i64" and len(te) == 1 and te[0][1] is not None and not ({"Integer", "Float"} & set(te[0][1]))
    ctx.ob("R-1", "timestamp-decode", ok, "Timestamp: Integer -> checked i64 -> WholeSeconds; Float -> FractionalSeconds; every other kind is a type error",
           where=d.span, detail={"arms": {k: show(v)[:80] for k, v in got.items()}, "others": others})
    timestamp_encode(ctx, "R-enc")


def timestamp_encode(ctx, rule):
    prog = ctx.prog
    e = prog.fn("<cwt::Timestamp as common::AsCborValue>::to_cbor_value")
    pe = Prov(e)
    oks = [o for o in outcomes(e, pe) if o["kind"] == "ok"]
    enc = {}
    n_arms = 0
    if oks:
        for term, dbb in codec.ok_payload_arms(e, pe):
            sv = path_variants(prog, pe, conditions(e, pe, dbb)).get(("param", 0))
            n_arms += 1
            if sv and len(sv) == 1:
                enc[next(iter(sv))] = term
    a = enc.get("WholeSeconds")
    b = enc.get("FractionalSeconds")
    # `Value::Integer(t.into())` / `Value::from(t)` and `Value::Float(f)` / `Value::from(f)`: the wire variant each arm builds and
    # that it carries the variant's own payload through lossless conversions only (C07 R-5's recognisers)
    from rules import c07 as _c07
    ok = (a is not None and b is not None
          and _c07._variant_of_value_term(a, prog) == "Integer" and _c07._own_payload(a, "WholeSeconds")
          and _c07._variant_of_value_term(b, prog) == "Float" and _c07._own_payload(b, "FractionalSeconds"))
    ctx.ob(rule, "timestamp-encode", ok and len(enc) == 2 and n_arms == 2, "Timestamp encodes WholeSeconds as an integer of the same value and FractionalSeconds as a float",
           where=e.span, detail={k: show(v)[:80] for k, v in enc.items()})



def _kdf_context(ctx):
    prog = ctx.prog
    ty = "context::CoseKdfContext"
    d = prog.fn("<%s as common::AsCborValue>::from_cbor_value" % ty)
    pd = Prov(d)
    vl = VecLen(d)
    agg = codec.OkAggregate(d, pd)
    if agg.problem:
        ctx.cannot("R-kdf", "shape:%s" % ty, agg.problem, where=d.span)
        return
    # field names behind the public builder methods
    bfields = {}
    for m in ("algorithm", "party_u_info", "party_v_info", "supp_pub_info", "add_supp_priv_info"):
        f = prog.fn("context::CoseKdfContextBuilder::%s" % m)
        effs = norm_effects(Prov(f))
        if len(effs) == 1:
            place = effs[0][1] if effs[0][0] == "assign" else effs[0][2]
            if place[0] == "field":
                bfields[m] = place[2]
    want = [("algorithm", 0, "nested<common::RegisteredLabelWithPrivate<iana::Algorithm>>"), ("party_u_info", 1, "nested<context::PartyInfo>"),
            ("party_v_info", 2, "nested<context::PartyInfo>"), ("supp_pub_info", 3, "nested<context::SuppPubInfo>")]
    got = codec.accepted_arities(d)
    ctx.ob("R-kdf", "arity:%s" % ty, got == set(range(4, 10)) | {40}, "COSE_KDF_Context accepts arrays of at least 4 items (found %s)" % sorted(got), where=d.span)
    for m, slot, kind in want:
        fld = bfields.get(m)
        dd = codec.slot_kind(prog, d, pd, vl, agg, fld) if fld in agg.fields else None
        ctx.ob("R-kdf", "slot:%s.%s" % (ty, m), bool(dd) and dd["slot"] == slot and dd["kind"] == kind,
               "the value set by CoseKdfContextBuilder::%s is decoded from slot %d as %s" % (m, slot, kind), where=d.span,
               detail={"field": fld, "found": dd})
    # the variable tail, as a sequence value: map(try_as_bytes?, <the input array>[4..]) - wire order, nothing dropped
    from lib.seq import Seq, show_seq, X, strip_seq
    from lib.prov import strip_sites
    tail_f = bfields.get("add_supp_priv_info")
    ok = False
    det = {}
    if tail_f in agg.fields:
        op, bb, idx = agg.fields[tail_f]
        s = Seq(d, pd, vl).of_operand(op, bb, idx)
        arr = ("tryok", ("call", codec.TRY_ARRAY, (("param", 0),)))
        want_s = ("map", ("tryok", ("call", codec.TRY_BYTES, (X,))), ("elems", arr, 4, None))
        det = {"sequence": show_seq(s)[:300], "expected": show_seq(want_s)}
        ok = strip_seq(s) == want_s
    ctx.ob("R-kdf", "tail:%s" % ty, ok,
           "every slot from index 4 on must be a byte string; the field holds them converted one by one in wire order",
           where=d.span, detail=det, sample=det)
    kdf_encoder(ctx, "R-kdf-enc")
    cen = {}
    from lib.census import census
    for k, v in census(d, pd, vl).items():
        cen[k] = len(v)
    wantc = {"propagate:" + codec.TRY_ARRAY, "err:UnexpectedItem@len", "propagate:" + codec.TRY_BYTES,
             "propagate:<context::SuppPubInfo as common::AsCborValue>::from_cbor_value", "propagate:<context::PartyInfo as common::AsCborValue>::from_cbor_value",
             "propagate:<common::RegisteredLabelWithPrivate<T> as common::AsCborValue>::from_cbor_value"}
    ctx.ob("R-kdf", "census:%s" % ty, set(cen) == wantc, "COSE_KDF_Context rejects only: not an array, fewer than 4 items, a bad slot 0-3, a non-bstr trailing slot",
           where=d.span, detail={"found": cen})


def _kdf_builder_fields(prog):
    bfields = {}
    for m in ("algorithm", "party_u_info", "party_v_info", "supp_pub_info", "add_supp_priv_info"):
        f = prog.fn("context::CoseKdfContextBuilder::%s" % m)
        effs = norm_effects(Prov(f))
        if len(effs) == 1:
            place = effs[0][1] if effs[0][0] == "assign" else effs[0][2]
            if place[0] == "field":
                bfields[m] = place[2]
    return bfields


KDF_WANT = [("algorithm", 0, "nested<common::RegisteredLabelWithPrivate<iana::Algorithm>>"), ("party_u_info", 1, "nested<context::PartyInfo>"),
            ("party_v_info", 2, "nested<context::PartyInfo>"), ("supp_pub_info", 3, "nested<context::SuppPubInfo>")]


def kdf_encoder(ctx, rule):
    """the encoder's array as a sequence value: [algorithm, PartyU, PartyV, SuppPub] ++ map(Value::Bytes, self.<tail>)"""
    from lib.seq import Seq, show_seq, X, strip_seq
    prog = ctx.prog
    ty = "context::CoseKdfContext"
    bfields = _kdf_builder_fields(prog)
    want = KDF_WANT
    tail_f = bfields.get("add_supp_priv_info")
    e = prog.fn(enc_key(ty))
    pe = Prov(e)
    rc = codec.returned_collection(e, pe, "Array")
    problems = []
    s = Seq(e, pe).of_local(*rc) if rc else None
    if s is None:
        problems.append("the encoder does not return Ok(Value::Array(<vector built here>))")
    else:
        parts = list(s[1]) if s[0] == "cat" else [s]
        fixed = parts[0][1] if parts and parts[0][0] == "lit" else ()
        rest = parts[1:] if parts and parts[0][0] == "lit" else parts
        if len(fixed) != 4:
            problems.append("%d fixed slots, expected 4 (%s)" % (len(fixed), show_seq(s)[:120]))
        for (m, slot, kind), term in zip(want, fixed):
            k2, f2 = codec.emit_kind(prog, e, pe, {"term": term, "op": {"k": "const", "ty": "?", "val": None}, "at": (0, "term")})
            if k2 != kind or f2 != bfields.get(m):
                problems.append("slot %d is `%s` as %s, expected `%s` as %s" % (slot, f2, k2, bfields.get(m), kind))
        want_tail = ("map", ("aggr", "ciborium::value::Value", "Bytes", (("0", X),)), ("elems", ("field", ("param", 0), tail_f), 0, None))
        if [strip_seq(x) for x in rest] != [want_tail]:
            problems.append("the tail is not Value::Bytes(x) for each x of self.%s in list order: %s" % (tail_f, " ++ ".join(show_seq(x) for x in rest)[:160]))
    ctx.ob(rule, "encoder:%s" % ty, not problems, "COSE_KDF_Context is emitted as [algorithm, PartyU, PartyV, SuppPub, private byte strings in order...]",
           where=e.span, detail={"problems": problems, "sequence": show_seq(s)[:300] if s else None})


def _borrows_local(pv, op, bb, l):
    """does the (re)borrow chain of a reference operand end at local l (possibly through deref_mut)"""
    t = pv.operand_term(op, bb, "term")
    lv = pv._borrowed_lvalue(op, bb)
    if lv == ("local", l, pv.fn.local_name(l)):
        return True
    # &mut *deref_mut(&mut v)
    for di in pv.reaching(op["place"]["l"], bb, "term") if op["k"] in ("copy", "move") and not op["place"]["p"] else []:
        if di < 0:
            continue
        dl, dbb, didx, payload = pv._defs[di]
        if didx == "term" and callee_path_(payload) in ("core::ops::deref::DerefMut::deref_mut", "core::ops::deref::Deref::deref"):
            return _borrows_local(pv, payload["args"][0], dbb, l)
        if didx != "term" and payload["k"] == "ref" and payload["place"]["p"] and payload["place"]["p"][0][0] == "deref":
            return _borrows_local(pv, {"k": "copy", "place": {"l": payload["place"]["l"], "p": []}}, dbb, l)
    return False


def callee_path_(t):
    from lib.facts import callee_path
    return callee_path(t)
