"""C20 - canonicalising a key sorts its encoding and changes nothing else."""
from lib.prov import Prov, show, is_call, subterms
from lib.guards import conditions, path_variants
from lib.mapcodec import MapDecoder, MapEncoder
from lib.absint import walk
from rules.c16 import enc, cmp
from rules.c19 import Summaries

REGISTER = True
META = {
    "level": "other",
    "explanation": "Frame / permutation / emission-order rules over canonicalize and the key encoder, plus a label-class argument for the "
                   "typed-fields-first shortcut. Level 'other' because one obligation is a recorded known finding (label 0).",
    "decides": "R-1 canonicalize mutates only `params`, only through sort_by (a permutation), with comparator Label::cmp for Lexicographic "
               "and Label::cmp_canonical for LengthFirstLexicographic, applied to (left.0, right.0) unswapped; R-2 the key encoder emits "
               "the typed labels in strictly ascending order 1<2<3<4<5 and then `params` in list order; R-3 sorting only `params` is "
               "sufficient iff no label that can sit in `params` orders before a typed label: every integer label routed to `params` by "
               "the decoder or accepted by the builder's param() must encode above 0x05 in both orders.",
    "does_not_decide": "that slice::sort_by sorts (std); idempotence and 'decodes to the same key' follow from R-1 + permutation + C07; "
                       "keys assembled by struct literal can hold anything in `params`",
    "trusted_base": ["std slice::sort_by is a stable sort by the comparator", "C16 (the two comparators are the two CBOR orders)", "C10, C19 (what can reach `params`)"],
}
META["decides"] += ' (As built: one sort per ordering or one sort through a comparator value chosen by the ordering.)'
META["decides"] += ' R-3 also: the key decoder appends extras in wire order and nothing re-orders `params` afterwards.'

CANON = "key::CoseKey::canonicalize"
SORT_BY = "alloc::slice::<impl [T]>::sort_by"
SORT_BY_KEY = ("alloc::slice::<impl [T]>::sort_by_key", "alloc::slice::<impl [T]>::sort_by_cached_key")


def _key_order_ok(prog, key_term, variant):
    """the key a label is sorted by orders labels as `variant` demands: cmp(key(a), key(b)) evaluated with C16's evaluator on its
    boundary lattice (all pairs) against bytewise (Lexicographic) / length-first (LengthFirstLexicographic) order of the encodings"""
    import itertools
    from rules import c16

    def subst(t, who):
        if not isinstance(t, tuple) or not t:
            return t
        if t == ("field", ("deref", ("param", 1)), "0") or t == ("field", ("param", 1), "0"):
            return ("deref", ("param", who))
        if t[0] == "call":
            return ("call", t[1], tuple(subst(a, who) for a in t[2])) + tuple(t[3:])
        if t[0] in ("ref",):
            return (t[0], subst(t[1], who), t[2])
        if t[0] in ("deref", "tryok"):
            return (t[0], subst(t[1], who))
        if t[0] in ("field", "variant"):
            return (t[0], subst(t[1], who), t[2])
        if t[0] == "tuple":
            return ("tuple", tuple(subst(x, who) for x in t[1]))
        if t[0] == "cast":
            return (t[0], t[1], subst(t[2], who)) + tuple(t[3:])
        return t
    comps = list(key_term[1]) if key_term[0] == "tuple" else [key_term]
    labels = c16.INTS + c16.TEXTS
    try:
        for a, b in itertools.product(labels, labels):
            got = "Equal"
            for k in comps:
                x, y = c16.leaf(subst(k, 0), a, b), c16.leaf(subst(k, 1), a, b)
                if x != y:
                    got = c16.ordname(c16.cmp(x, y))
                    break
            ea, eb = c16.enc(a), c16.enc(b)
            want = c16.ordname(c16.cmp((len(ea), ea), (len(eb), eb)) if variant == "LengthFirstLexicographic" else c16.cmp(ea, eb))
            if got != want:
                return False
    except Exception:
        return False
    return True


def _chosen_functions(prog, f, pv, sort_effect, func_term):
    """{ordering variant: function path} for a comparator captured by the sort closure as a function-pointer local"""
    from lib import codec
    out = {}
    t = f.blocks[sort_effect["bb"]]["term"]
    d = codec.find_def_stmt(pv, t["args"][1], sort_effect["bb"], "term")
    if not d or d[0] != "stmt" or d[1]["k"] != "aggr" or d[1].get("kind") != "closure":
        return out
    # which capture does the closure call?  (`(*_1.i)(..)` / `(_1.i)(..)`)
    x = func_term
    while x[0] in ("deref", "ref"):
        x = x[1]
    if not (x[0] == "field" and str(x[2]).isdigit()):
        return out
    cap = d[1]["ops"][int(x[2])]
    r = codec.chase_ref_to_local(pv, cap, d[2], d[3]) or ((cap["place"]["l"], d[2], d[3]) if cap["k"] in ("copy", "move") and not cap["place"]["p"] else None)
    if r is None:
        return out
    l, rbb, ridx = r
    for term, dbb in codec.arms(pv, {"k": "copy", "place": {"l": l, "p": []}}, rbb, ridx):
        while term[0] == "cast":
            term = term[2]
        names = path_variants(prog, pv, conditions(f, pv, dbb)).get(("param", 1))
        if term[0] == "fn" and names and len(names) == 1:
            out[next(iter(names))] = term[2]
    return out


def check(ctx):
    prog = ctx.prog
    f = prog.fn(CANON)
    pv = Prov(f)
    params_place = ("field", ("deref", ("param", 0)), "params")
    sorts = []
    others = []
    key_sorts = []
    for e in pv.effects():
        if e["kind"] == "call" and e["callee"] == SORT_BY:
            sorts.append(e)
        elif e["kind"] == "call" and e["callee"] in SORT_BY_KEY and _sorted_place(e["place"]) == params_place:
            key_sorts.append(e)
        elif e["kind"] == "call" and e["callee"] in ("core::ops::deref::DerefMut::deref_mut",) and e["place"] == params_place:
            continue
        else:
            others.append(e)
    ctx.ob("R-1", "frame", not others and len(sorts) + len(key_sorts) in (1, 2) and all(_sorted_place(s["place"]) == params_place for s in sorts),
           "canonicalize touches nothing but `params`, and only by sort_by (a permutation of the list)", where=f.span,
           detail={"other_effects": [show(e["place"])[:60] for e in others], "sorts": [show(s["place"])[:80] for s in sorts]},
           sample={"sorted": [show(s["place"])[:80] for s in sorts]})
    want = {"Lexicographic": "<common::Label as core::cmp::Ord>::cmp", "LengthFirstLexicographic": "common::Label::cmp_canonical"}
    got = {}
    for s in sorts:
        pvs = path_variants(prog, pv, conditions(f, pv, s["bb"]))
        names = pvs.get(("param", 1))
        clo = s["args"][1]
        if not (clo[0] == "closure" and clo[1] in prog.fns):
            continue
        rt = Prov(prog.fns[clo[1]]).return_term()
        if is_call(rt) and rt[1] != "<indirect>" and len(rt[2]) == 2:
            # one sort per ordering, each with its own comparator
            if names and len(names) == 1:
                got[next(iter(names))] = (rt[1], _side(rt[2][0]), _side(rt[2][1]))
        elif is_call(rt, "<indirect>") and len(rt[2]) == 3:
            # one sort through a comparator VALUE chosen by the ordering (`let cmp: fn(..) = match ordering { .. }`)
            sides = (_side(rt[2][1]), _side(rt[2][2]))
            for variant, fn_path in _chosen_functions(prog, f, pv, s, rt[2][0]).items():
                got[variant] = (fn_path, sides[0], sides[1])
    # a sort by KEY (`sort_by_key` / `sort_by_cached_key`, stable like sort_by): the order of the keys of two labels, evaluated
    # on the label lattice of C16 against the order its ordering must be (the comparator it replaces is then not needed)
    key_ok = {}
    for s in key_sorts:
        names = path_variants(prog, pv, conditions(f, pv, s["bb"])).get(("param", 1))
        clo = s["args"][1]
        if not (names and len(names) == 1 and clo[0] == "closure" and clo[1] in prog.fns):
            continue
        variant = next(iter(names))
        key_ok[variant] = _key_order_ok(prog, Prov(prog.fns[clo[1]]).return_term(), variant)
        if key_ok[variant]:
            got[variant] = (want.get(variant), 1, 2)
    ok = set(got) == set(want) and all(got[k] == (want[k], 1, 2) for k in want)
    ctx.ob("R-1", "comparators", ok,
           "Lexicographic sorts by Label::cmp(l.0, r.0) and LengthFirstLexicographic by Label::cmp_canonical(l.0, r.0), operands not swapped",
           where=f.span, detail={"found": {k: v for k, v in got.items()}}, sample={"comparators": {k: v for k, v in got.items()}})

    # the two comparators must be the two CBOR orders (C16 R-1 / R-4 re-checked here: sortedness depends on them)
    from rules import c16

    class _Sub:
        def __init__(self, ctx):
            self.ctx = ctx
            self.prog = ctx.prog
            self.tier = ctx.tier

        def ob(self, rule, key, ok, what, **kw):
            if rule in ("R-1", "R-4"):
                return self.ctx.ob("R-1", "comparator:" + key, ok, what, **kw)
            return True

        def cannot(self, rule, key, what, **kw):
            return self.ctx.cannot("R-1", "comparator:" + key, what, **kw)

        def count(self, *a):
            pass

        def floor(self, *a):
            return True

        def note(self, *a):
            pass
    c16.check(_Sub(ctx))

    # R-2 emission order
    e = prog.fn("<key::CoseKey as common::AsCborValue>::to_cbor_value")
    me = MapEncoder(prog, e)
    if me.problem:
        ctx.cannot("R-2", "emission-order", me.problem, where=e.span)
        typed_labels = []
    else:
        order = {b: i for i, b in enumerate(e.cfg.rpo)}
        typed = [x for x in me.entries if x.get("loop") is None]
        loops = [x for x in me.entries if x.get("loop") is not None]
        typed_labels = [x["label"][1] if x.get("label") and x["label"][0] == "int" else None for x in typed]
        asc = all(a is not None and b is not None and cmp(enc(a), enc(b)) < 0 for a, b in zip(typed_labels, typed_labels[1:]))
        after = bool(loops) and all(order[t["bb"]] < order[loops[0]["bb"]] for t in typed)
        ctx.ob("R-2", "emission-order", asc and after and None not in typed_labels,
               "the key encoder emits typed labels %s in strictly ascending encoded order, then `params` in list order" % typed_labels,
               where=e.span, sample={"typed_labels": typed_labels})

    # R-3 what can sit in params
    top = max([x for x in typed_labels if x is not None], default=5)

    def below_typed(k):
        """does integer label k order before (or among) the typed labels in either order"""
        ek, et = enc(k), enc(top)
        lex = cmp(ek, et) <= 0
        lf = (len(ek), ek) <= (len(et), et)
        return lex or lf
    candidates = [k for k in list(range(-30, 40)) + [255, 256, -256, -257, 65535, 65536, -65536, -65537, 2 ** 32, 2 ** 63 - 1, -2 ** 63]
                  if below_typed(k)]
    d = prog.fn("<key::CoseKey as common::AsCborValue>::from_cbor_value")
    md = MapDecoder(prog, d)
    if md.problem:
        ctx.cannot("R-3", "decoder-shape", md.problem, where=d.span)
    else:
        routed = sorted(k for k in candidates if k not in md.listed)
        for k in routed:
            ctx.ob("R-3", "key::CoseKey:label-%d-admitted-to-params" % k, False,
                   "the decoder routes integer label %d to `params`, but its encoding (0x%s) orders before the typed label %d, so sorting only "
                   "`params` leaves the map unsorted" % (k, enc(k).hex(), top), where=d.span)
        # "a canonicalised key decodes and re-encodes to the same bytes": the decoder appends the extras in wire order and
        # nothing re-orders them afterwards (the recognisers of C10 R-1 under this property's name)
        from lib import codec as _codec
        dflt = []
        for cls, effs in md.table.items():
            if md.class_name(cls) == "default":
                dflt.extend(effs)
        appended = (len(dflt) == 1 and dflt[0][0] == "params" and dflt[0][1]["kind"] == "call" and dflt[0][1]["callee"] == _codec.VEC_PUSH
                    and md.sym(dflt[0][1]["args"][1]) == ("tuple", (("sym", "label"), ("sym", "value"))))
        stray = [(f, (e.get("callee") or "assignment").split("::")[-1]) for f, e in md.outside_effects if f == "params"]
        ctx.ob("R-3", "decoder-keeps-wire-order", appended and not stray,
               "the decoder appends every extra (label, value) to `params` in wire order (push, no ordered insert) and nothing touches "
               "`params` outside the entry loop, so a canonicalised key decodes to the same order", where=d.span,
               detail={"default_arm": [(f, e.get("callee")) for f, e in dflt], "outside": stray})
        ctx.ob("R-3", "typed-labels-never-in-params(decoder)", all(k in md.listed for k in candidates if k >= 1),
               "labels 1..%d are dispatched to typed fields and never reach `params` on decode" % top, where=d.span,
               detail={"candidates_below_typed": candidates, "dispatched": sorted(md.listed)})
    b = prog.fn("key::CoseKeyBuilder::param")
    pb = Prov(b)
    panics = [bb for bb, t in b.calls() if (t.get("callee") or {}).get("never")]
    pushes = [x["bb"] for x in pb.effects() if x["kind"] == "call"]
    leak = []
    for k in candidates:
        reached, _ = walk(b, 0, params={2: k}, sinks=set(panics) | set(pushes), call_values=Summaries(prog))
        if reached & set(pushes):
            leak.append(k)
    ctx.ob("R-3", "builder-refuses-low-labels", not leak,
           "CoseKeyBuilder::param refuses every label that would order before a typed label (%s)" % candidates, where=b.span,
           detail={"accepted": leak})
    ctx.ob("R-3", "texts-and-negatives-sort-after", cmp(enc(-1), enc(top)) > 0 and cmp(enc(""), enc(top)) > 0
           and (len(enc(-1)), enc(-1)) > (len(enc(top)), enc(top)) and (len(enc("")), enc("")) > (len(enc(top)), enc(top)),
           "every negative integer and every text label encodes above the typed labels in both orders (major types 1 and 3)")


def _sorted_place(t):
    """&mut *deref_mut(&mut X) -> X"""
    while t[0] in ("deref", "ref"):
        t = t[1]
    if is_call(t, "core::ops::deref::DerefMut::deref_mut"):
        a = t[2][0]
        while a[0] in ("ref",):
            a = a[1]
        return a
    return t


def _side(t):
    """&(*argN).0 -> N"""
    while t[0] in ("ref",):
        t = t[1]
    if t[0] == "field" and t[2] == "0" and t[1][0] == "deref" and t[1][1][0] == "param":
        return t[1][1][1]
    return None
