"""C19 - builders apply exactly the documented effect of each call, in any order."""
from lib.prov import Prov, show, is_call, subterms, strip_sites, resolve_consts
from lib.guards import outcomes
from lib.facts import callee_path
from lib.absint import walk
from lib.evalterm import break_points
from lib import codec
from spec import builders as B
from spec.rfc8152 import HELPERS

REGISTER = True
META = {
    "level": "proof",
    "decides": "for every method of every builder (effect summaries over all paths): R-1 a generated setter writes exactly the field of "
               "its own name with its argument (wrapped in Some for optional fields; a protected-header setter stores "
               "ProtectedHeader{original_data: None, header: arg}) and returns self; R-2 each hand-written method has exactly the "
               "documented effect (algorithm, add_*, content_*, iv/partial_iv mutual clearing, key constructors with their exact kty "
               "and parameter list, new/build); R-3 frame condition: nothing else is assigned, pushed to, cleared or replaced; "
               "R-4 the refusal guards: value() panics iff 1<=label<=7, param() iff the label is a common key parameter, claim() iff "
               "Iss..Cti, private_claim() iff the id is not private - truth tables over the break points, every other input reaches "
               "the push; R-5 no hidden state, so the effect of a call sequence is the composition of the per-call effects.",
    "does_not_decide": "nothing further inside the builders (straight-line code); the create_*/add_created_* helpers are C06",
    "trusted_base": ["std Vec::push/clear, BTreeSet::insert", "C17 (from_i64 / to_i64 / is_private summaries used in the guard tables)"],
}
META["decides"] += ' (As built: decided on every PUBLIC method with all crate-local callees expanded in place; key constructors by the net value of the returned key; a public method outside the documented-effects table that is not a generated setter is noted, not judged.)'
META["decides"] += ' R-3 also re-checks the is_private summary the guard tables use; R-2 also: derived Default / Clone.'

SELF0 = ("field", ("param", 0), "0")


def builders(prog):
    out = {}
    for f in prog.real_fns():
        if f.kind == "AssocFn" and f.impl_trait is None and f.impl_self_adt and f.impl_self_adt.endswith("Builder") and not f.closure_of:
            out.setdefault(f.impl_self_adt, []).append(f)
    return out


def conditional_effects(f, pv):
    """effects that do not happen on every path through the method (ignoring `?` edges): [(effect string, condition)]"""
    from lib.guards import conditions
    out = []
    for e in pv.effects():
        cs = [c for c in conditions(f, pv, e["bb"]) if not (c[0][0] == "discr" and is_call(c[0][1], "core::ops::try_trait::Try::branch"))]
        if cs:
            out.append((show(e["place"])[:40], show(cs[-1][0])[:80]))
    return out


def norm_effects(pv):
    out = []
    for e in pv.effects():
        if e["kind"] == "assign":
            out.append(("assign", strip_sites(e["place"]), strip_sites(e["value"])))
        else:
            out.append(("call", e["callee"], strip_sites(e["place"])) + tuple(strip_sites(a) for a in e["args"][1:]))
    return out


def wrapped_type(prog, builder):
    a = prog.adts.get(builder)
    if not a:
        return None, None
    ty = a["variants"][0]["fields"][0]["ty"]
    return ty, prog.adts.get(ty)


class Summaries:
    """call summaries justified by C17 (EnumI64 / WithPrivateRange) and std Option"""

    def __init__(self, prog):
        self.prog = prog

    def get(self, name):
        prog = self.prog
        if name is None:
            return None
        if name.endswith(" as iana::EnumI64>::to_i64"):
            def f(v):
                if isinstance(v, tuple) and v[0] == "enum":
                    return (prog.enum_discrs(v[1]) or {}).get(v[2])
                raise KeyError
            return lambda v: f(v)
        if name.endswith(" as iana::EnumI64>::from_i64"):
            enum = name[1:name.index(" as ")]
            ds = set((prog.enum_discrs(enum) or {}).values())
            return lambda i: ("enum", "core::option::Option", "Some" if i in ds else "None")
        if name.endswith(" as iana::WithPrivateRange>::is_private"):
            return lambda i: i < -65536
        if name == "core::option::Option::<T>::is_some":
            return lambda v: v[2] == "Some"
        if name == "core::option::Option::<T>::is_none":
            return lambda v: v[2] == "None"
        return None


def check(ctx):
    # builder methods are judged by their NET effect: every crate-local function they call (other builder methods,
    # private helpers, `Self::new()`) is inlined first, so `add_critical(p)` = `add_critical_label(Assigned(p))` and
    # `new_okp_key()` = `Self::new().key_type(OKP)` are the same as the spelled-out bodies
    prog = ctx.prog.view("all")
    bs = builders(prog)
    ctx.floor("R-1", "builder types", len(bs), 14)
    from rules import structs_common as _S
    _S.check_derived_impls(ctx, "R-2", {"core::default::Default"}, only_structs=True)
    _S.check_derived_impls(ctx, "R-2", {"core::clone::Clone"})
    # the guard tables below evaluate `is_private(i)` as `i < -65536`; that summary is re-checked here for every registry with
    # a private range, because the panic guards of `private_claim` & co. refuse exactly what it says (C17 R-3's recogniser)
    from rules import c17
    for imp in ctx.prog.impls:
        if imp.get("trait") == c17.WPR:
            c17.check_private_predicate(ctx, "R-3", imp["self_ty"])
    # the creating methods (create_signature, add_detached_signature, create_tag, create_ciphertext ...) are builder calls too:
    # what they store, that they touch nothing else, and the documented panic of the detached variants when a payload is
    # already embedded - C06's recogniser of the helpers, restricted to the builders, under this property
    from rules import c06 as _c06
    _c06.check_helpers(ctx.under("R-2", "creating-methods"), builders_only=True)
    n_methods = 0
    n_setters = 0
    for bname, methods in sorted(bs.items()):
        wty, wadt = wrapped_type(prog, bname)
        fields = {fd["name"]: fd["ty"] for fd in wadt["variants"][0]["fields"]} if wadt else {}
        for f in sorted(methods, key=lambda x: x.key):
            n_methods += 1
            pv = Prov(f)
            effs = norm_effects(pv)
            rt = pv.return_term()
            key = f.key
            if key in HELPERS:
                continue  # create / add_created helpers: C06
            if f.name == "new":
                dflt = rt[0] == "aggr" and rt[1] == bname and len(rt[3]) == 1 and is_call(rt[3][0][1]) \
                    and rt[3][0][1][1].endswith("core::default::Default>::default") and not effs
                if key in B.KEY_CONSTRUCTORS:
                    pass
                ctx.ob("R-2", "new:%s" % bname, dflt, "%s::new() wraps the default value and does nothing else" % bname, where=f.span,
                       detail={"return": show(rt)[:120]})
                continue
            if f.name == "build":
                ctx.ob("R-2", "build:%s" % bname, rt == SELF0 and not effs, "%s::build() returns the accumulated value unchanged" % bname, where=f.span,
                       detail={"return": show(rt)[:80], "effects": [show(e[1])[:40] for e in effs]})
                continue
            if key in B.KEY_CONSTRUCTORS:
                _key_ctor(ctx, prog, f, pv, rt, effs)
                continue
            if key == "encrypt::CoseRecipientBuilder::aad":
                continue  # private helper of create_ciphertext: C05 R-3
            if not f.is_pub and key not in B.EFFECTS:
                continue  # not part of the builder's API: public methods are analysed with their private helpers inlined
            if key in B.EFFECTS:
                want = [tuple(x) for x in B.EFFECTS[key]]
                ok = sorted(map(repr, effs)) == sorted(map(repr, want)) and rt == ("param", 0)
                if key not in B.GUARDS:
                    ce = conditional_effects(f, pv)
                    ctx.ob("R-3", "unconditional:%s" % key, not ce,
                           "%s applies its documented effect on every call, whatever the argument" % key, where=f.span,
                           detail={"conditional_effects": ce})
                ctx.ob("R-2", "effect:%s" % key, ok,
                       "%s has exactly its documented effect (%s) and returns self" % (key, "; ".join(_eff_str(w) for w in want)),
                       where=f.span, detail={"found": [_eff_str(e) for e in effs], "return": show(rt)[:60]},
                       sample={"method": key, "effects": [_eff_str(e) for e in effs]})
                if key in B.GUARDS:
                    _guard(ctx, prog, f, pv, key)
                else:
                    ctx.ob("R-4", "unconditional:%s" % key, _no_panic(f), "%s has no refusing path" % key, where=f.span)
                continue
            # generated setter: the field of the same name
            n_setters += 1
            fld = f.name
            if fld not in fields:
                # a public method that is neither in the documented-effects table nor a generated setter (an addition to
                # the API): its documentation is not known to this checker, so nothing is claimed about it
                ctx.note("%s: public builder method outside the documented-effects table; not checked" % key)
                n_setters -= 1
                continue
            fty = fields[fld]
            pty = f.d["inputs"][1] if len(f.d.get("inputs", [])) > 1 else None
            S = B.S(fld)
            if fty == pty:
                want = [("assign", S, ("param", 1))]
                form = "self.0.%s = arg" % fld
            elif fty == "core::option::Option<%s>" % pty:
                want = [("assign", S, B.some(("param", 1)))]
                form = "self.0.%s = Some(arg)" % fld
            elif fty == "header::ProtectedHeader" and pty == "header::Header":
                want = [("assign", S, ("aggr", "header::ProtectedHeader", "ProtectedHeader",
                                       (("original_data", ("aggr", "core::option::Option", "None", ())), ("header", ("param", 1)))))]
                form = "self.0.%s = ProtectedHeader{original_data: None, header: arg}" % fld
            else:
                want = None
                form = "?"
            ok = want is not None and effs == want and rt == ("param", 0) and _no_panic(f) and not conditional_effects(f, pv)
            ctx.ob("R-1", "setter:%s" % key, ok, "%s: %s, nothing else touched, returns self" % (key, form), where=f.span,
                   detail={"found": [_eff_str(e) for e in effs], "field_type": fty, "param_type": pty},
                   sample={"method": key, "effect": [_eff_str(e) for e in effs]} if bname == "mac::CoseMac0Builder" else None)
    ctx.floor("R-3", "builder methods analysed", n_methods, 100)
    ctx.floor("R-1", "generated setters", n_setters, 40)
    for key in B.EFFECTS:
        ctx.ob("R-2", "method-present:%s" % key, key in prog.fns, "documented builder method %s exists" % key, kind="missing-anchor")
    statics = prog.d.get("statics", [])
    ctx.ob("R-5", "no-hidden-state", not statics, "no static items: a builder's behaviour depends only on its own value and arguments")


def _eff_str(e):
    if e[0] == "assign":
        return "%s = %s" % (show(e[1]), show(e[2])[:90])
    return "%s(%s%s)" % (e[1].split("::")[-1], show(e[2]), "".join(", " + show(a)[:70] for a in e[3:]))


def _no_panic(f):
    for bb, t in f.calls():
        c = t.get("callee") or {}
        if c.get("never"):
            return False
    return True


def _guard(ctx, prog, f, pv, key):
    kind, must_panic, text = B.GUARDS[key]
    panics = [bb for bb, t in f.calls() if (t.get("callee") or {}).get("never")]
    pushes = [e["bb"] for e in pv.effects() if e["kind"] == "call"]
    sums = Summaries(prog)
    problems = []
    if kind == "int":
        consts = set()
        for b in f.blocks:
            for s in b["stmts"]:
                if s["k"] == "assign":
                    for opk in ("a", "b", "op"):
                        o = s["rv"].get(opk)
                        if isinstance(o, dict) and o.get("k") == "const" and isinstance(o.get("val"), int) and not isinstance(o.get("val"), bool):
                            consts.add(o["val"])
        pts = break_points(consts | {0, 1, 5, 7, -65536, -65537, 8, 6, -1})
        inputs = [(x, x) for x in pts]
    else:
        enum = kind.split(":", 1)[1]
        ds = prog.enum_discrs(enum) or {}
        inputs = [(("enum", enum, v), d) for v, d in sorted(ds.items(), key=lambda kv: kv[1])]
    table = {}
    for val, meaning in inputs:
        reached, und = walk(f, 0, params={2: val}, sinks=set(panics) | set(pushes), call_values=sums)
        p = bool(reached & set(panics))
        q = bool(reached & set(pushes))
        table[meaning] = (p, q)
        want = must_panic(meaning)
        if p and q:
            problems.append("input %s: guard could not be evaluated (both outcomes reachable)" % (meaning,))
        elif p != want:
            problems.append("input %s: %s, documented: %s" % (meaning, "refused" if p else "accepted", "refused" if want else "accepted"))
        elif not p and not q:
            problems.append("input %s reaches neither the refusal nor the push" % (meaning,))
    undec = any("could not be evaluated" in p for p in problems)
    ctx.ob("R-4", "guard:%s" % key, not problems,
           "%s refuses (documented panic) iff %s; every other input is appended - truth table over %d break points" % (key, text, len(inputs)),
           where=f.span, detail={"problems": problems[:8]}, kind="cannot-decide" if undec else None,
           sample={"method": key, "refused_inputs": sorted(str(k) for k, v in table.items() if v[0])[:12], "points": len(inputs)})


def returned_struct(prog, f, pv, rt, effs):
    """net value of the CoseKey inside the builder a constructor returns: ({field: term}, [params entries], problems).
    The literal's explicit fields, then - in program order - every later assignment to a field and every push onto
    `params` made to the same object before it is returned; anything else is reported"""
    problems = []
    fields = {}
    params = None
    if not (rt[0] == "aggr" and rt[1] == "key::CoseKeyBuilder" and rt[3]):
        return None, None, ["does not return CoseKeyBuilder(..)"]
    inner = rt[3][0][1]
    if inner[0] == "aggr" and inner[1] == "key::CoseKey":
        fields = dict(inner[3])
    elif is_call(inner) and inner[1].endswith("Default>::default"):
        fields = {}
    else:
        return None, None, ["the wrapped key is %s, not a CoseKey literal / default" % show(inner)[:60]]
    # `..Default::default()` spells the remaining fields as default().f
    for k, v in list(fields.items()):
        if v[0] == "field" and v[2] == k and is_call(v[1]) and v[1][1].endswith("Default>::default"):
            del fields[k]
    pvec = fields.pop("params", None)
    if pvec is None:
        params = []
    elif is_call(pvec, codec.BOX_VEC):
        arr = [e for e in effs if e[0] == "assign" and e[2][0] == "array"]
        if len(arr) != 1:
            problems.append("params is not a single vec![..] literal")
            params = []
        else:
            params = list(arr[0][2][1])
    elif is_call(pvec, codec.VEC_NEW):
        params = []
    else:
        problems.append("params starts as %s" % show(pvec)[:60])
        params = []
    for e in effs:
        if e[0] == "assign" and e[2][0] == "array":
            continue
        place = e[1] if e[0] == "assign" else e[2]
        # the object being built: a local of this function (after inlining) - its fields are .0.<f> or .<f>
        fld = None
        if place[0] == "field" and place[1][0] == "field" and place[1][2] == "0" and place[1][1][0] in ("local", "ret"):
            fld = place[2]
        elif place[0] == "field" and place[1][0] in ("local",):
            fld = place[2]
        if fld is None:
            problems.append("effect on something else: %s" % _eff_str(e))
        elif e[0] == "assign":
            fields[fld] = e[2]
        elif e[1] == B.PUSH and fld == "params":
            params.append(e[3])
        else:
            problems.append("additional effect: %s" % _eff_str(e))
    return fields, params, problems


def _key_ctor(ctx, prog, f, pv, rt, effs):
    key = f.key
    kty, want_params = B.KEY_CONSTRUCTORS[key]
    fields, params, problems = returned_struct(prog, f, pv, rt, effs)
    if fields is not None:
        if fields.get("kty") != B.rl("Assigned", ("aggr", "iana::KeyType", kty, ())):
            problems.append("kty is %s, expected Assigned(%s)" % (show(fields.get("kty"))[:60] if fields.get("kty") else "the default", kty))
        for fld in sorted(set(fields) - {"kty"}):
            problems.append("%s is set to %s, expected the default" % (fld, show(fields[fld])[:50]))
        if len(params) != len(want_params):
            problems.append("params has %d entries, expected %d" % (len(params), len(want_params)))
        for (lab, vk, pi), it in zip(want_params, params):
            it = resolve_consts(prog, it)
            want_l = B.label("Int", ("const", lab))
            if it[0] != "tuple" or len(it[1]) != 2:
                problems.append("entry for label %d is %s" % (lab, show(it)[:100]))
                continue
            if vk == "curve-as-u64":
                okv = is_call(it[1][1], "core::convert::From::from") and it[1][1][2][0] == ("cast", "IntToInt", ("discr", ("param", pi)), "u64")
            else:
                okv = it[1][1] == ("aggr", "ciborium::value::Value", vk, (("0", ("param", pi)),))
            if it[1][0] != want_l or not okv:
                problems.append("entry for label %d is %s" % (lab, show(it)[:100]))
    if conditional_effects(f, pv):
        problems.append("an effect of the constructor depends on its arguments")
    ctx.ob("R-2", "key-ctor:%s" % key, not problems,
           "%s builds kty=%s with parameters %s and everything else default" % (key, kty, [(l, k) for l, k, _ in want_params]), where=f.span,
           detail={"problems": problems}, sample={"ctor": key, "kty": kty, "params": [(l, k) for l, k, _ in want_params]})
META["decides"] += ' R-2 also: the creating methods of the builders (create_signature, add_detached_signature, create_tag, create_ciphertext and their try_ forms) call the caller\'s function once, store its result in the documented field, touch nothing else, return the builder, and the detached variants reach the signer only under `payload.is_none()` (C06\'s helper recogniser restricted to the builders).'
