"""C01 - untrusted bytes never crash decoding or the processing that follows it."""
from lib.prov import Prov, show, is_call, subterms, calls_in
from lib.guards import outcomes, conditions
from lib.facts import callee_path
from lib.veclen import VecLen, VEC_REMOVE, INDEX, SPLIT_OFF
from lib.callgraph import CallGraph
from spec import panics as P

REGISTER = True
META = {
    "level": "proof",
    "decides": "R-1 single parser entry (who-may-call); R-2 panic ledger: EVERY panic-capable site of the crate (MIR asserts, "
               "calls of #[track_caller] or diverging functions) is enumerated and discharged as guarded (vec-length interval "
               "proof), documented refusal (unreachable from any decode entry; what it refuses is a missing payload / ciphertext, an "
               "out-of-range signer index or a condition on the caller's own arguments; every public function that reaches it says so "
               "in a `# Panics` section) or invariant (named argument re-checked each run); R-3 every call cycle reachable from a decode "
               "entry either consumes a strict sub-Value per call or carries a decremented budget whose zero case is an Err, with "
               "a constant entry budget <= 64; R-4 every loop in decode-reachable code advances a consuming std iterator created "
               "outside the loop (hang freedom), of a type built from finite std sources and finiteness-preserving adapters; R-5 inside such "
               "a loop no linear-time std operation scans a vector that lives across iterations (no quadratic decoding).",
    "does_not_decide": "ciborium's own safety and its 256-level recursion guard; stack bytes per level (depth is bounded, not bytes; "
                       "the 64-level ceiling assumes <= 12 KiB per level as measured in DESIGN 6.1); time/memory proportionality beyond "
                       "'no unbounded recursion, loops advance a finite iterator, no known linear scan of a persistent vector per iteration' "
                       "(a hand-written quadratic loop is not seen); allocator failure; panics inside std/ciborium callees that "
                       "are not #[track_caller]",
    "trusted_base": ["ciborium 0.2.x: from_reader bounds nesting at 256 and never panics; into_writer into a Vec<u8> is infallible",
                     "std contracts of Vec::remove / Index / Option::unwrap", "rustc's #[track_caller] / `!` classification of callees"],
}
META["decides"] += " (R-3: a budgeted edge counts as decrementing only if every call site on it decrements; closures built in the cycle carry their creator's budget; R-2 discharges small-constant + Vec::len() overflow asserts.)"
META["decides"] += " R-3 also covers every call cycle OUTSIDE the decoders (encoders, Clone / PartialEq / Ord impls, helpers; std trait calls on &T / Option<T> / Vec<T> count as calls of the crate's impl for T): after removing the edges on which every call hands on a strict part of the caller's receiver the component must be acyclic (depth bounded by the nesting of the value)."

ASV = "common::AsCborValue"
READ = "common::read_to_value"
MAX_ENTRY_BUDGET = 64


def decode_entries(prog):
    out = []
    for f in prog.real_fns():
        if f.name == "from_cbor_value" and f.impl_trait == ASV:
            out.append(f.key)
        if f.key in ("common::CborSerializable::from_slice", "common::TaggedCborSerializable::from_tagged_slice",
                     "header::ProtectedHeader::from_cbor_bstr", READ):
            out.append(f.key)
    return out


def check(ctx):
    prog = ctx.prog
    cg = CallGraph(prog)
    entries = decode_entries(prog)
    ctx.floor("R-2", "decode entry points", len(entries), 24)
    dreach_nodes = cg.reachable(entries)
    dreach = {cg.def_of(k) for k in dreach_nodes}
    ctx.count("decode_reachable_functions", len(dreach))

    # ---- R-1 ---------------------------------------------------------------------
    sites = [(f, bb) for f in prog.real_fns() for bb, t in f.calls()
             if (t.get("callee") or {}).get("crate") == "ciborium" and (t["callee"].get("name") or "").startswith("from_reader")]
    def _bounded_parser(f, bb):
        t = f.blocks[bb]["term"]
        name = t["callee"]["name"]
        if name == "from_reader":
            return True
        if name == "from_reader_with_recursion_limit" and len(t["args"]) == 2:
            # an explicit limit: a constant no larger than ciborium's own default
            from lib.prov import resolve_consts
            lim = resolve_consts(prog, Prov(f).operand_term(t["args"][1], bb, "term"))
            while lim[0] == "cast":
                lim = lim[2]
            return lim[0] == "const" and isinstance(lim[1], int) and not isinstance(lim[1], bool) and 1 <= lim[1] <= 256
        return False
    ctx.ob("R-1", "single-parser-entry", len(sites) == 1 and sites[0][0].key == READ and _bounded_parser(*sites[0]),
           "the only ciborium parser call in the crate is from_reader (default 256-level recursion limit, or an explicit constant limit <= 256) in read_to_value",
           detail={"sites": ["%s (%s)" % (f.key, f.where(bb)) for f, bb in sites]})
    callers = sorted({f.key for f in prog.real_fns() for bb, t in f.calls() if callee_path(t) == READ})
    # other provided methods of the two serialisation traits (a new byte-level entry point such as `from_maybe_tagged_slice`)
    # inherit the discipline of read_to_value; a re-entry from INSIDE a decoder is what R-3 analyses (every cycle that
    # contains a caller of read_to_value needs a budget), so only callers that are neither are reported here
    extra = [k for k in callers if k not in ("common::CborSerializable::from_slice", "common::TaggedCborSerializable::from_tagged_slice",
                                             "header::ProtectedHeader::from_cbor_bstr_depth")
             and prog.fn(k).trait_default_of not in ("common::CborSerializable", "common::TaggedCborSerializable")]
    ctx.ob("R-1", "callers-of-read_to_value", not extra,
           "read_to_value is called only by provided methods of the serialisation traits and the depth-budgeted protected-header path",
           detail={"callers": callers, "unexpected": extra})

    # ---- R-2 panic ledger ----------------------------------------------------------
    n_sites = 0
    n_trivial = 0
    kinds = {"guarded": 0, "documented": 0, "invariant": 0, "trivial-assert": 0, "benign-forwarder": 0}
    pub_reach_cache = {}
    for f in prog.real_fns():
        if f.key in prog.fully_inlined:
            continue   # private helper whose every use is analysed in the context of its callers (lib/inline.py)
        vl = None
        pv = None
        for bi, b in enumerate(f.blocks):
            if b["cleanup"] or bi not in f.cfg.reach:
                continue
            t = b["term"]
            if t["k"] == "assert":
                n_sites += 1
                pv = pv or Prov(f)
                c = pv.operand_term(t["cond"], bi, "term")
                if c[0] == "const" and c[1] == t["expected"]:
                    kinds["trivial-assert"] += 1
                    n_trivial += 1
                    continue
                if t["kind"].startswith(("MisalignedPointerDereference", "NullPointerDereference")):
                    # compiler-inserted debug check of a raw-pointer dereference (present only with debug assertions in
                    # non-no_std builds): discharged when every raw pointer of the function is a Box's own pointer
                    ok = _raw_pointers_come_from_boxes(f, pv)
                    if ok:
                        kinds["trivial-assert"] += 1
                    else:
                        ctx.ob("R-2", "assert:%s:raw-pointer-check" % f.key, False,
                               "a raw pointer that does not come from a Box is dereferenced in %s" % f.key, where=f.where(bi))
                    continue
                if t["kind"].startswith("Overflow(Add") and _small_plus_len(c):
                    # `Vec::with_capacity(5 + self.params.len())`: a Vec of non-zero-sized elements holds at most isize::MAX bytes,
                    # so len() <= isize::MAX and a small constant more cannot wrap a usize
                    kinds["guarded"] += 1
                    ctx.ob("R-2", "assert:%s:%s" % (f.key, t["kind"]), True,
                           "arithmetic assert %s: small constant + Vec::len() cannot overflow (len <= isize::MAX)" % t["kind"],
                           where=f.where(bi))
                    continue
                vl = vl or VecLen(f)
                obs = [o for o in vl.obligations if o["bb"] == bi and o["kind"] == "sub"]
                ok = bool(obs) and all(o["ok"] for o in obs)
                if ok:
                    kinds["guarded"] += 1
                ctx.ob("R-2", "assert:%s:%s" % (f.key, t["kind"]), ok,
                       "arithmetic assert %s is discharged by the length interval %s" % (t["kind"], [(o["need"], (o["lo"], o["hi"])) for o in obs]),
                       where=f.where(bi), sample={"fn": f.key, "assert": t["kind"], "proof": [(o["need"], o["lo"]) for o in obs]})
                continue
            if t["k"] != "call":
                continue
            c = t.get("callee")
            if c is None:
                continue
            name0 = c.get("path") or ""
            if P.OVERFLOW_INHERITING.match(name0):
                n_sites += 1
                pv = pv or Prov(f)
                args = [pv.operand_term(a, bi, "term") for a in t["args"]]
                ctx.ob("R-2", "overflow-inheriting:%s:%s" % (f.key, name0.split("::")[-1]), False,
                       "call of %s in %s panics on overflow in builds with overflow checks (e.g. %s on the minimum value) and no rule discharges it%s" % (
                           name0, f.key, name0.split("::")[-1], " (reachable from a decode entry point)" if f.key in dreach else ""),
                       where=f.where(bi), detail={"args": [show(a)[:80] for a in args]})
                continue
            if not (c.get("track_caller") or c.get("never")):
                continue
            name = callee_path(t)
            n_sites += 1
            if name in P.BENIGN_FORWARDERS:
                kinds["benign-forwarder"] += 1
                continue
            key = (f.key, name)
            if f.closure_of and (f.closure_of, name) in P.INVARIANT:
                key = (f.closure_of, name)      # the same site, written inside a closure of the function the table names
            if name in (VEC_REMOVE, INDEX, SPLIT_OFF):
                vl = vl or VecLen(f)
                pv = pv or Prov(f)
                obs = [o for o in vl.obligations if o["bb"] == bi]
                ok = bool(obs) and all(o["ok"] for o in obs)
                # not discharged by a length fact, outside decoding, and on a field of self: may be a documented refusal
                # (`&self.signatures[which]`), decided below; everything else is decided here
                fallthrough = not ok and f.key not in dreach and _panic_subject(prog, f, pv, bi, t, name) is not None
                if not fallthrough:
                    if ok:
                        kinds["guarded"] += 1
                    o0 = obs[0] if obs else {}
                    ctx.ob("R-2", "guarded:%s:%s:%s" % (f.key, name.split("::")[-1], o0.get("orig", o0.get("index"))), ok,
                           "%s at element %s needs %s; length interval on every path here is [%s, %s]" % (
                               name.split("::")[-1], o0.get("index"), o0.get("need"), o0.get("lo"), o0.get("hi")),
                           where=f.where(bi),
                           sample={"fn": f.key, "site": name, "index": o0.get("index"), "len": [o0.get("lo"), o0.get("hi")],
                                   "idiom": (o0.get("idiom") or {}).get("checks")} if f.key.startswith("<mac::CoseMac ") or "Kdf" in f.key else None)
                    continue
            if key in P.INVARIANT:
                ok, why = _invariant(ctx, prog, cg, f, bi, t, P.INVARIANT[key])
                if ok:
                    kinds["invariant"] += 1
                ctx.ob("R-2", "invariant:%s:%s:%s" % (f.key, name.split("::")[-1], P.INVARIANT[key]), ok,
                       "site can never fire by %s: %s" % (P.INVARIANT[key], why), where=f.where(bi))
                continue
            if name in (P.UNWRAP_R, P.EXPECT_R):
                # `label.to_vec().unwrap()` wherever it is written (a sort key built next to canonicalize): the same invariant
                # as in Label::cmp_canonical, decided on the operand and on Label's encoder, not on the enclosing function
                ok_l, why_l = _invariant(ctx, prog, cg, f, bi, t, "I-label-enc")
                if ok_l:
                    kinds["invariant"] += 1
                    ctx.ob("R-2", "invariant:%s:%s:I-label-enc" % (f.key, name.split("::")[-1]), True,
                           "site can never fire by I-label-enc: %s" % why_l, where=f.where(bi))
                    continue
            pv = pv or Prov(f)
            subj = _panic_subject(prog, f, pv, bi, t, name)
            if subj is not None:
                # a documented refusal: (a) not reachable from any decode entry, (b) what it refuses is something the
                # property allows to be refused (a missing payload / ciphertext, an out-of-range signer index) or a
                # condition on the caller's own arguments, (c) every public function from which the site is reachable says
                # so in a `# Panics` section (mentioning the field for (b)-sites)
                unreachable = f.key not in dreach
                allowed = subj[0] == "param" or (subj[0] == "field" and subj[1] in P.REFUSABLE_FIELDS)
                docs_missing = []
                for g in prog.real_fns():
                    if not g.is_pub or g.closure_of:
                        continue
                    if g.key == f.key or f.key in {cg.def_of(k) for k in _reach(cg, g.key, pub_reach_cache)}:
                        if not _doc_mentions(g, subj) and not _site_dead_in(prog, g.key, f.key, name):
                            docs_missing.append(g.key)
                ok = unreachable and allowed and not docs_missing
                if ok:
                    kinds["documented"] += 1
                ctx.ob("R-2", "documented:%s:%s" % (f.key, "%s:%s" % subj if subj[0] == "field" else "argument"), ok,
                       "documented refusal (%s): not reachable from any decode entry and every public function that can reach it says so "
                       "in a `# Panics` section" % ("self.%s absent / out of range" % subj[1] if subj[0] == "field" else "precondition on argument %s" % subj[1]),
                       where=f.where(bi), detail={"reachable_from_decode": not unreachable, "subject": subj, "allowed_subject": allowed,
                                                  "public_callers_without_matching_docs": docs_missing})
                continue
            ctx.ob("R-2", "unclassified:%s:%s" % (f.key, name), False,
                   "panic-capable call of %s in %s is neither guarded, documented nor a known invariant%s" % (
                       name, f.key, " (reachable from a decode entry point)" if f.key in dreach else ""),
                   where=f.where(bi))
    ctx.count("panic_capable_sites", n_sites)
    ctx.count("helpers_analysed_in_caller_context", len(prog.fully_inlined))
    for k, v in kinds.items():
        ctx.count("ledger_" + k, v)
    # asserts on a constant condition (the discriminant arithmetic of `Self::X as i64` in the generated from_i64: 222 of the 305
    # sites of the pinned tree) are not counted towards the floor: a table-driven from_i64 removes them all and nothing is lost
    ctx.count("panic_capable_sites_nontrivial", n_sites - n_trivial)
    ctx.floor("R-2", "panic-capable sites enumerated (constant asserts not counted)", n_sites - n_trivial, 40)
    ctx.floor("R-2", "guarded sites", kinds["guarded"], 10)
    ctx.floor("R-2", "documented refusals", kinds["documented"], 8)

    # ---- R-3 recursion ---------------------------------------------------------------
    sccs = cg.sccs(dreach_nodes)
    ctx.count("decode_sccs", len(sccs))
    for comp in sccs:
        _check_scc(ctx, prog, cg, comp)
    ctx.floor("R-3", "decode call cycles", len(sccs), 2)
    _check_followup_cycles(ctx, prog, sccs)

    # ---- R-4 loops --------------------------------------------------------------------
    nloops = 0
    for k in sorted(dreach):
        f = prog.fns.get(k)
        if f is None or not f.blocks or k in prog.fully_inlined:   # None: an enum constructor used as a function value
            continue
        for header, body in f.cfg.loops():
            nloops += 1
            ok, why = _loop_ok(f, header, body)
            ctx.ob("R-4", "loop:%s:%s" % (f.key, why.get("iter", header)), ok,
                   "loop in %s advances a consuming std iterator created before the loop on every iteration" % f.key,
                   where=f.where(header), detail=why, sample={"fn": f.key, "iterator": why.get("iter")})
    ctx.floor("R-4", "decode loops", nloops, 3)

    # ---- R-5 work per iteration -----------------------------------------------------------------------------
    # "time proportional to the input": inside a loop of decode-reachable code no std operation that is linear in the
    # length of a collection living ACROSS iterations (the input vector, an accumulator) may run - that is quadratic.
    # Set / map operations (logarithmic) and scans of something built from the current element are fine.
    nscan = 0
    for k in sorted(dreach):
        f = prog.fns.get(k)
        if f is None or not f.blocks or k in prog.fully_inlined:
            continue
        loops = f.cfg.loops()
        if not loops:
            continue
        pv = Prov(f)
        vl = None
        for header, body in loops:
            for bb in sorted(body):
                t = f.blocks[bb]["term"]
                if t["k"] != "call" or f.blocks[bb]["cleanup"]:
                    continue
                name = callee_path(t) or ""
                if not P.LINEAR_SCANS.match(name) or not t["args"]:
                    continue
                nscan += 1
                if name == VEC_REMOVE:
                    vl = vl or VecLen(f)
                    if bb in vl.drains:
                        continue            # removing the LAST element (reverse tail drain): constant time
                recv = pv.operand_term(t["args"][0], bb, "term")
                # the vectors / slices being scanned: the receiver itself or what its view (deref, iter, as_slice ..) is a view of
                roots = _scanned_vectors(f, pv, t["args"][0], bb)
                if pv._defs is None:
                    pv._collect_defs()
                stale = []
                for l in roots:
                    defs = [d for d in pv._defs if d[0] == l]
                    if not (defs and all(d[1] in body for d in defs)):
                        stale.append(f.local_name(l) or "_%d" % l)
                if not roots:
                    continue        # not a scan of a vector of this function (e.g. the characters of one text value)
                ctx.ob("R-5", "per-iteration-scan:%s:%s" % (f.key, name.split("::")[-1]), not stale,
                       "%s inside a decode loop of %s scans only a vector built in the same iteration (scanning one that lives "
                       "across iterations - the input, an accumulator - makes decoding quadratic)" % (name.split("::")[-1], f.key),
                       where=f.where(bb), detail={"scanned": stale, "receiver": show(recv)[:100]})
    ctx.count("linear_scans_in_decode_loops", nscan)


def _site_dead_in(prog, caller_key, site_fn_key, callee_name):
    """in the net-effect (all-inlined) body of the public function `caller_key`, every copy of the panic-capable call that comes
    from `site_fn_key` sits in a block reached only under a test of a literal that the literal fails: the call graph says the
    site is reachable (`create_signature -> try_sign(.., None, ..) -> tbs_detached_data`), the code says it is not"""
    try:
        g = prog.view("all").fns.get(caller_key)
        if g is None or not g.blocks or caller_key == site_fn_key:
            return False
        pv = Prov(g)
        found = False
        for bb, t in g.calls():
            if callee_path(t) != callee_name:
                continue
            if site_fn_key not in tuple(g.blocks[bb].get("chain", ())):
                continue
            found = True
            if not pv._block_statically_dead(bb):
                return False
        return found
    except Exception:
        return False


def _self_field(t):
    """name of the field of `self` (or of the value a builder wraps) a term reads, else None"""
    for s in subterms(t):
        if isinstance(s, tuple) and s and s[0] == "field":
            b = s[1]
            while b[0] in ("deref", "ref") or (b[0] == "field" and b[2] == "0"):
                b = b[1]
            if b == ("param", 0) and s[2] != "0":
                return s[2]
    return None


def _panic_subject(prog, f, pv, bi, t, name):
    """what a panic-capable site refuses: ('field', name) - a field of self is absent / too short;
    ('param', name) - a condition on the caller's own arguments; None - anything else"""
    args = [pv.operand_term(a, bi, "term") for a in t["args"]]
    if name in (P.UNWRAP_O, P.EXPECT_O, P.UNWRAP_R, P.EXPECT_R, VEC_REMOVE, INDEX) and args:
        fld = _self_field(args[0])
        return ("field", fld) if fld else None
    if (t.get("callee") or {}).get("never"):
        from lib.guards import conditions
        for c in reversed(conditions(f, pv, bi)):
            fld = _self_field(c[0])
            if fld:
                return ("field", fld)
            ps = [s[1] for s in subterms(c[0]) if isinstance(s, tuple) and s and s[0] == "param" and s[1] > 0]
            if ps:
                return ("param", f.local_name(ps[0] + 1) or "#%d" % ps[0])
    return None


def _panics_section(g):
    import re
    m = re.search(r"# Panics\s*(.*?)(\n\s*# |\Z)", g.doc or "", re.S)
    return m.group(1).lower() if m else ""


def _doc_mentions(g, subj):
    if not g.doc_panics:
        return False
    if subj[0] == "field":
        return subj[1].lower() in _panics_section(g)
    return True


def _scanned_vectors(f, pv, op, bb, depth=0):
    """Vec / slice locals of f that an operand (a reference, a slice view, an iterator) gives access to"""
    out = set()
    if depth > 4 or op["k"] not in ("copy", "move"):
        return out
    lv = pv._borrowed_lvalue(op, bb)
    if lv[0] == "local":
        ty = f.local_ty(lv[1])
        if ty.startswith("alloc::vec::Vec<") or ty.startswith("[") or ty.startswith("&["):
            out.add(lv[1])
            return out
    if op["place"]["p"]:
        return out
    for di in pv.reaching(op["place"]["l"], bb, "term"):
        if di == -1:
            continue
        _, dbb, didx, payload = pv._defs[di]
        if didx == "term":
            name = callee_path(payload) or ""
            if name.endswith(("::deref", "::deref_mut", "::iter", "::iter_mut", "::into_iter", "::as_slice", "::as_ref", "::borrow",
                              "::rev", "::map", "::by_ref", "::enumerate", "::skip", "::cloned", "::copied")) and payload["args"]:
                out |= _scanned_vectors(f, pv, payload["args"][0], dbb, depth + 1)
        elif payload["k"] == "use" and payload["op"]["k"] in ("copy", "move"):
            out |= _scanned_vectors(f, pv, payload["op"], dbb, depth + 1)
        elif payload["k"] == "ref":
            pl = payload["place"]
            if len(pl["p"]) == 1 and pl["p"][0][0] == "deref":
                pl = {"l": pl["l"], "p": []}       # `&*r`: whatever r gives access to
            out |= _scanned_vectors(f, pv, {"k": "copy", "place": pl}, dbb, depth + 1)
    return out


def _raw_pointers_come_from_boxes(f, pv):
    """every raw-pointer local of f is `<box>.0.pointer` transmuted (how `*boxed` / vec![] lower): Box guarantees
    non-null and aligned"""
    for bi, b in enumerate(f.blocks):
        if b["cleanup"]:
            continue
        for si, s in enumerate(b["stmts"]):
            if s["k"] != "assign" or s["dst"]["p"]:
                continue
            ty = f.local_ty(s["dst"]["l"])
            if not ty.startswith(("*const", "*mut")):
                continue
            rv = s["rv"]
            if rv["k"] == "cast" and rv["kind"] in ("Transmute", "PtrToPtr"):
                t = pv.operand_term(rv["op"], bi, si)
                base = t
                while base[0] == "cast":
                    base = base[2]
                if base[0] == "field" and base[2] == "pointer" and base[1][0] == "field" and base[1][2] == "0":
                    continue   # Box<T>.0 (Unique<T>).pointer (NonNull<T>): the Box's own allocation
                return False
            elif rv["k"] == "use":
                continue
            else:
                return False
    return True


def _reach(cg, key, cache):
    if key not in cache:
        cache[key] = cg.reachable([key])
    return cache[key]


# iterators that end: finite sources, and adapters that keep a finite iterator finite (std's documented behaviour)
FINITE_SOURCES = ("alloc::vec::into_iter::IntoIter", "alloc::vec::drain::Drain", "core::slice::iter::Iter", "core::slice::iter::IterMut",
                  "alloc::collections::btree::set::IntoIter", "alloc::collections::btree::set::Iter",
                  "alloc::collections::btree::map::IntoIter", "alloc::collections::btree::map::Iter",
                  "core::ops::range::Range", "core::ops::range::RangeInclusive", "core::option::IntoIter", "core::option::Iter",
                  "core::array::iter::IntoIter", "core::iter::sources::once::Once", "core::iter::sources::empty::Empty",
                  "core::str::iter::Chars", "core::str::iter::Bytes")
FINITE_ADAPTERS = {"core::iter::adapters::rev::Rev": 1, "core::iter::adapters::map::Map": 1, "core::iter::adapters::enumerate::Enumerate": 1,
                   "core::iter::adapters::filter::Filter": 1, "core::iter::adapters::filter_map::FilterMap": 1,
                   "core::iter::adapters::cloned::Cloned": 1, "core::iter::adapters::copied::Copied": 1,
                   "core::iter::adapters::skip::Skip": 1, "core::iter::adapters::take::Take": 1, "core::iter::adapters::peekable::Peekable": 1,
                   "core::iter::adapters::step_by::StepBy": 1, "core::iter::adapters::zip::Zip": 1,     # Zip ends with its FIRST to end
                   "core::iter::adapters::chain::Chain": 2, "core::iter::adapters::fuse::Fuse": 1,
                   "core::iter::adapters::inspect::Inspect": 1, "core::iter::adapters::take_while::TakeWhile": 1,
                   "core::iter::adapters::skip_while::SkipWhile": 1, "core::iter::adapters::map_while::MapWhile": 1}


def _split_generics(ty):
    """'a::B<x, y<z>>' -> ('a::B', ['x', 'y<z>'])"""
    i = ty.find("<")
    if i < 0 or not ty.endswith(">"):
        return ty, []
    head, body = ty[:i], ty[i + 1:-1]
    args, depth, cur = [], 0, ""
    for ch in body:
        if ch in "<([":
            depth += 1
        elif ch in ">)]":
            depth -= 1
        if ch == "," and depth == 0:
            args.append(cur.strip())
            cur = ""
        else:
            cur += ch
    if cur.strip():
        args.append(cur.strip())
    return head, args


def finite_iterator_type(ty):
    ty = ty.strip()
    while ty.startswith("&mut "):
        ty = ty[5:]
    head, args = _split_generics(ty)
    if head in FINITE_SOURCES:
        if head.startswith("core::ops::range::Range"):
            return bool(args) and args[0] in ("usize", "u8", "u16", "u32", "u64", "i8", "i16", "i32", "i64", "isize")
        return True
    n = FINITE_ADAPTERS.get(head)
    if n:
        return len(args) >= n and all(finite_iterator_type(a) for a in args[:n])
    return False


def _iter_self_type(full):
    """'<T as core::iter::traits::iterator::Iterator>::next' -> 'T'"""
    if full.startswith("<") and " as " in full:
        depth = 0
        for i, ch in enumerate(full):
            if ch == "<":
                depth += 1
            elif ch == ">":
                depth -= 1
            if depth == 1 and full.startswith(" as ", i):
                return full[1:i]
    return full


def _loop_ok(f, header, body):
    pv = Prov(f)
    nexts = []
    for bb in sorted(body):
        t = f.blocks[bb]["term"]
        if t["k"] == "call" and (t.get("callee") or {}).get("path") == "core::iter::traits::iterator::Iterator::next":
            nexts.append(bb)
    if not nexts:
        return False, {"problem": "no Iterator::next call in the loop (loop on a computed condition)"}
    for nb in nexts:
        t = f.blocks[nb]["term"]
        full = (t["callee"].get("resolved") or {}).get("full") or t["callee"]["full"]
        if not finite_iterator_type(_iter_self_type(full)):
            continue
        # next() executes on every iteration: it dominates every back-edge source
        back = [a for a, h in f.cfg.back_edges() if h == header]
        if not all(f.cfg.dominates(nb, a) for a in back):
            continue
        # the iterator is created outside the loop
        it = pv.operand_term(t["args"][0], nb, "term")
        made_in = [c[3][1] for c in calls_in(it) if c[3] and c[3][0] == f.key]
        if any(b in body for b in made_in):
            continue
        # the loop is left when next() yields None
        sw = f.blocks[t["target"]]["term"] if t.get("target") is not None else None
        if not sw or sw["k"] != "switch":
            continue
        exits = [b for v, b in sw["targets"] if v == 0 and b not in body]
        if not exits:
            continue
        return True, {"iter": full.split(" as ")[0].lstrip("<"), "next_bb": nb}
    return False, {"problem": "no next() on an allowed consuming iterator that dominates the back edge and exits on None"}


def _invariant(ctx, prog, cg, f, bb, t, which):
    if which == "I-signum":
        # the panic block is entered only from `otherwise` arms of switches over i64::signum() whose cases list -1, 0, 1
        pv = Prov(f)
        cfg = f.cfg
        seen = set()
        st = [bb]
        edges = []
        while st:
            x = st.pop()
            for p in cfg.pred[x]:
                pt = f.blocks[p]["term"]
                if pt["k"] == "switch":
                    edges.append((p, x))
                elif p not in seen:
                    seen.add(p)
                    st.append(p)
        if not edges:
            return False, "no controlling switch found"
        for p, x in edges:
            pt = f.blocks[p]["term"]
            op = pv.operand_term(pt["op"], p, "term")
            vals = {v for v, _ in pt["targets"]}
            if x != pt["otherwise"] or any(b == x for _, b in pt["targets"]):
                return False, "entered from a listed case of %s" % show(op)
            if not (is_call(op) and op[1].endswith("::signum")):
                return False, "switch operand %s is not an i64::signum() result" % show(op)
            if not {-1, 0, 1} <= vals:
                return False, "cases %s do not cover {-1,0,1}" % sorted(vals)
        return True, "only the otherwise arms of %d switches over signum() results (cases -1,0,1 listed) lead here" % len(edges)
    if which == "I-label-enc":
        pv = Prov(f)
        op = pv.operand_term(t["args"][0], bb, "term")
        if not (is_call(op, "common::CborSerializable::to_vec")):
            return False, "unwrap operand is %s, expected Label::to_vec()" % show(op)
        c = f.blocks[op[3][1]]["term"]["callee"]
        if c.get("self_ty") != "common::Label":
            return False, "to_vec receiver is %s" % c.get("self_ty")
        g = prog.fn("<common::Label as common::AsCborValue>::to_cbor_value")
        outs = outcomes(g, Prov(g))
        if not outs or any(o["kind"] != "ok" for o in outs):
            return False, "Label::to_cbor_value has a non-Ok exit"
        return True, "Label::to_cbor_value has only Ok exits and serialising an Integer/Text Value into a Vec is infallible (ciborium, trusted)"
    if which == "I-writer":
        pv = Prov(f)
        op = pv.operand_term(t["args"][0], bb, "term")
        if not (is_call(op) and op[1].startswith("ciborium::") and "into_writer" in op[1]):
            return False, "unwrap operand is %s" % show(op)
        val = op[2][0]
        inner = val[1] if val[0] == "ref" else val
        if not (inner[0] == "aggr" and inner[1] == "ciborium::value::Value" and inner[2] == "Array"):
            return False, "serialised value is %s" % show(inner)[:80]
        return True, "into_writer(&Value::Array(..), &mut Vec<u8>) cannot fail (ciborium, trusted)"
    if which == "I-enc":
        pv = Prov(f)
        op = pv.operand_term(t["args"][0], bb, "term")
        if not is_call(op, "header::ProtectedHeader::cbor_bstr"):
            return False, "expect operand is %s" % show(op)[:80]
        # (1) stored bytes short-circuit: the Some(original_data) edge of cbor_bstr reaches Ok with no fallible call
        cb = prog.fn("header::ProtectedHeader::cbor_bstr")
        pcb = Prov(cb)
        errs = []
        reach = {cg.def_of(k) for k in cg.reachable([cb.key])}
        for k in sorted(reach):
            g = prog.fns[k]
            if not g.blocks:
                continue
            for o in outcomes(g, Prov(g)):
                if o["kind"] == "err" and o["inner"][0] == "aggr":
                    errs.append((k, o["inner"][2]))
        kinds = sorted({e[1] for e in errs})
        allowed = {"DuplicateMapKey", "EncodeFailed"}
        if not set(kinds) <= allowed:
            return False, "header encoding can fail with %s" % kinds
        # to_vec must be reached only when original_data is None
        tv = [o for o in outcomes(cb, pcb) if o["kind"] == "propagate"]
        from lib.guards import path_variants
        for o in tv:
            pvs = path_variants(prog, pcb, o["conds"])
            if pvs.get(("field", ("param", 0), "original_data")) != {"None"}:
                return False, "cbor_bstr serialises although original_data may be Some"
        return True, ("the only Err sites reachable from cbor_bstr are %s; serialisation happens only when no wire bytes are stored, and a "
                      "decoded header has no duplicate labels (C12 R-1)" % kinds)
    return False, "unknown invariant"


def _upper_bound(t, depth=0):
    """an upper bound of a usize-valued term built from small constants, bool -> usize conversions, Vec::len() (a Vec of
    non-zero-sized elements holds at most isize::MAX bytes) and sums of such, or None"""
    if depth > 12:
        return None
    if t[0] == "const" and isinstance(t[1], bool):
        return 1
    if t[0] == "const" and isinstance(t[1], int) and 0 <= t[1] <= 2 ** 31:
        return t[1]
    if is_call(t, "alloc::vec::Vec::<T, A>::len") or is_call(t, "alloc::collections::btree::set::BTreeSet::<T, A>::len"):
        return 2 ** 63 - 1
    if is_call(t) and t[1] in ("core::convert::From::from", "core::convert::Into::into") and len(t[2]) == 1:
        a = t[2][0]
        # usize::from(bool): the argument is a comparison / negation / emptiness test
        if (a[0] in ("binop", "unop") and (a[0] == "unop" or a[1] in ("Eq", "Ne", "Lt", "Le", "Gt", "Ge"))) or \
                (is_call(a) and a[1].split("::")[-1] in ("is_empty", "is_some", "is_none", "contains", "contains_key")) or \
                (a[0] == "const" and isinstance(a[1], bool)):
            return 1
        return None
    if t[0] == "cast" and t[1] == "IntToInt" and len(t) > 2:
        return _upper_bound(t[2], depth + 1)
    if t[0] == "field" and t[2] == "0" and t[1][0] == "binop" and t[1][1] == "AddWithOverflow":
        t = ("binop", "Add", t[1][2], t[1][3])
    if t[0] == "binop" and t[1] in ("Add", "AddWithOverflow", "AddUnchecked"):
        a, b = _upper_bound(t[2], depth + 1), _upper_bound(t[3], depth + 1)
        return None if a is None or b is None else a + b
    if t[0] == "phi":
        bs = [_upper_bound(x, depth + 1) for x in t[1]]
        return None if any(b is None for b in bs) else max(bs)
    return None


def _small_plus_len(c):
    """overflow flag of a sum whose operands are bounded (small constants, bool -> usize, one Vec::len()): it cannot wrap a usize"""
    if not (c[0] == "field" and c[2] == "1" and c[1][0] == "binop" and c[1][1] == "AddWithOverflow"):
        return False
    a, b = _upper_bound(c[1][2]), _upper_bound(c[1][3])
    return a is not None and b is not None and a + b <= 2 ** 64 - 1


def _value_param(f):
    for i in range(f.arg_count):
        if f.local_ty(i + 1) == "ciborium::value::Value":
            return i
    return None


def _budget_param(f):
    for i in range(f.arg_count):
        if f.local_ty(i + 1) == "usize":
            return i
    return None


# std traits whose impls for references and containers forward a *receiver* to the same method of the element type
# (`Default::default()` of a `Vec<T>` builds no T; conversion traits have their own rules)
FORWARDING_TRAITS = ("core::cmp::PartialEq", "core::cmp::Eq", "core::cmp::PartialOrd", "core::cmp::Ord", "core::clone::Clone",
                     "core::hash::Hash", "core::fmt::Debug")


def _forwarding_targets(prog, c):
    """a call of a std trait method on a std wrapper of a crate type (`&T == &T`, `Option<T>::eq`, `Vec<T>::clone`,
    `BTreeSet<T>::cmp`): the std impl forwards to `<T as Trait>::method` of the crate.  Returns those crate functions."""
    import re
    tr, name, sty = c.get("trait"), c.get("name"), c.get("self_ty") or ""
    if not tr or not name or c.get("local") or tr not in FORWARDING_TRAITS:
        return []
    out = []
    for adt in set(re.findall(r"[A-Za-z_][A-Za-z0-9_]*(?:::[A-Za-z_][A-Za-z0-9_]*)+", sty)):
        k = "<%s as %s>::%s" % (adt, tr, name)
        if adt in prog.adts and k in prog.fns:
            out.append(k)
    return sorted(out)


def _receiver_descends(a):
    """the receiver handed on is a strict part (field / variant payload / element) of the caller's own receiver"""
    while a[0] in ("ref", "deref") or (is_call(a) and a[1].endswith("::clone") and len(a[2]) == 1):
        a = a[1] if a[0] in ("ref", "deref") else a[2][0]
    if a[0] == "phi":
        return all(_receiver_descends(x) for x in a[1])
    strict = False
    while a[0] in ("field", "variant", "ref", "deref", "index", "downcast"):
        if a[0] in ("field", "variant", "index", "downcast"):
            strict = True
        a = a[1]
    return strict and a == ("param", 0)


def _check_followup_cycles(ctx, prog, decode_sccs):
    """R-3, second half: "re-encoded, cloned, compared ... without panicking either" includes the stack.  Every call cycle of
    the crate that is NOT one of the decode cycles judged above (encoders, hand-written Clone / PartialEq / Ord impls, helpers)
    must descend through the data: on every cycle at least one call hands on a strict part of the caller's own receiver, so the
    depth is bounded by the nesting of the value (which, for a decoded value, the decode budget bounds).  Calls of a std trait
    method on `&T`, `Option<T>`, `Vec<T>`, ... count as calls of the crate's `<T as Trait>::method` (std forwards to it)."""
    cg = CallGraph(prog)
    nfwd = 0
    for f in prog.real_fns():
        for bb, t in f.calls():
            c = t.get("callee") or {}
            for tgt in _forwarding_targets(prog, c):
                cg._add(f.key, tgt, "fwd", bb)
                nfwd += 1
    ctx.count("std_forwarding_edges", nfwd)
    ctx.floor("R-3", "std forwarding edges (`&T == &T`, `Vec<T>::clone`, ...) added to the call graph", nfwd, 40)
    done = [set(c) for c in decode_sccs]
    n = 0
    for comp in cg.sccs():
        compset = set(comp)
        if any(compset <= d for d in done):
            continue
        n += 1
        problems = []
        desc = set()
        same = set()
        for k in comp:
            f = prog.fns.get(cg.def_of(k))
            if f is None or not f.blocks:
                continue
            pv = Prov(f)
            for tgt, sites in cg.edges.get(k, {}).items():
                if tgt not in compset:
                    continue
                for kind, bb in sites:
                    t = f.blocks[bb]["term"]
                    if kind in ("call", "cha", "fwd") and t["k"] == "call" and t["args"]:
                        a = pv.operand_term(t["args"][0], bb, "term")
                        (desc if _receiver_descends(a) else same).add((k, tgt))
                    else:
                        same.add((k, tgt))
        desc -= same
        sub = {k: [t for t in cg.succ(k) if t in compset and (k, t) not in desc] for k in comp}
        if _has_cycle(sub):
            cyc = sorted("%s -> %s" % e for e in same if e[0] in compset and e[1] in compset)
            problems.append("a call cycle remains in which no call hands on a strict part of its receiver: " + "; ".join(cyc)[:600])
        ctx.ob("R-3", "followup-scc:%s" % sorted(comp)[0], not problems,
               "call cycle {%s} outside the decoders (encode / clone / compare) descends through the value on every round: "
               "its depth is bounded by the nesting of the data" % ", ".join(sorted(comp)[:6]) + (" ..." if len(comp) > 6 else ""),
               where=(prog.fns.get(cg.def_of(sorted(comp)[0])).span if prog.fns.get(cg.def_of(sorted(comp)[0])) else None),
               detail={"problems": problems, "descending_edges": len(desc), "functions": sorted(comp)},
               sample={"scc": sorted(comp)[:8], "kind": "structural-descent"})
    ctx.count("followup_sccs", n)
    ctx.floor("R-3", "call cycles outside the decoders", n, 1)


def _check_scc(ctx, prog, cg, comp):
    # a helper / closure all of whose uses were expanded in place is judged inside its callers: their inlined bodies contain
    # its calls (and the recursive ones among them) with the caller's own terms
    kept = [k for k in comp if cg.def_of(k) not in prog.fully_inlined]
    if kept and len(kept) < len(comp):
        comp = kept
    name = comp[0]
    key = "scc:%s" % name
    compset = set(comp)
    F = lambda k: prog.fns[cg.def_of(k)]
    reparses = [k for k in comp if any(callee_path(t) == READ for _, t in F(k).calls())]
    if not reparses:
        # kind (a): value-structural
        problems = []
        for k in comp:
            f = F(k)
            pv = Prov(f)
            vp = _value_param(f)
            for tgt, sites in cg.edges.get(k, {}).items():
                if tgt not in compset:
                    continue
                for kind, bb in sites:
                    t = f.blocks[bb]["term"]
                    if kind == "call":
                        a = pv.operand_term(t["args"][0], bb, "term")
                    else:
                        # function passed as a value: the receiver of the consuming call is args[0]
                        a = pv.operand_term(t["args"][0], bb, "term") if t["k"] == "call" else None
                        if t["k"] == "call" and callee_path(t) != "<ciborium::value::Value as util::ValueTryAs>::try_as_array_then_convert":
                            problems.append("%s passes %s to %s (unknown higher-order use)" % (k, tgt, callee_path(t)))
                            continue
                    if a is None or vp is None:
                        problems.append("%s: cannot see the Value argument" % k)
                        continue
                    roots = [x for x in subterms(a) if x == ("param", vp)]
                    clones = [x for x in subterms(a) if is_call(x) and x[1].endswith("::clone")]
                    strict = any(is_call(x) and x[1] in (VEC_REMOVE,) or (isinstance(x, tuple) and x and x[0] in ("variant",)) for x in subterms(a))
                    if not roots or clones or not strict:
                        problems.append("%s -> %s: argument %s is not a strict sub-value of the caller's own Value" % (k, tgt, show(a)[:100]))
        ctx.ob("R-3", key, not problems,
               "call cycle {%s} does not re-enter the parser and every recursive call consumes a strict sub-Value of its argument "
               "(depth <= nesting of one parsed Value <= ciborium's 256)" % ", ".join(comp),
               detail={"problems": problems}, sample={"scc": comp, "kind": "value-structural"})
        return
    # kind (b): budgeted
    problems = []
    dec_edges = set()
    same_edges = set()
    for k in comp:
        f = F(k)
        bp = _budget_param(f)
        creator = None
        if f.kind == "Closure":
            # a closure handed to an iterator adaptor (`.map(|s| T::from_cbor_value_depth(s, depth))`): it carries the budget of the
            # function that builds it, as a captured variable; its calls are judged in that function's terms
            creator = _closure_creator(prog, cg, compset, k)
            if creator is None:
                problems.append("%s (a closure) re-enters the parser but is not built by exactly one function of the cycle" % k)
                continue
            cf, cterm = creator
            bp = _budget_param(cf)
        if bp is None:
            problems.append("%s re-enters the parser in a call cycle but has no usize budget parameter" % k)
            continue
        pv = Prov(f)
        for tgt, sites in cg.edges.get(k, {}).items():
            if tgt not in compset:
                continue
            g = F(tgt)
            gbp = _budget_param(g)
            for kind, bb in sites:
                if kind == "closure" and g.kind == "Closure":
                    continue        # building the closure passes nothing yet; its calls are judged above
                if kind != "call" or gbp is None:
                    problems.append("%s -> %s: budget is not passed (edge kind %s)" % (k, tgt, kind))
                    continue
                t = f.blocks[bb]["term"]
                a = pv.operand_term(t["args"][gbp], bb, "term")
                if creator is not None:
                    from lib.prov import subst_params, resolve_closure_fields
                    a = resolve_closure_fields(subst_params(a, [creator[1]]))
                    while a[0] in ("ref", "deref"):
                        a = a[1]
                if a == ("param", bp):
                    same_edges.add((k, tgt))     # handed on unchanged at this site
                    continue
                if _is_decrement(a, bp):
                    dec_edges.add((k, tgt))
                    continue
                problems.append("%s -> %s: budget argument %s is neither the budget nor budget.checked_sub(1)?" % (k, tgt, show(a)[:100]))
    # without the decrementing edges the component must be acyclic; an edge decrements only if EVERY call site on it does
    dec_edges -= same_edges
    if not problems:
        sub = {k: [t for t in cg.succ(k) if t in compset and (k, t) not in dec_edges] for k in comp}
        if _has_cycle(sub):
            problems.append("a cycle remains after removing the decrementing edges %s" % sorted(dec_edges))
    # entries from outside pass a small constant
    for caller, tgts in cg.edges.items():
        if caller in compset:
            continue
        for tgt, sites in tgts.items():
            if tgt not in compset:
                continue
            if cg.def_of(caller) not in prog.fns or cg.def_of(caller) in prog.fully_inlined:
                continue        # a private helper all of whose uses were expanded in place: judged in each caller
            f = prog.fns[cg.def_of(caller)]
            g = F(tgt)
            gbp = _budget_param(g)
            pv = Prov(f)
            for kind, bb in sites:
                if kind != "call" or gbp is None:
                    problems.append("%s enters the cycle at %s without a budget" % (caller, tgt))
                    continue
                t = f.blocks[bb]["term"]
                from lib.prov import resolve_consts
                a = resolve_consts(prog, pv.operand_term(t["args"][gbp], bb, "term"))
                if not (a[0] == "const" and isinstance(a[1], int) and 0 <= a[1] <= MAX_ENTRY_BUDGET):
                    problems.append("%s enters the cycle with budget %s (need a constant <= %d)" % (caller, show(a)[:60], MAX_ENTRY_BUDGET))
    ctx.ob("R-3", key, not problems,
           "call cycle {%s} re-enters the CBOR parser (fresh 256 budget) and is bounded by a decremented depth budget" % ", ".join(comp),
           detail={"problems": problems, "decrementing_edges": sorted(dec_edges)},
           sample={"scc": comp, "kind": "budgeted", "decrementing_edges": sorted(dec_edges)})


def _closure_creator(prog, cg, compset, ck):
    """(function, closure term as built there) for a closure node of a call cycle, if exactly one function of the cycle builds it"""
    made = []
    for k in compset:
        f = prog.fns[cg.def_of(k)]
        if f.kind == "Closure":
            continue
        pv = None
        for bi, b in enumerate(f.blocks):
            if b["cleanup"]:
                continue
            for si, s in enumerate(b["stmts"]):
                if s["k"] == "assign" and s["rv"]["k"] == "aggr" and s["rv"].get("kind") == "closure" and s["rv"]["closure"] == ck:
                    pv = pv or Prov(f)
                    made.append((f, pv.rvalue_term(s["rv"], bi, si)))
    return made[0] if len(made) == 1 else None


def _is_decrement(a, bp):
    """the Some payload of budget.checked_sub(1): `budget.checked_sub(1).ok_or(err)?`, `match budget.checked_sub(1)
    { Some(d) => d, None => return Err(..) }`, `let Some(d) = .. else { return .. }` - whatever happens in the None
    case, a call that receives this value received budget - 1 with budget >= 1"""
    x = None
    if a[0] == "tryok" and is_call(a[1]) and a[1][1].endswith("::ok_or"):
        x = a[1][2][0]
    elif a[0] == "field" and a[2] == "0" and a[1][0] == "variant" and a[1][2] == "Some":
        x = a[1][1]
    return x is not None and is_call(x) and x[1].endswith("::checked_sub") and x[2][0] == ("param", bp) and x[2][1] == ("const", 1)


def _has_cycle(g):
    color = {}

    def dfs(u):
        color[u] = 1
        for v in g.get(u, []):
            if color.get(v) == 1:
                return True
            if v not in color and dfs(v):
                return True
        color[u] = 2
        return False
    return any(dfs(u) for u in list(g) if u not in color)


def thorough(ctx):
    """re-derive the facts about the pinned ciborium that this property leans on (DESIGN section 9)"""
    from rules import audit
    audit.audit(ctx, "R-audit", ['recursion'])
