"""C15 - integers are decoded exactly or rejected as out of range, never wrapped."""
from lib.prov import Prov, show, is_call, subterms, INT_RANGES
from lib.guards import outcomes
from lib.facts import callee_path

REGISTER = True
META = {
    "level": "proof",
    "decides": "R-1 every value of ciborium's Integer type in the crate is only moved, wrapped back into Value::Integer, or "
               "narrowed by TryInto::<i64|u64>::try_into whose result goes through `?` (6 narrowing sites, each with the target "
               "width the position requires); no 128-bit integer local exists; R-2 every numeric `as` cast in the crate "
               "(functions and const items) has an enum discriminant or a constant as operand and all discriminants / the "
               "constant fit the target type; R-3 From<TryFromIntError> for CoseError is the constant OutOfRangeIntegerValue and "
               "the residual converted at each narrowing site is TryFromIntError; R-4 integers reach the output only through "
               "Value::from(i64|u64) / i64::into(Integer) with no arithmetic on the way; R-5 at every call of a crate-local function from which a "
               "narrowing site is reachable, the Err side of each test of the result (`?`, match) reaches no success exit, and no "
               "combinator replaces the error by a value; R-6 the default class of each map decoder pushes (label, value) unchanged and "
               "has no reject site of its own (uninterpreted integers are preserved).",
    "does_not_decide": "that ciborium's TryFrom<Integer> for i64/u64 is checked and From<i64|u64> lossless (dependency; trusted), "
                       "and that uninterpreted integers in extra parameters survive (they are never touched: C08 R-1)",
    "trusted_base": ["ciborium::value::integer::Integer TryFrom/From implementations", "rustc MIR cast semantics"],
}
META["decides"] += ' (As built: a narrowing may also be followed by an explicit map_err to OutOfRangeIntegerValue; a signed->unsigned cast of a value that the selecting guard proves non-negative is exact.)'
META["decides"] += ' (R-1 also accepts the narrowing written as an explicit match that returns the out-of-range error.)'

INTEGER = "ciborium::value::integer::Integer"
TRY_FROM = "core::convert::TryFrom::try_from"
TRY_INTO = "core::convert::TryInto::try_into"
# position -> required target type of the narrowing
NARROW_TARGET = {
    "<common::Label as common::AsCborValue>::from_cbor_value": "i64",
    "<common::RegisteredLabel<T> as common::AsCborValue>::from_cbor_value": "i64",
    "<common::RegisteredLabelWithPrivate<T> as common::AsCborValue>::from_cbor_value": "i64",
    "<context::PartyInfo as common::AsCborValue>::from_cbor_value": "i64",
    "<context::SuppPubInfo as common::AsCborValue>::from_cbor_value": "u64",
    "<cwt::Timestamp as common::AsCborValue>::from_cbor_value": "i64",
}


def _ty_of_operand(f, op):
    if op["k"] in ("copy", "move"):
        p = op["place"]
        if not p["p"]:
            return f.local_ty(p["l"])
        last = p["p"][-1]
        if last[0] == "field":
            return last[3]
        return None
    return op.get("ty")


def _provably_nonneg(f, pv, op, bb, idx):
    from lib import codec
    from lib.guards import conditions, normalize_bool_cond
    if op["k"] not in ("copy", "move") or op["place"]["p"]:
        return False
    # the definitions of the operand itself (not chased through copies: the block of each definition is the arm that chose it)
    arms = []
    l = op["place"]["l"]
    for _ in range(6):
        ds = list(pv.reaching(l, bb, idx))
        if len(ds) == 1 and ds[0] != -1:
            _, dbb, didx, payload = pv._defs[ds[0]]
            if didx != "term" and payload["k"] == "use" and payload["op"]["k"] in ("copy", "move") and not payload["op"]["place"]["p"] \
                    and len(pv.reaching(payload["op"]["place"]["l"], dbb, didx)) > 1:
                l, bb, idx = payload["op"]["place"]["l"], dbb, didx      # a plain move of the value that was chosen earlier
                continue
        break
    for di in pv.reaching(l, bb, idx):
        if di == -1:
            return False
        arms.append((pv.def_term(di), pv._defs[di][1]))
    if not arms:
        return False
    for term, dbb in arms:
        if term[0] == "const" and isinstance(term[1], int) and term[1] >= 0:
            continue
        neg = term[0] == "unop" and term[1] == "Not"
        x = term[2] if neg else term
        proved = False
        for c in conditions(f, pv, dbb):
            nb = normalize_bool_cond(c)
            if not nb:
                continue
            t, val = nb
            if t[0] == "binop" and t[2] == x and t[3] == ("const", 0):
                is_negative = {"Lt": val, "Ge": not val}.get(t[1])
                if is_negative is not None and is_negative == neg:
                    proved = True
            if is_call(t) and t[1].endswith("::is_negative") and t[2] == (x,) and val == neg:
                proved = True
        if not proved:
            return False
    return True


def check(ctx):
    prog = ctx.prog
    fns = prog.real_fns()
    # ---- R-1 ----------------------------------------------------------------------
    narrow = []
    for f in fns:
        if f.key in prog.fully_inlined:
            continue      # a private helper analysed where it is used
        big = [l["ty"] for l in f.locals if l["ty"] in ("i128", "u128")]
        if big:
            ctx.ob("R-1", "no-128-bit-local:%s" % f.key, False, "no i128/u128 local in %s" % f.key, where=f.span)
        pv = None
        for bb, t in f.calls():
            tys = [_ty_of_operand(f, a) for a in t["args"]]
            if not any(ty and ty.replace("&", "").replace("mut ", "").strip() == INTEGER for ty in tys):
                continue
            name = callee_path(t)
            c = t.get("callee") or {}
            if name == TRY_INTO or (name == TRY_FROM and len(c.get("args", [])) > 1 and c["args"][1] == INTEGER):
                # `i.try_into()` and `i64::try_from(i)` are the same checked conversion (TryInto is the blanket impl over TryFrom)
                tgt = (c["args"][1] if name == TRY_INTO else c["args"][0]) if len(c.get("args", [])) > 1 else None
                pv = pv or Prov(f)
                # result must be the operand of a `?`
                res = pv.call_term(bb)
                through_try = False
                residual_ok = False
                explicit = False
                # `.map(f)` on the way leaves the Err side alone: the values the narrowing's error travels in
                carriers = {res}
                grew = True
                while grew:
                    grew = False
                    for b2, t2 in f.calls():
                        if callee_path(t2) == "core::result::Result::<T, E>::map" and pv.operand_term(t2["args"][0], b2, "term") in carriers \
                                and pv.call_term(b2) not in carriers:
                            carriers.add(pv.call_term(b2))
                            grew = True
                for b2, t2 in f.calls():
                    if callee_path(t2) == "core::ops::try_trait::Try::branch" and pv.operand_term(t2["args"][0], b2, "term") in carriers:
                        through_try = True
                    # `i.try_into().map_err(|_| CoseError::OutOfRangeIntegerValue)` / `.map_err(CoseError::from)`: the same mapping
                    # written out, then `?` / return
                    if callee_path(t2) == "core::result::Result::<T, E>::map_err" and pv.operand_term(t2["args"][0], b2, "term") in carriers:
                        from lib.codec import apply_fn
                        mapped = apply_fn(prog, pv.operand_term(t2["args"][1], b2, "term"), [("x",)])
                        via_from = bool(mapped) and is_call(mapped) and mapped[1] in (
                            "<common::CoseError as core::convert::From<core::num::error::TryFromIntError>>::from",) or (
                            bool(mapped) and is_call(mapped, "core::convert::From::from") and "TryFromIntError" in str(
                                (t2.get("callee") or {}).get("full", "")) and "common::CoseError" in str((t2.get("callee") or {}).get("full", "")))
                        if mapped == ("aggr", "common::CoseError", "OutOfRangeIntegerValue", ()) or via_from:
                            ms = {pv.call_term(b2)}
                            grew = True
                            while grew:
                                grew = False
                                for b4, t4 in f.calls():
                                    if callee_path(t4) == "core::result::Result::<T, E>::map" and pv.operand_term(t4["args"][0], b4, "term") in ms \
                                            and pv.call_term(b4) not in ms:
                                        ms.add(pv.call_term(b4))
                                        grew = True
                            used = [b3 for b3, t3 in f.calls() if callee_path(t3) == "core::ops::try_trait::Try::branch"
                                    and pv.operand_term(t3["args"][0], b3, "term") in ms]
                            rets = pv.return_term()
                            returned = any(o["term"] in ms for o in outcomes(f, pv) if o["kind"] in ("call", "value")) or rets in ms or (
                                rets[0] == "phi" and any(x in ms for x in rets[1]))
                            if used or returned:
                                through_try = explicit = True
                if not through_try:
                    # `match i.try_into() { Ok(i) => i, Err(_) => return Err(CoseError::OutOfRangeIntegerValue) }`: the Err side of
                    # the test reaches no success exit and every error it constructs is the out-of-range error
                    from lib.guards import edge_condition, cond_variants, reach_tracking_failures
                    outs = outcomes(f, pv)
                    for d, blk in enumerate(f.blocks):
                        if blk["cleanup"] or blk["term"]["k"] != "switch":
                            continue
                        for s in set(f.cfg.succ[d]):
                            c = edge_condition(f, pv, d, s)
                            cv = cond_variants(prog, pv, c) if c else None
                            if not cv or cv[0] != res or not cv[1] or not cv[1] <= {"Err"}:
                                continue
                            seen = reach_tracking_failures(f, s, {bb})
                            made = [o for o in outs if o["bb"] in seen]
                            errs = [o for o in made if o["kind"] == "err"]
                            if errs and all(o["kind"] == "err" and o["inner"] == OUT_OF_RANGE for o in made):
                                through_try = explicit = True
                for b2, t2 in f.calls():
                    if callee_path(t2) == "core::ops::try_trait::FromResidual::from_residual":
                        a = pv.operand_term(t2["args"][0], b2, "term")
                        if any(x == res for x in subterms(a)):
                            residual_ok = "core::num::error::TryFromIntError" in (t2["callee"]["full"])
                narrow.append((f, bb, tgt))
                want = NARROW_TARGET.get(f.key)
                ctx.ob("R-1", "narrowing:%s" % f.key, tgt in ("i64", "u64") and through_try and (want is None or want == tgt),
                       "Integer narrowed by checked try_into::<%s> whose result goes through `?`%s" % (
                           tgt, "" if want is None else " (position requires %s)" % want),
                       where=f.where(bb), detail={"target": tgt, "through_try": through_try},
                       sample={"fn": f.key, "target": tgt})
                ctx.ob("R-3", "residual:%s" % f.key, residual_ok or explicit,
                       "the error converted at this narrowing site is TryFromIntError (-> OutOfRangeIntegerValue)", where=f.where(bb))
            elif name and name.startswith("util::cbor_type_error"):
                continue
            elif name == "core::ops::try_trait::Try::branch" or name == "core::ops::try_trait::FromResidual::from_residual":
                continue
            else:
                ctx.ob("R-1", "integer-use:%s:%s" % (f.key, name), False,
                       "a ciborium Integer is handed to %s (only checked try_into is allowed)" % name, where=f.where(bb))
    LABEL_DEC = "<common::Label as common::AsCborValue>::from_cbor_value"
    via_label = set()
    for key in NARROW_TARGET:
        f = prog.fns.get(key)
        if f is not None and key != LABEL_DEC and not any(g.key == key for g, _, _ in narrow):
            # the position may share the checked narrowing of the plain Label: `match Label::from_cbor_value(value)? { Int(i) => ..`
            pvk = Prov(f)
            if any(callee_path(t) == LABEL_DEC and pvk.operand_term(t["args"][0], bb, "term") == ("param", 0) for bb, t in f.calls()):
                via_label.add(key)
    for key in NARROW_TARGET:
        ctx.ob("R-1", "site-present:%s" % key, any(f.key == key for f, _, _ in narrow) or key in via_label,
               "integer-interpreting position %s narrows through try_into (itself, or through Label::from_cbor_value of its argument)" % key,
               kind="missing-anchor")
    ctx.floor("R-1", "narrowing sites", len(narrow) + len(via_label), 6)

    # ---- R-2 casts --------------------------------------------------------------------
    ncast = 0
    for f in list(fns) + prog.const_items():
        pv = None
        for bi, b in enumerate(f.blocks):
            if b["cleanup"]:
                continue
            for si, s in enumerate(b["stmts"]):
                if s["k"] != "assign" or s["rv"]["k"] != "cast":
                    continue
                rv = s["rv"]
                if rv["kind"] not in ("IntToInt", "FloatToInt", "IntToFloat", "FloatToFloat"):
                    continue
                ncast += 1
                pv = pv or Prov(f)
                inner = pv.operand_term(rv["op"], bi, si)
                ok = False
                why = show(inner)[:80]
                rng = INT_RANGES.get(rv["ty"])
                if rv["kind"] == "IntToInt" and rng:
                    if inner[0] == "const" and isinstance(inner[1], int):
                        ok = rng[0] <= inner[1] <= rng[1]
                    elif inner[0] == "discr":
                        adt = pv.discr_adt.get(inner)
                        ds = prog.enums.get(adt) if adt else None
                        if ds:
                            ok = all(rng[0] <= d <= rng[1] for d in ds)
                            why = "discriminant of %s (%d variants, range %d..%d)" % (adt, len(ds), min(ds), max(ds))
                if not ok and rv["kind"] == "IntToInt" and rng and rv["from_ty"] in INT_RANGES:
                    # signed -> unsigned of the same or a larger width is exact when the value is provably non-negative:
                    # every definition is a non-negative constant, `x` under the decision `!(x < 0)`, or `!x` (= -1-x) under `x < 0`
                    src = INT_RANGES[rv["from_ty"]]
                    if rng[0] == 0 and src[0] < 0 and rng[1] >= src[1]:
                        ok = _provably_nonneg(f, pv, rv["op"], bi, si)
                        if ok:
                            why = "non-negative on every path (guarded by a sign test)"
                if not ok:
                    ctx.ob("R-2", "cast:%s:%s->%s" % (f.key, rv["from_ty"], rv["ty"]), False,
                           "numeric cast %s -> %s of a value that is not an enum discriminant/constant fitting the target: %s" % (
                               rv["from_ty"], rv["ty"], why), where="%s:%s" % (f.file, s.get("line")))
    ctx.ob("R-2", "all-casts-lossless", True, "all %d numeric casts are of enum discriminants / constants that fit the target type" % ncast,
           sample={"casts": ncast})
    ctx.floor("R-2", "numeric casts", ncast, 20)

    from rules import extractors as _ex
    _ex.check_extractors(ctx.under("R-1", "extractors"), "R-1", only={"try_as_integer"})      # the Integer narrowed is the item's own
    # ---- R-3 -------------------------------------------------------------------------
    conv = prog.fn("<common::CoseError as core::convert::From<core::num::error::TryFromIntError>>::from")
    rt = Prov(conv).return_term()
    ctx.ob("R-3", "out-of-range-error", rt == ("aggr", "common::CoseError", "OutOfRangeIntegerValue", ()),
           "From<TryFromIntError> for CoseError returns OutOfRangeIntegerValue", where=conv.span, detail={"return": show(rt)})

    # ---- R-4 widening -------------------------------------------------------------------
    nw = 0
    for f in fns:
        pv = None
        for bb, t in f.calls():
            c = t.get("callee") or {}
            full = c.get("full", "")
            if not (full.startswith("<ciborium::value::Value as core::convert::From<") or "core::convert::Into<ciborium::value::integer::Integer>" in full
                    or full.startswith("<ciborium::value::integer::Integer as core::convert::From<")):
                continue
            src = c["args"][1] if full.startswith("<ciborium") else c["args"][0]
            if src not in INT_RANGES and src not in ("f64", "f32", "bool"):
                continue
            nw += 1
            pv = pv or Prov(f)
            a = pv.operand_term(t["args"][0], bb, "term")
            arith = [x for x in subterms(a) if isinstance(x, tuple) and x and x[0] in ("binop", "unop")]
            casts = [x for x in subterms(a) if isinstance(x, tuple) and x and x[0] == "cast" and x[1] == "IntToInt" and x[2][0] != "discr"]
            anycast = [x for x in subterms(a) if isinstance(x, tuple) and x and x[0] == "cast" and x[1] != "PointerCoercion"]
            # (`Value::from(f)` of a float that is a float already is `Value::Float(f)`: no integer is involved)
            ctx.ob("R-4", "widening:%s:%s" % (f.key, src), (src in ("i64", "u64") and not arith and not casts) or (src == "f64" and not arith and not anycast),
                   "integer reaches the output through a lossless From<%s> with no arithmetic on the way" % src,
                   where=f.where(bb), detail={"value": show(a)[:120]}, sample={"fn": f.key, "value": show(a)[:120], "via": full})
    ctx.floor("R-4", "widening sites", nw, 9)

    # ---- R-5 the rejection reaches the caller ---------------------------------------------------------------------------
    check_rejections_propagate(ctx, "R-5", {f.key for f, _, _ in narrow})

    # ---- R-6 integers the crate does not interpret are preserved ----------------------------------------------------------
    # the value of an extra parameter (any label outside the typed ones) is stored as received and never looked into: the
    # default class of each map decoder has one effect - push((label, value)) - and no reject site of its own
    from lib.mapcodec import MapDecoder
    from lib import codec as _codec
    for key, extras in (("header::Header::from_cbor_value_depth", "rest"),
                        ("<key::CoseKey as common::AsCborValue>::from_cbor_value", "params"),
                        ("<cwt::ClaimsSet as common::AsCborValue>::from_cbor_value", "rest")):
        f = prog.fn(key)
        md = MapDecoder(prog, f)
        if md.problem:
            ctx.cannot("R-6", "extras-untouched:%s" % key, "%s: %s" % (key, md.problem), where=f.span)
            continue
        dflt = []
        for cls, effs in md.table.items():
            if md.class_name(cls) == "default":
                dflt.extend(effs)
        pushed = (len(dflt) == 1 and dflt[0][0] == extras and dflt[0][1]["kind"] == "call" and dflt[0][1]["callee"] == _codec.VEC_PUSH
                  and md.sym(dflt[0][1]["args"][1]) == ("tuple", (("sym", "label"), ("sym", "value"))))
        rejects = sorted({k for c, k, o in md.reject_sites() if c == "default"})
        ctx.ob("R-6", "extras-untouched:%s" % key, pushed and not rejects,
               "an entry with any other label is stored as (label, value) unchanged and is rejected for nothing that depends on its "
               "value (integers of any magnitude inside it survive)", where=f.span,
               detail={"default_arm_effects": [(fl, e.get("callee")) for fl, e in dflt], "reject_sites_of_the_default_class": rejects})


TRY_BRANCH = "core::ops::try_trait::Try::branch"
OUT_OF_RANGE = ("aggr", "common::CoseError", "OutOfRangeIntegerValue", ())


def _failure_side(f, start, site):
    from lib.guards import reach_tracking_failures
    return reach_tracking_failures(f, start, {site})


def check_rejections_propagate(ctx, rule, narrowing_fns, variants=("OutOfRangeIntegerValue",), what="an out-of-range integer", floor=20):
    """no caller turns the rejection of an integer into acceptance.

    S = crate-local functions from which a narrowing site (or a literal OutOfRangeIntegerValue) is reachable in the call
    graph.  At every call of a member of S whose result is tested (`?`, `match`, `if let`), the blocks on the Err side of
    the test must not reach a definition of a success return value without passing through the call again; and the result
    must not be the receiver of a combinator chain whose Err case reduces to anything but an Err."""
    from lib.callgraph import CallGraph
    from lib.guards import edge_condition, cond_variants
    from lib import combinators as cb
    prog = ctx.prog
    cg = CallGraph(prog)
    seeds = set(narrowing_fns)
    for f in prog.real_fns():
        for b in f.blocks:
            for s in b["stmts"]:
                if s["k"] == "assign" and s["rv"]["k"] == "aggr" and s["rv"].get("adt") == "common::CoseError" \
                        and (variants is None or s["rv"].get("variant") in variants):
                    seeds.add(f.key)
    # reverse reachability over call edges (not fnref/closure creation: those are followed when called)
    rev = {}
    for a, m in cg.edges.items():
        for b in m:
            rev.setdefault(cg.def_of(b), set()).add(a)
            rev.setdefault(b, set()).add(a)
    S = set()
    st = list(seeds)
    while st:
        x = st.pop()
        if x in S:
            continue
        S.add(x)
        st.extend(rev.get(x, ()))
        st.extend(rev.get(cg.def_of(x), ()))
    S_defs = {cg.def_of(x) for x in S} | S
    nsites = ntests = 0
    for f in prog.real_fns():
        if f.key in prog.fully_inlined or not f.blocks:
            continue
        sites = set()
        for tgt, uses in cg.edges.get(f.key, {}).items():
            if tgt in S_defs or cg.def_of(tgt) in S_defs:
                sites.update(bb for kind, bb in uses if kind in ("call", "cha"))
        sites = {bb for bb in sites if "Result<" in (f.local_ty(f.blocks[bb]["term"]["dest"]["l"]) or "")
                 and not f.blocks[bb]["term"]["dest"]["p"]}
        if not sites:
            continue
        nsites += len(sites)
        pv = Prov(f)

        def site_of(x):
            """block of the S-call whose Result the term x is"""
            if x[0] == "call" and len(x) > 3 and x[3][0] == f.key and x[3][1] in sites:
                return x[3][1]
            return None

        returns_result = "Result<" in (f.local_ty(0) or "")
        okdefs = [o for o in outcomes(f, pv) if o["kind"] == "ok"] if returns_result else None
        for d, blk in enumerate(f.blocks):
            if blk["cleanup"] or blk["term"]["k"] != "switch" or d not in f.cfg.reach:
                continue
            for s in set(f.cfg.succ[d]):
                c = edge_condition(f, pv, d, s)
                cv = cond_variants(prog, pv, c) if c else None
                if not cv:
                    continue
                subj, names = cv
                site = None
                if names and names <= {"Err"}:
                    site = site_of(subj)
                elif names and names <= {"Break"} and is_call(subj, TRY_BRANCH):
                    site = site_of(subj[2][0])
                if site is None:
                    continue
                ntests += 1
                seen = _failure_side(f, s, site)
                if returns_result:
                    bad = [o for o in okdefs if o["bb"] in seen]
                    where_bad = ["line %s" % o["line"] for o in bad]
                else:
                    bad = [x for x in seen if f.blocks[x]["term"]["k"] == "return"]
                    where_bad = ["the normal return"] if bad else []
                callee = callee_path(f.blocks[site]["term"])
                ctx.ob(rule, "propagates:%s:%s" % (f.key, callee), not bad,
                       "a rejection by %s (which can be %s) leaves %s as an error: no success exit is "
                       "reachable from the Err side of the test" % (callee, what, f.key), where=f.where(site),
                       detail={"test_block": d, "success_exits_reached": where_bad})
        # combinator chains on the result
        for bb, t in f.calls():
            ct = pv.call_term(bb)
            if not cb.is_combinator(ct):
                continue
            recv = ct
            while cb.is_combinator(recv):
                recv = recv[2][0]
            if site_of(recv) is None:
                continue
            for conds, v in cb.reduce(prog, ct):
                errcase = any(cs == recv and k == "variant" and set(vs) <= {"Err"} for cs, k, vs in conds)
                if not errcase:
                    continue
                k = cb._ctor(v)
                if k and k[1] == "None" and f.kind == "Closure" and any(s == ct for s in subterms(pv.return_term())):
                    # `.filter_map(|v| T::from_cbor_value(v).ok())`: the closure hands the None to an adaptor that drops the element
                    ntests += 1
                    ctx.ob(rule, "propagates:%s:%s" % (f.key, callee_path(f.blocks[site_of(recv)]["term"])), False,
                           "a rejection by %s is discarded with `.ok()` in a closure that returns the Option (%s)" % (
                               callee_path(f.blocks[site_of(recv)]["term"]), f.key), where=f.where(bb))
                    continue
                if k and k[1] in ("Err", "None"):
                    continue        # still a failure (None: an Option the caller has to test; not judged here)
                if v[0] == "field" and v[1][0] == "variant" and v[1][2] == "Err":
                    continue        # the error value itself (e.g. `.err()`, `.unwrap_err()`)
                ntests += 1
                ctx.ob(rule, "propagates:%s:%s" % (f.key, callee_path(f.blocks[site_of(recv)]["term"])), False,
                       "a rejection by %s is replaced by %s in %s" % (callee_path(f.blocks[site_of(recv)]["term"]), show(v)[:60], f.key),
                       where=f.where(bb))
    ctx.count("calls whose rejection can be %s" % what, nsites)
    ctx.count("tests of such results (`?`, match)", ntests)
    ctx.floor(rule, "tested calls whose rejection can be %s" % what, ntests, floor)


def thorough(ctx):
    """re-derive the facts about the pinned ciborium that this property leans on (DESIGN section 9)"""
    from rules import audit
    audit.audit(ctx, "R-audit", ['integers'])
