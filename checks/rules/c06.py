"""C06 - what is signed, MACed or encrypted is what is later verified or decrypted."""
from lib.prov import Prov, show, is_call, subterms
from lib.guards import outcomes
from lib.facts import callee_path
from rules import structs_common as S
from rules.c11 import check_is_empty, check_cbor_bstr
from spec.rfc8152 import HELPERS, ROUTING, STRUCTURES

REGISTER = True
META = {
    "level": "other",
    "explanation": "Sibling cross-check of the create-side and verify-side helpers (Engler-style): both sides are reduced to the abstract "
                   "argument tuple that reaches the structure function, which must agree; plus effect summaries of where the closure "
                   "result is stored / returned. The wire survival half of the property is C02 + C07 + ciborium, so the level is 'other'.",
    "decides": "R-1 for each carrier the structure reached from every create helper and from every verify/decrypt helper is built by the "
               "same function from the same abstract arguments (context constant, the message's own protected header, signer header, AAD "
               "parameter, payload source), embedded and detached variants differing only in the payload slot; R-2 the create helper "
               "stores the closure's result in exactly the field the verify helper hands over first (signature / sig.signature then "
               "pushed / tag / ciphertext = Some); R-3 verify/decrypt return the closure's return value itself; R-4 in the fallible "
               "variants the closure's Err is propagated before anything is stored; R-5 the crate has no statics and no interior " 
               "mutability, so helpers depend only on the builder's current value.",
    "does_not_decide": "(as built: the carrier codec tables are re-checked under R-6; what remains undecided is ciborium\'s own round trip) that the protected headers and payload survive the wire for all contents (C02 + C07 + ciborium); the perturbation "
                       "clause (any change of AAD/payload/header changes the bytes) is a corollary of C03-C05 injectivity, not checked",
    "trusted_base": ["C02, C03-C05, C07", "ciborium round trip of byte strings"],
}
META["decides"] += ' (As built: every helper is analysed with all crate-local callees expanded in place; the stored value is the effect on self.<field> of the expanded body.)'
META["decides"] += " R-6 (serialise and parse back): the encoder / decoder tables of the eight carrier types are mutually inverse (C07's recogniser); derived Clone."

# carrier -> (create helpers, verify helpers) that must agree
FAMILIES = {
    "CoseSign1": (["sign::CoseSign1Builder::create_signature", "sign::CoseSign1Builder::try_create_signature"], ["sign::CoseSign1::verify_signature"]),
    "CoseSign1-detached": (["sign::CoseSign1Builder::create_detached_signature", "sign::CoseSign1Builder::try_create_detached_signature"],
                           ["sign::CoseSign1::verify_detached_signature"]),
    "CoseSign": (["sign::CoseSignBuilder::add_created_signature", "sign::CoseSignBuilder::try_add_created_signature"], ["sign::CoseSign::verify_signature"]),
    "CoseSign-detached": (["sign::CoseSignBuilder::add_detached_signature", "sign::CoseSignBuilder::try_add_detached_signature"],
                          ["sign::CoseSign::verify_detached_signature"]),
    "CoseMac": (["mac::CoseMacBuilder::create_tag", "mac::CoseMacBuilder::try_create_tag"], ["mac::CoseMac::verify_tag"]),
    "CoseMac0": (["mac::CoseMac0Builder::create_tag", "mac::CoseMac0Builder::try_create_tag"], ["mac::CoseMac0::verify_tag"]),
    "CoseEncrypt": (["encrypt::CoseEncryptBuilder::create_ciphertext", "encrypt::CoseEncryptBuilder::try_create_ciphertext"], ["encrypt::CoseEncrypt::decrypt"]),
    "CoseEncrypt0": (["encrypt::CoseEncrypt0Builder::create_ciphertext", "encrypt::CoseEncrypt0Builder::try_create_ciphertext"], ["encrypt::CoseEncrypt0::decrypt"]),
    "CoseRecipient": (["encrypt::CoseRecipientBuilder::create_ciphertext", "encrypt::CoseRecipientBuilder::try_create_ciphertext"], ["encrypt::CoseRecipient::decrypt"]),
}


def _role_view(prog, key, tup):
    """replace parameter positions by their role names so create- and verify-side tuples are comparable"""
    f = prog.fn(key)
    names = {}
    for i in range(f.arg_count):
        n = f.local_name(i + 1) or "p%d" % i
        names[i] = {"external_aad": "aad"}.get(n, n)

    def go(t):
        if not isinstance(t, tuple) or not t:
            return t
        if t[0] == "P":
            return ("ROLE", names.get(t[1], "p%d" % t[1]))
        if t[0] == "call":
            if t[1] == "core::ops::index::Index::index":
                return ("ROLE", "sig")      # &self.signatures[which]  ==  the signer being processed
            return ("call", t[1], tuple(go(a) for a in t[2]))
        if t[0] == "aggr":
            return ("aggr", t[1], t[2], tuple((n, go(x)) for n, x in t[3]))
        if t[0] in ("field", "variant"):
            return (t[0], go(t[1]), t[2])
        if t[0] == "tuple":
            return ("tuple", tuple(go(x) for x in t[1]))
        return t
    return (tup[0],) + tuple(go(x) for x in tup[1:])


def check_helpers(ctx, builders_only=False):
    """R-1 .. R-4 per create / verify helper.  builders_only: the creating methods of the builders, judged as builder calls
    (C19: the caller's function is called once, its result stored in the documented field and nothing else touched, the builder
    returned, the detached variants refusing when a payload is embedded)"""
    for key, h in sorted(HELPERS.items()):
        if builders_only and "Builder::" not in key:
            continue
        r = S.check_helper(ctx, "R-1", key, h, guards_only=builders_only)
        if r is None:
            continue
        f, pv, bb, args, struct_t = r
        call_t = pv.call_term(bb)
        outs = outcomes(f, pv)
        if h["kind"] in ("verify", "decrypt"):
            ok = len(outs) == 1 and outs[0]["kind"] == "call" and outs[0]["term"] == call_t
            ctx.ob("R-3", "returns-closure-result:%s" % key, ok, "%s returns exactly the caller's function result" % key, where=f.where(bb),
                   detail={"outcomes": [(o["kind"], show(o["term"])[:100]) for o in outs]})
            continue
        fallible = h["fallible"]
        produced = ("tryok", call_t) if fallible else call_t
        # `match f(..) { Ok(v) => .., Err(e) => Err(e) }` is `f(..)?` spelled out (E is the caller's own type parameter)
        OKP = ("field", ("variant", call_t, "Ok"), "0")
        ERRP = ("field", ("variant", call_t, "Err"), "0")

        def same_produced(v, want):
            if v == want:
                return True
            if fallible and want == produced:
                return v == OKP
            if fallible and want[0] == "aggr" and v[0] == "aggr" and v[:3] == want[:3] and len(v[3]) == 1:
                return v[3][0][1] in (produced, OKP)
            return False
        problems = []
        S0 = ("field", ("param", 0), "0")
        effs = pv.effects()
        if h["kind"] == "create-sig":
            st = [e for e in effs if e["kind"] == "assign"]
            ok_store = len(st) == 1 and st[0]["place"] == ("field", ("param", 1), "signature") and same_produced(st[0]["value"], produced)
            if not ok_store:
                problems.append("the closure result is not stored into sig.signature: %s" % [(show(e["place"]), show(e["value"])[:60]) for e in st])
            adds = [e for e in effs if e["kind"] == "call" and e["callee"] == "alloc::vec::Vec::<T, A>::push"
                    and e["place"] == ("field", S0, "signatures") and e["args"][1] == ("param", 1)]
            rest = [e for e in effs if e not in st and e not in adds]
            if len(adds) != 1:
                problems.append("the completed signature is not added to self.signatures exactly once")
            elif st and not f.cfg.dominates(st[0]["bb"], adds[0]["bb"]):
                problems.append("sig is added before its signature is stored")
            if rest:
                problems.append("other effects: %s" % [(e.get("callee") or "assign", show(e["place"])[:50]) for e in rest])
        else:
            fld = h["stores"]
            want_val = produced if fld != "ciphertext" else ("aggr", "core::option::Option", "Some", (("0", produced),))
            st = [e for e in effs if e["kind"] == "assign" and e["place"] == ("field", S0, fld)]
            rest = [e for e in effs if e not in st]
            if len(st) != 1 or not same_produced(st[0]["value"], want_val):
                problems.append("the closure result is not stored in self.%s: %s" % (fld, [(show(e["place"]), show(e["value"])[:80]) for e in effs if e["kind"] == "assign"]))
            if rest:
                problems.append("other effects: %s" % [(e.get("callee") or "assign", show(e["place"])[:50]) for e in rest])
        rets = [o for o in outs if o["kind"] in ("ok", "value")]
        if not rets or any((o["inner"] if o["kind"] == "ok" else o["term"]) != ("param", 0) for o in rets):
            problems.append("does not return the builder itself")
        ctx.ob("R-2", "stores-result:%s" % key, not problems,
               "%s stores the caller's function result in `%s`, the field the verify/decrypt helper hands over" % (key, h["stores"]),
               where=f.where(bb), detail={"problems": problems})
        if fallible:
            props = [o for o in outs if o["kind"] == "propagate" and o["inner"] == call_t] + \
                [o for o in outs if o["kind"] == "err" and o["inner"] == ERRP]
            ok = len(props) == 1 and len([o for o in outs if o["kind"] in ("err", "propagate")]) == 1
            ctx.ob("R-4", "error-propagated:%s" % key, ok, "%s returns the creator function's error and no message" % key, where=f.where(bb),
                   detail={"outcomes": [(o["kind"], show(o["term"])[:80]) for o in outs]})


def check(ctx):
    # every helper is analysed in the all-inlined view: what it does, not how the work is split into functions
    prog = ctx.prog.view("all")
    # R-1 sibling agreement
    for fam, (creates, verifies) in sorted(FAMILIES.items()):
        views = {}
        for k in creates + verifies:
            a = S.abstract_structure(prog, k)
            views[k] = _role_view(prog, k, a[0]) if a else None
        vals = list(views.values())
        same = all(v is not None for v in vals) and all(v == vals[0] for v in vals)
        ctx.ob("R-1", "siblings:%s" % fam, same,
               "%s: all %d create/verify helpers build their structure from the same abstract arguments" % (fam, len(vals)),
               detail={k: show(v)[:300] if v else None for k, v in views.items()},
               sample={"family": fam, "structure": show(vals[0])[:300] if vals[0] else None})
    check_helpers(ctx)
    # verify side's stored field == create side's stores
    for fam, (creates, verifies) in sorted(FAMILIES.items()):
        st = {HELPERS[k]["stores"].split(".")[-1] for k in creates}
        vs = {HELPERS[k]["stored"].split(".")[-1] for k in verifies}
        ctx.ob("R-2", "same-field:%s" % fam, st == vs and len(st) == 1, "%s: stored field %s == verified field %s" % (fam, sorted(st), sorted(vs)))
    # the protected slot really depends on the header: stored bytes, else empty iff ALL fields are empty, else the encoded map
    check_cbor_bstr(ctx, "R-1")
    S.check_derived_impls(ctx, "R-1", {"core::clone::Clone"})
    check_is_empty(ctx, "R-1")
    # R-6 "serialising the message and parsing it back": the carriers' encoder / decoder tables are mutually inverse, so the
    # stored signature / tag / ciphertext, the payload and the headers that the verify / decrypt helper reads after a decode
    # are the ones the creating helper stored (the recogniser of C07 R-1 / R-4 under this property's name)
    from rules import c07
    for ty in ("sign::CoseSignature", "sign::CoseSign", "sign::CoseSign1", "encrypt::CoseRecipient", "encrypt::CoseEncrypt",
               "encrypt::CoseEncrypt0", "mac::CoseMac", "mac::CoseMac0"):
        c07._array_pair(ctx.under("R-6", "codec"), ty)
    # ... and the header map a built protected header contributes is what the header encoder emits, which raises no error of its
    # own except a genuine duplicate (C11's recogniser): a creator helper `expect`s that encoding
    from rules.c11 import check_map_encoder, HEADER_EMIT, HEADER_EXTRAS
    check_map_encoder(ctx.under("R-6", "header-encoder"), "header::Header", HEADER_EMIT, HEADER_EXTRAS)
    # "any change to AAD or payload changes the bytes handed over": the bytes are an injective encoding of (context, headers,
    # aad, payload) because each structure function assembles the RFC array of a text string and byte strings and hands it to
    # the one serialiser - the layout recogniser of C03-C05 R-1 / R-2 under this property (a hand-written head encoder that
    # drops the length byte of a 24-byte field - seed C06-o - makes two different (aad, payload) pairs collide)
    for _sfn in ("sign::sig_structure_data", "mac::mac_structure_data", "encrypt::enc_structure_data"):
        S.check_context_strings(ctx.under("R-6", "layout"), "R-1", _sfn)
        S.check_assembly(ctx.under("R-6", "layout"), "R-2", _sfn)
    check_frozen_inputs(ctx, "R-7")
    # R-5
    statics = prog.d.get("statics", [])
    ctx.ob("R-5", "no-statics", not statics, "the crate defines no static items", detail={"statics": statics})
    bad = set()
    for f in prog.real_fns():
        for l in f.locals:
            ty = l["ty"]
            if any(x in ty for x in ("core::cell::", "::Mutex<", "::RwLock<", "core::sync::atomic", "OnceCell", "OnceLock", "LazyLock")):
                bad.add((f.key, ty))
    for name, a in prog.adts.items():
        for v in a["variants"]:
            for fd in v["fields"]:
                if any(x in fd["ty"] for x in ("core::cell::", "Mutex<", "RwLock<", "atomic::", "OnceCell")):
                    bad.add((name, fd["ty"]))
    ctx.ob("R-5", "no-interior-mutability", not bad, "no Cell/RefCell/Mutex/atomic appears in any type or local of the crate",
           detail={"found": sorted(bad)[:10]})
    ctx.floor("R-1", "helper families", len(FAMILIES), 9)

def check_frozen_inputs(ctx, R):
    """"... after its protected headers and payload were set": what was signed / MACed / used as AAD is what gets serialised only
    if no later builder call edits it.  On the net effect of every method of the carrier builders (all crate-local callees
    expanded): the `protected` header and the `payload` are written by the setter of that name and by nothing else - not by
    `unprotected()`, not by a creating method after it computed its input, not through the signer handed to `add_*signature`;
    the signers already pushed are only ever appended to."""
    from rules import c19
    from spec import builders as B
    from lib.prov import subterms as _sub
    prog = ctx.prog.view("all")
    n = 0
    for bname, methods in sorted(c19.builders(prog).items()):
        if not bname.startswith(("sign::", "mac::", "encrypt::")):
            continue
        wty, wadt = c19.wrapped_type(prog, bname)
        fields = {fd["name"] for fd in wadt["variants"][0]["fields"]} if wadt else set()
        for f in sorted(methods, key=lambda x: x.key):
            if not f.is_pub and f.key not in B.EFFECTS and f.key not in HELPERS:
                continue    # private helpers are part of the public methods' net effect
            if f.name not in fields and f.name not in ("new", "build") and f.key not in B.EFFECTS and f.key not in HELPERS:
                # an addition to the API whose documentation this checker does not know (C19 notes it too): nothing is claimed
                ctx.note("%s: public builder method outside the documented-effects table; not checked" % f.key)
                continue
            n += 1
            bad = []
            for e in c19.norm_effects(Prov(f)):
                place = e[1] if e[0] == "assign" else e[2]
                flds = [t[2] for t in _sub(place) if isinstance(t, tuple) and t and t[0] == "field"]
                for fld in ("protected", "payload"):
                    if fld in flds and f.name != fld:
                        bad.append("%s %s" % (e[0] if e[0] == "assign" else e[1], show(place)[:80]))
                if "signatures" in flds and not (e[0] == "call" and e[1].endswith("::push") and flds[-1:] == ["signatures"] or
                                                 (e[0] == "call" and e[1].endswith("::push") and flds and flds[0] == "signatures")):
                    bad.append("%s %s" % (e[0] if e[0] == "assign" else e[1], show(place)[:80]))
            ctx.ob(R, "frozen:%s" % f.key, not bad,
                   "%s leaves the protected header, the payload and the signers already added as they were" % f.key if f.name not in ("protected", "payload")
                   else "%s writes only its own field among protected header / payload / signers" % f.key,
                   where=f.span, detail={"writes": bad})
    ctx.floor(R, "carrier builder methods", n, 60)

META["decides"] += ' R-6 also re-checks the layout of the three structures (context strings, array assembly through the one serialiser: C03-C05 R-1 / R-2), on which the clause "any change of AAD / payload changes the bytes" rests.'
META["decides"] += " R-7 (inputs frozen once set): on the net effect of every method of the eight carrier builders, `protected` and `payload` are written only by the setter of that name, and signers already added are only appended to."
