"""C11 - encoding emits exactly the modelled content in the documented CBOR shape."""
from lib.prov import Prov, show, is_call, subterms
from lib.guards import outcomes, conditions, normalize_bool_cond, path_variants
from lib import codec
from lib.mapcodec import MapEncoder, strip_into_iter, NEXT
from lib.absint import return_values
from lib.facts import callee_path
from spec.rfc8152 import STRUCTS, MESSAGE_TYPES, HEADER_EMIT, HEADER_EXTRAS, KEY_EMIT, KEY_EXTRAS

REGISTER = True
META = {
    "level": "proof",
    "decides": "R-1/R-2 for the 8 message types, Header and CoseKey: the encoder emits, in CDDL order, each slot / map entry from the "
               "field the table names, in the table's kind (protected bstr via cbor_bstr, header map, bstr, bstr-or-nil with nil for "
               "None, nested arrays via to_cbor_array, registry labels), under exactly the table's omission guard (present / "
               "non-empty), with label constants compared by value; R-3 Header::is_empty is true iff all 8 fields are empty "
               "(truth table over its 8 tests) and cbor_bstr emits the stored bytes, else a zero-length string iff is_empty, else "
               "the encoded map; R-4 one counter-signature is inlined, several are an array; R-5 extras are pushed in list order "
               "(loop over into_iter of the list, no sort / reverse); R-6 every field of every struct is emitted by its encoder.",
    "does_not_decide": "that the output bytes are well-formed definite-length CBOR (ciborium, trusted); 'decoding that output returns "
                       "the original value' (C07's table inversion + ciborium); encode-side duplicate rejection is C12; "
                       "CWT / KDF encoders are C18",
    "trusted_base": ["RFC 8152 CDDL as transcribed in spec/rfc8152.py", "ciborium into_writer", "std Vec::push / IntoIterator order"],
}
META["decides"] += ' (As built: encoder arrays are read as sequence values; alternatives for one label are compared as a set; omission guards are canonical.)'
META["decides"] += ' R-1 also covers CoseKeySet and the map form of ProtectedHeader; R-5 also: the extras loop skips nothing and an encoder raises no error of its own except DuplicateMapKey on a hit in its duplicate set; cbor_bstr does not edit self.'


def enc_key(ty):
    return "<%s as common::AsCborValue>::to_cbor_value" % ty


def check_array_encoder(ctx, ty, spec, rules=("R-1", "R-2", "R-6")):
    prog = ctx.prog
    R1, R2, R6 = rules
    arities, slots = spec[0], spec[1]
    f = prog.fn(enc_key(ty))
    pv = Prov(f)
    rc = codec.returned_operand(f, pv, "Array")
    if rc is None:
        ctx.cannot(R1, "shape:%s" % ty, "%s does not return Ok(Value::Array(<vec built here>))" % f.key, where=f.span)
        return None
    els = codec.array_elements(f, pv, *rc)
    if els is None:
        ctx.cannot(R1, "shape:%s" % ty, "cannot follow how %s builds its array" % f.key, where=f.span)
        return None
    table = []
    for i, e in enumerate(els):
        kind, field = codec.emit_kind(prog, f, pv, e)
        guard = codec.guard_desc(prog, f, pv, e)
        table.append({"index": i, "kind": kind, "field": field, "guard": guard, "loop": e["loop"]})
    ctx.ob(R1, "slot-count:%s" % ty, len(table) == len(slots), "%s emits %d slots (CDDL: %d)" % (ty, len(table), len(slots)), where=f.span,
           detail={"emitted": table})
    for s in slots:
        idx, field, kind = s[0], s[1], s[2]
        optional = len(s) > 3
        got = table[idx] if idx < len(table) else None
        ok = bool(got) and got["kind"] == kind and got["field"] == field and got["loop"] is None
        ctx.ob(R1, "slot:%s.%d" % (ty, idx), ok, "%s slot %d is `%s` emitted as %s (found: %s)" % (
            ty, idx, field, kind, (got["field"], got["kind"]) if got else None), where=f.span,
            sample={"type": ty, "slot": idx, "field": field, "kind": kind})
        if got:
            if optional:
                want = ["nonempty:%s" % field] if kind.startswith("array<") else ["some:%s" % field]
            else:
                want = ["always"]
            ctx.ob(R2, "guard:%s.%d" % (ty, idx), got["guard"] == codec.canon_guard(want),
                   "%s slot %d (`%s`) is emitted %s (found guard %s)" % (ty, idx, field, "iff " + want[0] if optional else "always", got["guard"]),
                   where=f.span)
    allf = prog.struct_fields(ty) or []
    ctx.ob(R6, "coverage:%s" % ty, sorted(allf) == sorted(t["field"] for t in table if t["field"]),
           "every field of %s is emitted by its encoder" % ty, detail={"struct": allf, "emitted": [t["field"] for t in table]})
    outs = [o for o in outcomes(f, pv) if o["kind"] not in ("ok", "propagate")]
    ctx.ob(R1, "exits:%s" % ty, not outs, "%s::to_cbor_value fails only by propagating a nested encoder's error" % ty,
           detail={"other_exits": [show(o["term"])[:80] for o in outs]})
    return table


def check_map_encoder(ctx, ty, emit, extras_field, rules=("R-1", "R-2", "R-5", "R-6")):
    prog = ctx.prog
    R1, R2, R5, R6 = rules
    f = prog.fn(enc_key(ty))
    me = MapEncoder(prog, f)
    if me.problem:
        ctx.cannot(R1, "shape:%s" % ty, "%s: %s" % (f.key, me.problem), where=f.span)
        return None
    typed = [e for e in me.entries if e.get("loop") is None]
    loops = [e for e in me.entries if e.get("loop") is not None]
    ctx.ob(R1, "entry-count:%s" % ty, len(typed) == len(emit) and len(loops) == 1,
           "%s emits %d typed entries then one loop of extras (found %d typed, %d loops)" % (ty, len(emit), len(typed), len(loops)), where=f.span)
    # emission order = spec order, typed before extras.  Alternatives for one label are mutually exclusive (their guards are
    # checked below), so their relative order in the source carries no meaning: align each run with the table's order.
    i = 0
    while i < len(typed):
        j = i
        while j + 1 < len(typed) and typed[j + 1].get("label") == typed[i].get("label") and typed[i].get("label") is not None:
            j += 1
        if j > i:
            want = [k for (l, _, k, _) in emit if ("int", l) == typed[i].get("label")]
            typed[i:j + 1] = sorted(typed[i:j + 1], key=lambda e: want.index(e.get("kind")) if e.get("kind") in want else len(want))
        i = j + 1
    for i, (label, field, kind, guard) in enumerate(emit):
        got = typed[i] if i < len(typed) else None
        g = (got.get("label"), got.get("field"), got.get("kind"), got.get("guard")) if got else None
        ok = bool(got) and got.get("label") == ("int", label) and got.get("field") == field and got.get("kind") == kind
        ctx.ob(R1, "entry:%s.%d.%s" % (ty, label, kind.split("<")[0]), ok,
               "%s entry #%d is label %d -> `%s` as %s (found %s)" % (ty, i, label, field, kind, g), where=f.span,
               sample={"type": ty, "label": label, "field": field, "kind": kind})
        if got:
            ctx.ob(R2, "guard:%s.%d.%s" % (ty, label, kind.split("<")[0]), got.get("guard") == codec.canon_guard(guard),
                   "%s label %d is emitted under guard %s (found %s)" % (ty, label, guard, got.get("guard")), where=f.span)
    if loops and typed:
        order = {b: i for i, b in enumerate(f.cfg.rpo)}
        ctx.ob(R5, "typed-before-extras:%s" % ty, all(order[t["bb"]] < order[loops[0]["bb"]] for t in typed),
               "typed entries are emitted before the extras", where=f.span)
    for le in loops:
        # extras: (label.to_cbor_value()?, value) for each (label, value) of into_iter(self.<extras>) in order
        src = le.get("label_src")
        ok = False
        det = {}
        if src is not None and src[0] == "field" and src[2] == "0":
            entry = src[1]
            vt = le["value"]["term"]
            it = extras_source(le)
            det = {"iterates": show(it) if it else None, "value": show(vt)[:80]}
            ok = it == ("field", ("param", 0), extras_field) and vt == ("field", entry, "1")
        # ... for EVERY element: an iteration ends in the push or leaves the function; none is skipped, none pushed twice
        if le["loop"] == "seq":
            # `map.extend(list.into_iter().map(f))`: every element exactly once by construction of the sequence value
            skipping, every = set(), True
        else:
            body = dict(f.cfg.loops()).get(le["loop"], set())
            latches = [p for p in f.cfg.pred[le["loop"]] if p in body]
            inner = f.cfg.in_loop(le["bb"])
            from lib.guards import back_edges_taken
            skipping = set(back_edges_taken(f, le["loop"], {le["bb"]}, le["loop"])) & set(latches)
            every = bool(latches) and not skipping and bool(inner) and inner[-1] == le["loop"]
        ctx.ob(R5, "extras-every-element:%s" % ty, every,
               "no element of `%s` is skipped: every iteration of the extras loop that continues has pushed its entry, exactly once" % extras_field,
               where=f.where(le["bb"]), detail={"continues_without_push_from": [f.where(p) for p in sorted(skipping)], "push_block": le["bb"]})
        ctx.ob(R5, "extras-in-order:%s" % ty, ok,
               "the extras of %s are emitted as (label, value) for each element of `%s` in list order, value untouched" % (ty, extras_field),
               where=f.where(le["bb"]), detail=det, sample=det)
    # a well-formed value is encoded, not refused: the only error an encoder raises itself is the duplicate-label error, and only on
    # the hit edge of a lookup in its duplicate set (everything else is the propagated error of a nested encoder)
    from lib.mapcodec import SET_CONTAINS, SET_INSERT
    refusals = []
    for o in outcomes(f, me.pv):
        if o["kind"] != "err":
            continue
        inner = o["inner"]
        name = inner[2] if inner and inner[0] == "aggr" else show(inner)[:40]
        last = None
        for c in o["conds"]:
            if c[0][0] == "discr" and is_call(c[0][1], "core::ops::try_trait::Try::branch"):
                continue
            last = c
        nb = normalize_bool_cond(last) if last else None
        hit = False
        if nb:
            tt, val = nb
            if tt[0] == "unop" and tt[1] == "Not":
                tt, val = tt[2], not val
            hit = (is_call(tt, SET_CONTAINS) and val is True) or (is_call(tt, SET_INSERT) and val is False)
        if name != "DuplicateMapKey" or not hit:
            refusals.append("%s at %s" % (name, f.where(o["bb"])))
    if me.sets and not me.set_starts_empty:
        refusals.append("the duplicate set does not start empty (labels are refused that were never emitted)")
    ctx.ob(R5, "refuses-only-duplicates:%s" % ty, not refusals,
           "%s::to_cbor_value raises no error of its own except DuplicateMapKey on a hit in its duplicate set" % ty, where=f.span,
           detail={"other_refusals": refusals})
    # the encoder may not reorder / edit its own fields before emitting them; the one allowed in-place operation is taking
    # the single counter-signature out of its list (remove(0) under len == 1)
    bad = [m for m in me.self_mutations
           if not (m[0] == "counter_signatures" and m[1] == codec.VEC_REMOVE and m[2] == ["0"])]
    ctx.ob(R5, "fields-not-mutated:%s" % ty, not bad,
           "%s::to_cbor_value does not sort, reverse, truncate or otherwise mutate a field before emitting it" % ty, where=f.span,
           detail={"mutations": [(m[0], m[1]) for m in bad]})
    allf = prog.struct_fields(ty) or []
    emitted = sorted({e["field"] for e in typed if e.get("field")} | ({extras_field} if loops else set()))
    ctx.ob(R6, "coverage:%s" % ty, sorted(allf) == emitted, "every field of %s is emitted by its encoder" % ty,
           detail={"struct": allf, "emitted": emitted})
    return me


def check_protected_map_form(ctx, rule):
    """ProtectedHeader::to_cbor_value - what `to_vec()` serialises on cbor_bstr's None edge - is the header map"""
    prog = ctx.prog
    e = prog.fn(enc_key("header::ProtectedHeader"))
    rt = Prov(e).return_term()
    ctx.ob(rule, "encoder:header::ProtectedHeader(map form)",
           is_call(rt, "<header::Header as common::AsCborValue>::to_cbor_value") and rt[2] == (("field", ("param", 0), "header"),),
           "ProtectedHeader::to_cbor_value (the bare map form) is Header::to_cbor_value(self.header) on every path", where=e.span,
           detail={"returns": show(rt)[:160]})


def extras_source(le):
    """the collection whose elements the extras entry `le` of a MapEncoder emits (a loop of pushes, or extend(sequence))"""
    src = le.get("label_src")
    if src is None or src[0] != "field":
        return None
    if le.get("loop") == "seq":
        from lib.seq import X
        from lib.prov import strip_sites
        return strip_sites(le["seq_src"]) if src[1] == X else None
    return codec_loop_source(src[1])


def codec_loop_source(entry):
    if entry[0] == "field" and entry[2] == "0" and entry[1][0] == "variant" and entry[1][2] == "Some" and is_call(entry[1][1], NEXT):
        recv = entry[1][1][2][0]
        it = recv[1] if recv[0] == "ref" else recv
        return strip_into_iter(it)
    return None


def check(ctx):
    prog = ctx.prog
    for ty in MESSAGE_TYPES:
        check_array_encoder(ctx, ty, STRUCTS[ty])
    check_map_encoder(ctx, "header::Header", HEADER_EMIT, HEADER_EXTRAS)
    check_map_encoder(ctx, "key::CoseKey", KEY_EMIT, KEY_EXTRAS)
    # CWT claims set, timestamps and KDF structures: the same encoder rules (recognisers shared with C18)
    from rules import c18
    from spec.rfc8152 import KDF_STRUCTS
    from spec.rfc8392 import CLAIMS_EMIT, CLAIMS_EXTRAS
    check_map_encoder(ctx, "cwt::ClaimsSet", CLAIMS_EMIT, CLAIMS_EXTRAS)
    c18.timestamp_encode(ctx, "R-1")
    for ty in ("context::PartyInfo", "context::SuppPubInfo"):
        check_array_encoder(ctx, ty, KDF_STRUCTS[ty])
    c18.kdf_encoder(ctx, "R-1")
    # the two remaining encoders: a key set is the array of its keys; a protected header asked for its *map* form (its
    # AsCborValue impl, used by to_vec) is the header map, whatever bytes it retains
    e = prog.fn(enc_key("key::CoseKeySet"))
    rt = Prov(e).return_term()
    ctx.ob("R-1", "encoder:key::CoseKeySet", is_call(rt, codec.TO_ARRAY) and rt[2] == (("field", ("param", 0), "0"),),
           "CoseKeySet encodes as to_cbor_array(self.0)", where=e.span, detail={"returns": show(rt)[:120]})
    check_protected_map_form(ctx, "R-1")
    from rules import extractors as _ex
    _ex.check_to_cbor_array(ctx, "R-1")
    ctx.floor("R-1", "encoders analysed", len(MESSAGE_TYPES) + 4, 12)

    # ---- "Decoding that output returns the original value": the decoder tables are the inverse of these encoder tables (C07's
    # recognisers), the depth-budgeted decoders are entered with a positive budget (C09 R-5) and a private-use value that
    # encodes is classified as private on the way back (C17 R-3)
    from rules import c07, c09, c17
    c07.check(ctx.under("R-7", "round-trip"))
    c09.check_wrappers(ctx.under("R-7", "round-trip"), "R-5")
    for imp in prog.impls:
        if imp.get("trait") == c17.WPR:
            c17.check_private_predicate(ctx.under("R-7", "round-trip"), "R-3", imp["self_ty"])
    # ---- R-3 emptiness and the protected bstr ---------------------------------------------------------------
    check_is_empty(ctx, "R-3")
    check_cbor_bstr(ctx, "R-3")

    # ---- R-4 is part of the header table (first-of / array with len==1 / len!=1 guards) ------------------------
    f = prog.fn(enc_key("header::Header"))
    me = MapEncoder(prog, f)
    cs = [e for e in me.entries if e.get("label") == ("int", 7)] if not me.problem else []
    kinds = sorted((e.get("kind") or "").split("<")[0] + ":" + ",".join(g for g in e.get("guard", []) if g.startswith("len")) for e in cs)
    ctx.ob("R-4", "counter-signature-form", kinds == ["array:len!=1:counter_signatures", "first-of:len==1:counter_signatures"],
           "exactly one counter-signature is emitted inline (element 0), any other number as an array", where=f.span, detail={"forms": kinds})


def _emptiness_table(fn, pv, base_ok):
    """per-field emptiness tests of `fn` (calls of is_empty / is_none / is_some / len on a field of the header) and the values
    each takes for an empty and for a populated field: ({bb: field}, {bb: (when_empty, when_populated)})"""
    fields, vals = {}, {}
    for bb, t in fn.calls():
        name = (callee_path(t) or "").split("::")[-1]
        if name not in ("is_empty", "is_none", "is_some", "len") or not t["args"]:
            continue
        lv = pv._borrowed_lvalue(t["args"][0], bb)
        if lv[0] == "field" and base_ok(lv[1]):
            fields[bb] = lv[2]
            vals[bb] = {"is_empty": (True, False), "is_none": (True, False), "is_some": (False, True), "len": (0, 1)}[name]
    return fields, vals


def _is_empty_truth_table(fn, pv, base_ok, allf):
    fields, vals = _emptiness_table(fn, pv, base_ok)
    if sorted(fields.values()) != allf:
        return False, fields
    empty = {b: v[0] for b, v in vals.items()}
    ok = return_values(fn, empty) == {True}
    for b in vals:
        a = dict(empty)
        a[b] = vals[b][1]
        ok = ok and return_values(fn, a) == {False}
    return ok, fields


def check_is_empty(ctx, rule):
    """Header::is_empty() truth table over its per-field tests + ProtectedHeader::is_empty delegation.  Decided in the
    net-effect view, so `self.len() == 0` with `len()` a sum of `usize::from(<field populated>)` and `rest.len()` is the same
    function as the conjunction of the per-field tests"""
    prog = ctx.prog.view("all")
    ie = prog.fn("header::Header::is_empty")
    pv = Prov(ie)
    allf = sorted(prog.struct_fields("header::Header") or [])
    ok, fields = _is_empty_truth_table(ie, pv, lambda b: b in (("deref", ("param", 0)), ("param", 0)), allf)
    ctx.ob(rule, "is_empty-covers-all-fields", ok,
           "Header::is_empty() is true iff every one of the 8 fields is absent/empty (truth table: all-empty -> true, any single field "
           "non-empty -> false)", where=ie.span, detail={"tested_fields": sorted(fields.values()), "struct": allf},
           sample={"tested_fields": sorted(fields.values())})
    pie = prog.fn("header::ProtectedHeader::is_empty")
    ppv = Prov(pie)
    rt = ppv.return_term()
    okp = is_call(rt, "header::Header::is_empty") and show(rt[2][0]).endswith(".header")
    if not okp:
        # not a delegation: the same truth table over the fields of self.header
        okp, _ = _is_empty_truth_table(pie, ppv, lambda b: b in (("field", ("deref", ("param", 0)), "header"), ("field", ("param", 0), "header")), allf)
    ctx.ob(rule, "protected-is_empty", okp,
           "ProtectedHeader::is_empty() = self.header.is_empty()", where=pie.span, detail={"return": show(rt)[:200]})


def _is_self(t):
    while t[0] in ("ref", "deref"):
        t = t[1]
    return t == ("param", 0)


def _is_self_header(t):
    while t[0] in ("ref", "deref"):
        t = t[1]
    return t == ("field", ("param", 0), "header")


def check_cbor_bstr(ctx, rule):
    prog = ctx.prog
    cb = prog.fn("header::ProtectedHeader::cbor_bstr")
    pv = Prov(cb)
    oks = [o for o in outcomes(cb, pv) if o["kind"] == "ok"]
    good = False
    det = {}
    if len(oks) == 1:
        st = cb.blocks[oks[0]["bb"]]["stmts"][oks[0]["idx"]]
        d = codec.find_def_stmt(pv, st["rv"]["ops"][0], oks[0]["bb"], oks[0]["idx"])
        if d and d[0] == "stmt" and d[1]["k"] == "aggr" and d[1].get("variant") == "Bytes":
            alist = codec.arms(pv, d[1]["ops"][0], d[2], d[3])
            seen = {}
            for term, dbb in alist:
                conds = conditions(cb, pv, dbb)
                pvs = path_variants(prog, pv, conds)
                od = pvs.get(("field", ("param", 0), "original_data"))
                emp = None
                for c in conds:
                    nb = normalize_bool_cond(c)
                    if nb and is_call(nb[0], "header::ProtectedHeader::is_empty") and _is_self(nb[0][2][0]):
                        emp = nb[1]
                    # `self.header.is_empty()` is the same test (ProtectedHeader::is_empty delegates to it: protected-is_empty)
                    if nb and is_call(nb[0], "header::Header::is_empty") and _is_self_header(nb[0][2][0]):
                        emp = nb[1]
                seen[(tuple(sorted(od)) if od else None, emp)] = term
            det = {"%s/%s" % k: show(v)[:80] for k, v in seen.items()}
            a = seen.get((("Some",), None))
            b = seen.get((("None",), True))
            c = seen.get((("None",), False))
            # the serialised map: `self.to_vec()?` or `self.header.to_vec()?` (ProtectedHeader's map form is its header's)
            good = (len(seen) == 3 and a == ("field", ("variant", ("field", ("param", 0), "original_data"), "Some"), "0")
                    and is_call(b, "alloc::vec::Vec::<T>::new")
                    and c is not None and c[0] == "tryok" and is_call(c[1], "common::CborSerializable::to_vec")
                    and c[1][2] in ((("param", 0),), (("field", ("param", 0), "header"),)))
    edits = pv.tampered({"k": "copy", "place": {"l": 1, "p": []}}, 0, 0)
    if edits:
        good = False
        det = dict(det, edited="; ".join(sorted(set(edits))))
    ctx.ob(rule, "cbor_bstr", good,
           "cbor_bstr(): stored wire bytes if any (the payload itself); otherwise a zero-length string iff the header is empty; otherwise "
           "the serialised header map; the header is not edited on the way", where=cb.span, detail=det, sample=det)
    return good
