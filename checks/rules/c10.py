"""C10 - COSE_Key / COSE_KeySet: accepted iff well-formed, parameters map to fields."""
from lib.prov import Prov, show, is_call, subterms, resolve_consts
from lib.guards import conditions, normalize_bool_cond, outcomes
from lib.mapcodec import MapDecoder, SET_INSERT
from lib import codec
from rules.c08 import check_dispatch, full_of, _loop_source, try_next_validator
from spec.rfc8152 import KEY_PARAMS

REGISTER = True
META = {
    "level": "proof",
    "decides": "R-1 the key decoder dispatches exactly labels 1..5 to kty / key_id / alg / key_ops / base_iv through the validators of "
               "RFC 8152 table 3 (registered key type; non-empty bstr; registry-with-private algorithm; per-element registered "
               "operation inserted into a set whose `false` result is an error, non-empty after the loop; non-empty bstr), from "
               "this entry's value, and pushes every other pair unmodified to `params`; R-kty the result is rejected when kty "
               "still equals its Default and that Default is the Reserved key type (absent and reserved kty share the rejection); "
               "R-3 reject sites per label class equal the RFC's rules, nothing extra; R-4 field coverage; R-5 a key set is the "
               "element-wise conversion of an array, order preserved.",
    "does_not_decide": "'iff' over all maps; label classification and integer range are C17/C15; duplicates are C12",
    "trusted_base": ["RFC 8152 section 7 / 7.1 as transcribed in spec/rfc8152.py", "std BTreeSet::insert / is_empty, Iterator::map/collect order"],
}
META["decides"] += " (As built: shares C08's frame rule - the decoded key is written only by the per-entry dispatch.)"
META["decides"] += ' Also under R-1: the duplicate rule of this decoder, read_to_value, no decoding error swallowed, every entry dispatched, derived Default / PartialEq / Eq; R-5 the conversion helper on the sequence value of its result.'

DEC = "<key::CoseKey as common::AsCborValue>::from_cbor_value"
RESULT = "key::CoseKey"

CENSUS = {
    ("pre", "not-a-map"),
    ("all", "propagate:<common::Label as common::AsCborValue>::from_cbor_value"),
    ("all", "err:DuplicateMapKey"),
    ("1", "propagate:<common::RegisteredLabel<T> as common::AsCborValue>::from_cbor_value"),
    ("2", "propagate:" + codec.TRY_NONEMPTY),
    ("3", "propagate:<common::RegisteredLabelWithPrivate<T> as common::AsCborValue>::from_cbor_value"),
    ("4", "propagate:" + codec.TRY_ARRAY),
    ("4", "propagate:<common::RegisteredLabel<T> as common::AsCborValue>::from_cbor_value"),
    ("4", "err:repeated-key-op"), ("4", "err:empty-key-ops"),
    ("5", "propagate:" + codec.TRY_NONEMPTY),
    ("pre", "err:kty-missing-or-reserved"),
}


def check(ctx):
    prog = ctx.prog
    fn = prog.fn(DEC)
    md = MapDecoder(prog, fn)
    if md.problem:
        ctx.cannot("R-1", "decoder-shape", "%s: %s" % (DEC, md.problem), where=fn.span)
        return
    pv = md.pv
    by_label = check_dispatch(ctx, md, KEY_PARAMS, RESULT)
    from rules import extractors as _ex
    _ex.check_extractors(ctx.under("R-1", "extractors"), "R-1")
    from rules import c17 as _c17
    _c17.check_tables(ctx.under("R-4", "registry"), only={"iana::KeyType", "iana::KeyOperation", "iana::Algorithm"})
    # "pairwise distinct labels": the duplicate rule of this decoder (C12 R-1's recogniser under this property's name)
    from rules import c12 as _c12
    _c12.check_decoder(ctx.under("R-1", "distinct-labels"), DEC, "R-1")
    # accepted "iff ..." is stated for CBOR items reaching the decoder through the byte-level API as well: the one parser entry
    # hands back exactly the parsed item (C13 R-1's recogniser; a read_to_value that unwraps a tag changes the accepted set)
    from rules import c13 as _c13
    _c13.check_read_to_value(ctx.under("R-1", "parser-entry"), "R-1")
    from rules import structs_common as _S
    _S.check_derived_impls(ctx, "R-1", {"core::default::Default"}, only_structs=True)
    _S.check_derived_impls(ctx, "R-1", {"core::cmp::PartialEq", "core::cmp::Eq"})
    V = ("sym", "value")
    res = ("local", md.result_local, fn.local_name(md.result_local))
    special = {}

    for k, (field, shape) in sorted(KEY_PARAMS.items()):
        effs = by_label.get(str(k), [])
        fields = sorted({f for f, _ in effs})
        ctx.ob("R-1", "frame:label-%d" % k, fields == [field], "label %d writes exactly the field `%s` (writes: %s)" % (k, field, fields), where=fn.span)
        ok = False
        det = {"effects": [show(md.sym(e.get("value") or e["args"][1]))[:160] for _, e in effs]}
        if shape.startswith("label<"):
            want_ty = shape[6:-1]
            if len(effs) == 1 and effs[0][1]["kind"] == "assign":
                v = md.sym(effs[0][1]["value"])
                inner = v
                if inner[0] == "aggr" and inner[1] == "core::option::Option" and inner[2] == "Some":
                    inner = inner[3][0][1]
                if inner[0] == "tryok" and is_call(inner[1]) and inner[1][2] == (V,):
                    full = full_of(fn, inner[1])
                    ok = full == "<%s as common::AsCborValue>::from_cbor_value" % want_ty
                    det["decoder"] = full
        elif shape == "nonempty-bstr":
            if len(effs) == 1 and effs[0][1]["kind"] == "assign":
                v = md.sym(effs[0][1]["value"])
                ok = v[0] == "tryok" and is_call(v[1], codec.TRY_NONEMPTY) and v[1][2] == (V,)
        elif shape.startswith("nonempty-set<"):
            want_ty = shape[len("nonempty-set<"):-1]
            if len(effs) == 1 and effs[0][1]["kind"] == "call" and effs[0][1]["callee"] == SET_INSERT:
                e = effs[0][1]
                a = md.sym(e["args"][1])
                if a[0] == "tryok" and is_call(a[1]) and len(a[1][2]) == 1:
                    src = _loop_source(a[1][2][0])
                    full = full_of(fn, a[1])
                    ok = (src is not None and src[0] == "tryok" and is_call(src[1], codec.TRY_ARRAY) and src[1][2] == (V,)
                          and full == "<%s as common::AsCborValue>::from_cbor_value" % want_ty)
                    det["decoder"] = full
                    # the insert's `false` result must lead to Err, and emptiness after the loop too
                    ins_bb = e["bb"]
                    for cname, key, o in md.reject_sites():
                        if cname != "4" or o["kind"] != "err":
                            continue
                        for c in o["conds"]:
                            nb = normalize_bool_cond(c)
                            if not nb:
                                continue
                            t, val = nb
                            if t[0] == "unop" and t[1] == "Not":
                                t, val = t[2], not val
                            if is_call(t, SET_INSERT) and t[3][1] == ins_bb and val is False:
                                special[o["bb"]] = "err:repeated-key-op"
                            if is_call(t) and t[1].endswith("::is_empty") and val is True:
                                lv = pv._borrowed_lvalue(fn.blocks[t[3][1]]["term"]["args"][0], t[3][1])
                                recv = t[2][0]
                                while recv[0] in ("ref", "deref"):
                                    recv = recv[1]
                                # the set after the element loop, or the entry's array before it (same thing: every element
                                # is inserted or the decoder has failed)
                                on_input = md.sym(recv) == src
                                # ... or the local set a helper builds and hands back to be stored in the field
                                on_built = e.get("via_local") is not None and lv[0] == "local" and lv[1] == e["via_local"]
                                if (lv == ("field", res, "key_ops") or on_input or on_built) and not fn.cfg.in_loop(t[3][1])[1:]:
                                    special[o["bb"]] = "err:empty-key-ops"
                    ok = ok and sorted(special.values()) == ["err:empty-key-ops", "err:repeated-key-op"]
                    det["set_rules"] = sorted(special.values())
        ctx.ob("R-1", "label-%d:%s" % (k, field), ok, "label %d -> `%s` from this entry's value through %s" % (k, field, shape),
               where=fn.span, detail=det, sample={"label": k, "field": field, "how": det})

    effs = by_label.get("default", [])
    ok = (len(effs) == 1 and effs[0][0] == "params" and effs[0][1]["kind"] == "call" and effs[0][1]["callee"] == codec.VEC_PUSH
          and md.sym(effs[0][1]["args"][1]) == ("tuple", (("sym", "label"), V)))
    ctx.ob("R-1", "default:params", ok, "every other integer label and every text label pushes the unmodified (label, value) pair to `params`",
           where=fn.span)
    other = sorted(set(by_label) - {str(k) for k in KEY_PARAMS} - {"default"})
    ctx.ob("R-1", "no-mixed-writes", not other, "no write to the result happens under a mixture of label classes", detail={"classes": other})

    # ---- R-kty ---------------------------------------------------------------------------------------------
    kty_err = None
    for o in outcomes(fn, pv):
        if o["kind"] != "err" or o["bb"] in md.loop[1] or md.classes_at(o["bb"]):
            continue
        for c in o["conds"]:
            nb = normalize_bool_cond(c)
            if nb and is_call(nb[0]) and ((nb[0][1].endswith("::eq") and nb[1] is True) or (nb[0][1].endswith("::ne") and nb[1] is False)):
                bb = nb[0][3][1]
                t = fn.blocks[bb]["term"]
                lv = pv._borrowed_lvalue(t["args"][0], bb)
                other = resolve_consts(prog, pv.operand_term(t["args"][1], bb, "term"))
                while other[0] in ("ref", "deref"):
                    other = other[1]
                if is_call(other) and not other[2] and other[1] in prog.fns and prog.fns[other[1]].impl_trait == "core::default::Default":
                    # `key.kty == KeyType::default()`: the value that (crate-local, argument-less) default returns
                    other = resolve_consts(prog, Prov(prog.fns[other[1]]).return_term())
                if lv == ("field", res, "kty") and other == ("aggr", "common::RegisteredLabel", "Assigned", (("0", ("aggr", "iana::KeyType", "Reserved", ())),)):
                    kty_err = o
    dflt = prog.trait_method("core::default::Default", "common::RegisteredLabel<iana::KeyType>", "default")
    drt = Prov(dflt).return_term()
    d_ok = drt == ("aggr", "common::RegisteredLabel", "Assigned", (("0", ("aggr", "iana::KeyType", "Reserved", ())),))
    init = pv.local_term(md.result_local, md.ok_outcome["bb"], md.ok_outcome["idx"])
    i_ok = is_call(init, "<key::CoseKey as core::default::Default>::default")
    ctx.ob("R-kty", "mandatory-non-reserved-kty", kty_err is not None and d_ok and i_ok,
           "after the loop a key whose kty equals KeyType::default() is rejected, that default is Assigned(Reserved), and the result starts "
           "as CoseKey::default(): an absent and a reserved key type are both refused",
           where=fn.where(kty_err["bb"]) if kty_err else fn.span,
           detail={"default_kty": show(drt), "init": show(init)[:80], "guard_found": kty_err is not None})
    if kty_err:
        special[kty_err["bb"]] = "err:kty-missing-or-reserved"
        # the Ok exit must be on the other edge of the same test
        ok_conds = [normalize_bool_cond(c) for c in md.ok_outcome["conds"]]
        neg = any(c and is_call(c[0]) and ((c[0][1].endswith("::eq") and c[1] is False) or (c[0][1].endswith("::ne") and c[1] is True))
                  for c in ok_conds)
        ctx.ob("R-kty", "ok-only-with-kty", neg, "Ok(key) is returned only on the `kty != reserved` edge", where=fn.span)

    # ---- R-3 census ------------------------------------------------------------------------------------------
    found = {(c, special.get(o["bb"], k)) for c, k, o in md.reject_sites()}
    extra = sorted(found - CENSUS)
    missing = sorted(CENSUS - found)
    ctx.ob("R-3", "census", not extra and not missing,
           "reject sites per label class are exactly the RFC 8152 key rules (%d); extra=%s missing=%s" % (len(CENSUS), extra, missing),
           where=fn.span, detail={"found": sorted(found)}, sample={"reject_sites": sorted(found)})
    ctx.ob("R-3", "nonempty-bytes-validator", try_next_validator(prog), "try_as_nonempty_bytes = try_as_bytes + reject the empty string")


    # label classification the accepted set depends on (shared recognisers of C17 R-3/R-4)
    from rules import c17
    for _enum in ['iana::Algorithm']:
        c17.check_private_predicate(ctx, "R-1", _enum)
    c17._classify(ctx, "<common::RegisteredLabelWithPrivate<T> as common::AsCborValue>::from_cbor_value", private=True)
    c17._classify(ctx, "<common::RegisteredLabel<T> as common::AsCborValue>::from_cbor_value", private=False)
    # ---- R-4 -------------------------------------------------------------------------------------------------
    written = sorted({f for f, e in md.field_effects() if e["bb"] in md.loop[1]})
    allf = sorted(prog.struct_fields(RESULT) or [])
    ctx.ob("R-4", "coverage", written == allf, "the decoder can write all fields of CoseKey", detail={"written": written, "struct": allf})

    # ---- R-5 key set -------------------------------------------------------------------------------------------
    ks = prog.fn("<key::CoseKeySet as common::AsCborValue>::from_cbor_value")
    pks = Prov(ks)
    agg = codec.OkAggregate(ks, pks)
    ok = False
    if not agg.problem and agg.adt == "key::CoseKeySet":
        t = agg.term("0")
        ok = (t[0] == "tryok" and is_call(t[1], codec.TRY_ARRAY_CONVERT) and t[1][2][0] == ("param", 0)
              and t[1][2][1][0] == "fn" and t[1][2][1][2] == DEC)
        if not ok:
            # the loop / iterator chain the helper stands for, over the input's own array
            from lib.veclen import VecLen
            ad = codec.array_of_decoded(prog, ks, pks, VecLen(ks), agg, "0")
            ok = bool(ad) and ad[0] == ("param", 0) and ad[1] == "key::CoseKey"
    outs = [o for o in outcomes(ks, pks) if o["kind"] != "ok"]
    ok = ok and outs and all(o["kind"] == "propagate" for o in outs) and len(outs) <= 2
    ctx.ob("R-5", "keyset-elementwise", ok, "CoseKeySet = try_as_array_then_convert(CoseKey::from_cbor_value) of the input and nothing else", where=ks.span)
    check_convert_helper(ctx, "R-5")


def check_convert_helper(ctx, rule):
    """try_as_array_then_convert(v, f) = f applied to every element of try_as_array(v)? in order, failing on the first error -
    decided on the sequence value of the returned vector (a loop with push, into_iter().map(f).collect(), ...)"""
    from lib.seq import Seq, normalize, X, strip_seq
    from lib.prov import strip_sites
    prog = ctx.prog
    f = prog.fn(codec.TRY_ARRAY_CONVERT)
    pv = Prov(f)
    ok = False
    det = {}
    oks = [o for o in outcomes(f, pv) if o["kind"] == "ok"]
    cands = []
    if len(oks) == 1 and oks[0]["idx"] != "term":
        st = f.blocks[oks[0]["bb"]]["stmts"][oks[0]["idx"]]
        cands.append(normalize(Seq(f, pv).of_operand(st["rv"]["ops"][0], oks[0]["bb"], oks[0]["idx"])))
    elif not oks:
        # the collected Result is returned as it is
        rt = pv.return_term()
        for x in (rt[1] if rt[0] == "phi" else [rt]):
            if is_call(x, "core::iter::traits::iterator::Iterator::collect"):
                s = normalize(Seq(f, pv).of_value(("tryok", x)))
                cands.append(s)

    def canon(F):
        F = strip_sites(F)
        if F[0] == "tryok" and is_call(F[1], "core::ops::function::Fn::call") and len(F[1][2]) == 2:
            c, a = F[1][2]
            while c[0] in ("ref", "deref"):
                c = c[1]
            if a[0] == "tuple" and len(a[1]) == 1:
                return ("tryok", ("call", "<apply>", (c, a[1][0])))
        return F
    for s in cands:
        det["sequence"] = str(s)[:300]
        if s[0] == "map" and s[2][0] == "elems" and s[2][2] == 0 and s[2][3] is None:
            src = strip_sites(s[2][1])
            ok = (src == ("tryok", ("call", codec.TRY_ARRAY, (("param", 0),))) and canon(s[1]) == ("tryok", ("call", "<apply>", (("param", 1), X))))
    ctx.ob(rule, "elementwise-helper", ok, "try_as_array_then_convert applies the converter to each element of the array in order, stopping at the first error",
           where=f.span, detail=det)
