"""Audit of the pinned ciborium source with the same fact dumper (thorough tier; DESIGN section 9).

The dependency stays the trusted base; these obligations only re-derive the few facts about it that the
C01 / C13 / C15 arguments lean on, from the dependency's own MIR, so that a lockfile move to another ciborium
is noticed.  Nothing of ciborium is executed."""
import fcntl
import os
import re
import subprocess

from lib.facts import Program, FactsError, callee_path
from lib.prov import Prov, show, is_call
from lib.guards import outcomes, normalize_bool_cond

VERIF = os.path.dirname(os.path.dirname(os.path.dirname(os.path.abspath(__file__))))


def dump_ciborium(repo):
    out = os.path.join(VERIF, "out", "cibaudit")
    os.makedirs(out, exist_ok=True)
    lock = open(os.path.join(out, "lock"), "w")
    fcntl.flock(lock, fcntl.LOCK_EX)
    try:
        for f in ("ciborium.json", "ciborium_ll.json"):
            try:
                os.remove(os.path.join(out, f))
            except OSError:
                pass
        tgt = os.path.join(out, "target")
        # force the dependency to be re-checked under the wrapper
        subprocess.run("rm -rf %s/debug/.fingerprint/ciborium-* %s/debug/.fingerprint/coset-*" % (tgt, tgt), shell=True)
        sysroot = subprocess.run(["rustc", "+nightly", "--print", "sysroot"], stdout=subprocess.PIPE, text=True).stdout.strip()
        env = dict(os.environ, LD_LIBRARY_PATH=sysroot + "/lib", RUSTFLAGS="-Zmir-opt-level=0 -Awarnings",
                   RUSTC_WRAPPER=os.path.join(VERIF, "driver/target/release/coset-mirfacts"), MIRFACTS_OUT=out,
                   MIRFACTS_CRATES="ciborium", MIRFACTS_NONCE="audit", CARGO_TARGET_DIR=tgt, CARGO_NET_OFFLINE="true")
        env.pop("RUSTC_WORKSPACE_WRAPPER", None)
        r = subprocess.run(["cargo", "+nightly", "check", "--offline", "--lib"], cwd=repo, env=env, stdout=subprocess.PIPE,
                           stderr=subprocess.STDOUT, text=True)
        path = os.path.join(out, "ciborium.json")
        if r.returncode != 0 or not os.path.exists(path):
            raise FactsError("could not dump ciborium facts: %s" % r.stdout[-600:])
        return Program(path, expect_nonce="audit", inline=False, flatten=False)   # a foreign crate: its private functions are named by the audit rules
    finally:
        fcntl.flock(lock, fcntl.LOCK_UN)
        lock.close()


def locked_version(repo):
    try:
        t = open(os.path.join(repo, "Cargo.lock")).read()
        m = re.search(r'name = "ciborium"\nversion = "([^"]+)"', t)
        return m.group(1) if m else None
    except OSError:
        return None


def audit(ctx, rule, parts):
    """parts: subset of {'recursion', 'integers'}"""
    try:
        cib = dump_ciborium(ctx.repo)
    except FactsError as e:
        ctx.cannot(rule, "ciborium-facts", str(e))
        return
    ver = locked_version(ctx.repo)
    ctx.note("ciborium audited at version %s (Cargo.lock)" % ver)
    if "recursion" in parts:
        fr = cib.fns.get("de::from_reader")
        fb = cib.fns.get("de::from_reader_with_buffer")
        ok = False
        det = {}
        if fr and fb:
            rt = Prov(fr).return_term()
            det["from_reader"] = show(rt)[:120]
            rb = Prov(fb).return_term()
            det["from_reader_with_buffer"] = show(rb)[:200]
            ok = is_call(rt, "de::from_reader_with_buffer") and rt[2][0] == ("param", 0)
            des = [s for s in _sub(rb) if isinstance(s, tuple) and s and s[0] == "aggr" and s[1] == "de::Deserializer"]
            ok = ok and len(des) == 1 and dict(des[0][3]).get("recurse") == ("const", 256)
        ctx.ob(rule, "ciborium:from_reader-limit-256", ok,
               "ciborium::de::from_reader builds its Deserializer with recurse: 256 (the nesting bound C01 R-3 relies on)", detail=det, sample=det)
        rec = cib.fns.get("de::Deserializer::<'a, R>::recurse")
        ok = False
        n_sites = 0
        if rec:
            pv = Prov(rec)
            outs = outcomes(rec, pv)
            err = [o for o in outs if o["kind"] == "err" and o["inner"][0] == "aggr" and o["inner"][2] == "RecursionLimitExceeded"]
            guarded = False
            for o in err:
                for c in o["conds"]:
                    nb = normalize_bool_cond(c)
                    if nb and nb[0][0] == "binop" and nb[0][1] == "Eq" and nb[0][3] == ("const", 0) and "recurse" in show(nb[0][2]) and nb[1] is True:
                        guarded = True
            effs = [e for e in pv.effects() if e["kind"] == "assign" and "recurse" in show(e["place"])]
            dec = any("SubWithOverflow" in show(e["value"]) or "Sub(" in show(e["value"]) for e in effs)
            ok = bool(err) and guarded and dec
            for g in cib.real_fns():
                for bb, t in g.calls():
                    if (callee_path(t) or "").endswith("::recurse"):
                        n_sites += 1
        ctx.ob(rule, "ciborium:recurse-guard", ok and n_sites >= 5,
               "Deserializer::recurse returns RecursionLimitExceeded when the budget is 0 and decrements it otherwise; %d descent sites go through it" % n_sites,
               sample={"descent_sites_through_guard": n_sites})
    if "integers" in parts:
        for ty in ("i64", "u64"):
            k = "value::integer::<impl core::convert::TryFrom<value::integer::Integer> for %s>::try_from" % ty
            f = cib.fns.get(k)
            rt = Prov(f).return_term() if f else None
            # (the loader spells `T::try_from(x)` as `x.try_into()` with the types swapped - one idiom for the rules)
            ok = rt is not None and (is_call(rt, "core::convert::TryFrom::try_from") or is_call(rt, "core::convert::TryInto::try_into")) \
                and rt[2] == (("field", ("param", 0), "0"),)
            inner_ty = None
            if ok:
                c = f.blocks[rt[3][1]]["term"]["callee"]
                inner_ty = c.get("args")
                ok = c.get("args") in ([ty, "i128"], ["i128", ty]) and (c.get("args") == ["i128", ty]) == bool(c.get("was_try_from")) \
                    and c.get("crate") == "core"
            ctx.ob(rule, "ciborium:TryFrom<Integer>-for-%s" % ty, bool(ok),
                   "TryFrom<Integer> for %s is core's checked %s::try_from(i128)" % (ty, ty), detail={"return": show(rt)[:120] if rt else None, "callee_args": inner_ty})
            k2 = "<value::integer::Integer as core::convert::From<%s>>::from" % ty
            g = cib.fns.get(k2)
            rt2 = Prov(g).return_term() if g else None
            ok2 = rt2 == ("aggr", "value::integer::Integer", "Integer", (("0", ("cast", "IntToInt", ("param", 0), "i128")),))
            ctx.ob(rule, "ciborium:From<%s>-for-Integer" % ty, bool(ok2), "From<%s> for Integer is the widening cast to i128" % ty,
                   detail={"return": show(rt2)[:120] if rt2 else None})


def _sub(t):
    from lib.prov import subterms
    return list(subterms(t))
