"""The value extractors of util::ValueTryAs, on which every decoder table is built (DESIGN 5, dependency closure).

The codec rules read `value.try_as_bytes()?` as "the byte string, if the value is one" by the NAME of the callee; this module
checks that each extractor is what its name says: on its own variant it returns the payload itself (not a copy that was edited
on the way - DESIGN 3.18), on every other variant the type error of the whole value, and nothing else."""
from lib.prov import Prov, show, is_call, strip_sites
from lib.guards import outcomes, path_variants, normalize_bool_cond

REGISTER = False
P0 = ("param", 0)
PREFIX = "<ciborium::value::Value as util::ValueTryAs>::"
SIMPLE = {
    "try_as_integer": ("Integer", ("field", ("variant", P0, "Integer"), "0")),
    "try_as_bytes": ("Bytes", ("field", ("variant", P0, "Bytes"), "0")),
    "try_as_array": ("Array", ("field", ("variant", P0, "Array"), "0")),
    "try_as_map": ("Map", ("field", ("variant", P0, "Map"), "0")),
    "try_as_string": ("Text", ("field", ("variant", P0, "Text"), "0")),
    "try_as_tag": ("Tag", ("tuple", (("field", ("variant", P0, "Tag"), "0"), ("field", ("variant", P0, "Tag"), "1")))),
}


def _payload_edits(f, pv, o):
    """in-place edits (`a.dedup()`, `b.truncate(n)`, `s.make_ascii_lowercase()`) of the payload between its extraction from the
    value and the return: the term of an edited local is still the term of its definition (DESIGN 3.18)"""
    from lib import codec
    if o["idx"] == "term":
        return ["the Ok value is a call result"]
    st = f.blocks[o["bb"]]["stmts"][o["idx"]]
    ops = list(st["rv"].get("ops", []))
    out = []
    seen = 0
    while ops and seen < 8:
        op = ops.pop()
        seen += 1
        out.extend(pv.tampered(op, o["bb"], o["idx"]))
        d = codec.find_def_stmt(pv, op, o["bb"], o["idx"])
        if d and d[0] == "stmt" and d[1]["k"] == "aggr":
            for op2 in d[1].get("ops", []):
                out.extend(pv.tampered(op2, d[2], d[3]))
    return sorted(set(out))


def check_extractors(ctx, rule, only=None):
    prog = ctx.prog
    for name, (variant, want) in sorted(SIMPLE.items()):
        if only is not None and name not in only:
            continue
        f = prog.fn(PREFIX + name)
        pv = Prov(f)
        outs = outcomes(f, pv)
        oks = [o for o in outs if o["kind"] == "ok"]
        rest = [o for o in outs if o["kind"] != "ok"]
        good = len(oks) == 1 and strip_sites(oks[0]["inner"]) == want \
            and path_variants(prog, pv, oks[0]["conds"]).get(P0) == {variant}
        edits = _payload_edits(f, pv, oks[0]) if len(oks) == 1 else []
        good = good and not edits
        type_errors = all(o["kind"] == "call" and is_call(o["term"]) and o["term"][1].startswith("util::cbor_type_error")
                          and strip_sites(o["term"][2][0]) in (("ref", P0, False), P0) for o in rest) and len(rest) >= 1
        ctx.ob(rule, "extractor:%s" % name, good and type_errors,
               "%s returns the payload of Value::%s itself on that variant and the type error of the whole value otherwise" % (name, variant),
               where=f.span, detail={"exits": [(o["kind"], show(o["inner"] if o.get("inner") is not None else o["term"])[:100]) for o in outs],
                                     "edited_in_place": edits})
    if only is None:
        from rules import c10 as _c10
        _c10.check_convert_helper(ctx, rule)          # try_as_array_then_convert: f over every element of the ARRAY, in order
    if only is None or "try_as_nonempty_bytes" in only:
        f = prog.fn(PREFIX + "try_as_nonempty_bytes")
        pv = Prov(f)
        outs = outcomes(f, pv)
        src = ("tryok", ("call", PREFIX + "try_as_bytes", (P0,)))
        ok_o = [o for o in outs if o["kind"] == "ok"]
        err_o = [o for o in outs if o["kind"] == "err"]
        prop_o = [o for o in outs if o["kind"] == "propagate"]
        other = [o for o in outs if o["kind"] not in ("ok", "err", "propagate")]

        def emptiness(o):
            for c in o["conds"]:
                nb = normalize_bool_cond(c)
                if nb and nb[0][0] == "unop" and nb[0][1] == "Not":
                    nb = (nb[0][2], not nb[1])
                if nb and is_call(nb[0]) and nb[0][1].endswith("::is_empty"):
                    a = nb[0][2][0]
                    while a[0] in ("ref", "deref"):
                        a = a[1]
                    if strip_sites(a) == src:
                        return nb[1]
            return None
        good = (len(ok_o) == 1 and strip_sites(ok_o[0]["inner"]) == src and emptiness(ok_o[0]) is False
                and len(err_o) == 1 and err_o[0]["inner"][0] == "aggr" and err_o[0]["inner"][2] == "UnexpectedItem" and emptiness(err_o[0]) is True
                and len(prop_o) == 1 and strip_sites(prop_o[0]["inner"]) == src[1] and not other)
        ctx.ob(rule, "extractor:try_as_nonempty_bytes", good,
               "try_as_nonempty_bytes is try_as_bytes()? returned unchanged when non-empty and rejected when empty", where=f.span,
               detail={"exits": [(o["kind"], show(o["inner"] if o.get("inner") is not None else o["term"])[:100]) for o in outs]})


def check_to_cbor_array(ctx, rule):
    """util::to_cbor_array(c) is Value::Array of e.to_cbor_value()? for every element of c in order - the encoder-side helper the
    array<T> kinds of every encoder table stand for (decided on the sequence value of the returned array)"""
    from lib.seq import Seq, normalize, X
    from lib import codec
    prog = ctx.prog
    f = prog.fn(codec.TO_ARRAY)
    pv = Prov(f)
    outs = outcomes(f, pv)
    oks = [o for o in outs if o["kind"] == "ok"]
    good = False
    det = {}
    if len(oks) == 1:
        inner = oks[0]["inner"]
        det["returns"] = show(inner)[:160]
        if inner[0] == "aggr" and inner[1] == "ciborium::value::Value" and inner[2] == "Array":
            s = None
            if oks[0]["idx"] == "term":
                # `collect::<Result<Vec<_>>>().map(Value::Array)`: the Ok value is the reduction of a combinator call, not a
                # statement - the sequence value of its payload term
                if inner[3]:
                    s = normalize(Seq(f, pv).of_value(inner[3][0][1]))
            else:
                st = f.blocks[oks[0]["bb"]]["stmts"][oks[0]["idx"]]
                d = codec.find_def_stmt(pv, st["rv"]["ops"][0], oks[0]["bb"], oks[0]["idx"])
                if d and d[0] == "stmt" and d[1]["k"] == "aggr":
                    s = normalize(Seq(f, pv).of_operand(d[1]["ops"][0], d[2], d[3]))
            if s is not None:
                det["sequence"] = str(s)[:240]
                if s[0] == "map" and s[2][0] == "elems" and s[2][2] == 0 and s[2][3] is None and strip_sites(s[2][1]) == P0:
                    F = strip_sites(s[1])
                    good = F[0] == "tryok" and is_call(F[1]) and F[1][1].endswith("::to_cbor_value") and F[1][2] == (X,)
    def _passes_on(o):
        # `r.map(Value::Array)`: the Err of r handed on unchanged is a propagation
        if o["kind"] != "err" or not oks or not oks[0]["inner"][3]:
            return False
        okp = oks[0]["inner"][3][0][1]
        return okp[0] == "tryok" and o["inner"] == ("field", ("variant", okp[1], "Err"), "0")
    others = [o for o in outs if o["kind"] not in ("ok", "propagate") and not _passes_on(o)]
    ctx.ob(rule, "helper:to_cbor_array", good and not others,
           "to_cbor_array(c) = Value::Array([e.to_cbor_value()? for e in c]), every element once and in order", where=f.span, detail=det)
