"""C16 - label ordering is a total order equal to CBOR's deterministic key ordering."""
import itertools
from lib.prov import Prov, show, is_call, subterms
from lib.guards import outcomes, path_variants, normalize_bool_cond, cond_variants

REGISTER = True
META = {
    "level": "other",
    "explanation": "The comparison functions are reduced to their decision table (every path of the MIR: variant pair, sign pair, and the "
                   "primitive comparison at the leaf with its argument order). The table is then evaluated on a lattice of boundary labels "
                   "and compared with an oracle that is independent of the code: bytewise (resp. length-first) comparison of the labels' "
                   "deterministic CBOR encodings computed by this checker. Each table cell is a constant or +-natural order, and so is the "
                   "oracle restricted to that cell, hence agreement on samples covering <,=,> per cell decides the cell. "
                   "No coset code is executed. Level 'other': a decision-table comparison, not a proof about all 2^64 integers.",
    "decides": "R-1 Label::cmp's decision table (4 variant pairs x 9 sign pairs) equals bytewise order of the deterministic encodings; it is "
               "Equal exactly on equal labels; antisymmetric and transitive on the sample lattice; R-2 partial_cmp = Some(cmp) for the three "
               "label types; R-3 RegisteredLabel / RegisteredLabelWithPrivate::cmp delegate every integer pair to Label::cmp on "
               "Label::Int(to_i64 / private value) with arguments not swapped, mixed arms return the same constants, text arms compare "
               "length then bytes; R-4 cmp_canonical compares the two encodings' lengths first and the encodings bytewise otherwise, "
               "operands not swapped.",
    "does_not_decide": "the lemma 'table cell agreement on samples => agreement on all values' rests on std's Ord for i64/usize/String/Vec<u8> "
                       "being the natural / bytewise orders (trusted) and on shortest-form heads being monotone within a major type",
    "trusted_base": ["std Ord for i64, usize, String (bytewise), Vec<u8> (lexicographic)", "i64::signum in {-1,0,1}",
                     "RFC 8949 section 4.2.1 / RFC 7049 section 3.9 orderings as implemented by the oracle in this file"],
}

LABEL_CMP = "<common::Label as core::cmp::Ord>::cmp"
ORD_CMP = "core::cmp::Ord::cmp"


# ---- oracle: deterministic CBOR encoding of labels --------------------------------------------------------
def _head(major, n):
    if n < 24:
        return bytes([major << 5 | n])
    for ai, size in ((24, 1), (25, 2), (26, 4), (27, 8)):
        if n < 1 << (8 * size):
            return bytes([major << 5 | ai]) + n.to_bytes(size, "big")
    raise ValueError(n)


def enc(label):
    if isinstance(label, int):
        return _head(0, label) if label >= 0 else _head(1, -1 - label)
    b = label.encode("utf-8")
    return _head(3, len(b)) + b


def sgn(x):
    return (x > 0) - (x < 0)


def ordname(c):
    return {-1: "Less", 0: "Equal", 1: "Greater"}[c]


def cmp(a, b):
    return (a > b) - (a < b)


INTS = [-2 ** 63, -2 ** 63 + 1, -2 ** 32 - 2, -2 ** 32 - 1, -2 ** 32, -65538, -65537, -65536, -258, -257, -256, -26, -25, -24, -2, -1, 0, 1, 2, 7, 23, 24, 25,
        255, 256, 257, 65535, 65536, 2 ** 32 - 1, 2 ** 32, 2 ** 63 - 1]
TEXTS = ["", "a", "b", "aa", "ab", "ba", "é", "z", "a" * 23, "a" * 24, "b" * 23, "a" * 255, "a" * 256, "é" * 12, "zz"]


# ---- decision-table extraction ---------------------------------------------------------------------------------
def decision_table(prog, f):
    """[(variant0, variant1, {subject term: int value} extra conditions, result term)]"""
    pv = Prov(f)
    rows = []
    for o in outcomes(f, pv):
        pvs = path_variants(prog, pv, o["conds"])
        v0 = pvs.get(("deref", ("param", 0)))
        v1 = pvs.get(("deref", ("param", 1)))
        extra = {}
        for c in o["conds"]:
            if c[0][0] == "discr":
                continue
            if c[1] == "eq":
                extra[c[0]] = c[2]
            else:
                extra[c[0]] = ("not", c[2])
        rows.append((v0, v1, extra, o["term"], o))
    return rows, pv


def payload_of(t):
    """which sample component a leaf operand denotes: ('int', side) | ('len', side) | ('text', side) | None"""
    while t[0] in ("ref", "deref") and len(t) >= 2 and t[1][0] != "param":
        t = t[1]
    if t[0] == "ref":
        t = t[1]
    if t[0] == "field" and t[2] == "0" and t[1][0] == "variant" and t[1][1][0] == "deref" and t[1][1][1][0] == "param":
        side = t[1][1][1][1]
        var = t[1][2]
        if var in ("Int", "PrivateUse"):
            return ("int", side)
        if var == "Text":
            return ("text", side)
        if var == "Assigned":
            return ("assigned", side)
    if is_call(t, "alloc::string::String::len"):
        inner = payload_of(t[2][0])
        if inner and inner[0] == "text":
            return ("len", inner[1])
    if is_call(t, "iana::EnumI64::to_i64"):
        inner = payload_of(t[2][0])
        if inner and inner[0] == "assigned":
            return ("int", inner[1])
    return None


class CannotEval(Exception):
    pass


def eval_result(t, a, b, label_cmp=None):
    """evaluate a result term of a comparison function on sample labels a (self) and b (other) -> 'Less'|'Equal'|'Greater'"""
    if t[0] == "aggr" and t[1] == "core::cmp::Ordering":
        return t[2]
    if is_call(t, ORD_CMP):
        x = leaf(t[2][0], a, b)
        y = leaf(t[2][1], a, b)
        return ordname(cmp(x, y))
    if is_call(t, "core::cmp::Ordering::then"):
        first = eval_result(t[2][0], a, b, label_cmp)
        return first if first != "Equal" else eval_result(t[2][1], a, b, label_cmp)
    if is_call(t, LABEL_CMP) and label_cmp is not None:
        x = label_arg(t[2][0], a, b)
        y = label_arg(t[2][1], a, b)
        return label_cmp(x, y)
    raise CannotEval(show(t)[:100])


def leaf(t, a, b):
    p = payload_of(t)
    if p is None:
        raise CannotEval("operand %s" % show(t)[:80])
    kind, side = p
    v = a if side == 0 else b
    if kind == "int":
        if not isinstance(v, int):
            raise CannotEval("int payload of a text label")
        return v
    if kind == "text":
        return v.encode("utf-8")
    if kind == "len":
        return len(v.encode("utf-8"))
    raise CannotEval(kind)


def label_arg(t, a, b):
    """&Label::Int(x) -> the integer x denotes"""
    while t[0] in ("ref",):
        t = t[1]
    if t[0] == "aggr" and t[1] == "common::Label" and t[2] == "Int":
        return leaf(t[3][0][1], a, b)
    raise CannotEval("label argument %s" % show(t)[:80])


def table_eval(prog, rows, a, b, variant_of, label_cmp=None):
    """find the row selected by (a, b) and evaluate it"""
    va, vb = variant_of(a), variant_of(b)
    hits = []
    for v0, v1, extra, term, o in rows:
        if v0 is not None and va not in v0:
            continue
        if v1 is not None and vb not in v1:
            continue
        ok = True
        for subj, val in extra.items():
            if is_call(subj) and subj[1].endswith("::signum"):
                x = leaf(subj[2][0], a, b)
                s = sgn(x)
                if isinstance(val, tuple):
                    ok = ok and s not in val[1]
                else:
                    ok = ok and s == val
            else:
                nb = None
                raise CannotEval("condition on %s" % show(subj)[:80])
        if ok:
            hits.append((term, o))
    if len(hits) != 1:
        raise CannotEval("%d rows selected for (%r, %r)" % (len(hits), a, b))
    term, o = hits[0]
    if o["kind"] == "call" and is_call(term) and term[1] == "core::panicking::panic":
        return "PANIC"
    return eval_result(term, a, b, label_cmp)


def check(ctx):
    prog = ctx.prog
    f = prog.fn(LABEL_CMP)
    rows, pv = decision_table(prog, f)
    ctx.count("label_cmp_table_rows", len(rows))
    labels = INTS + TEXTS

    def variant_of(x):
        return "Int" if isinstance(x, int) else "Text"

    def label_cmp(a, b):
        return table_eval(prog, rows, a, b, variant_of)

    # R-1 table vs oracle
    bad = []
    undecided = None
    n = 0
    try:
        for a, b in itertools.product(labels, labels):
            n += 1
            got = label_cmp(a, b)
            want = ordname(cmp(enc(a), enc(b)))
            if got != want:
                bad.append((repr(a)[:20], repr(b)[:20], got, want))
    except CannotEval as e:
        undecided = str(e)
    ctx.count("label_pairs_evaluated", n)
    if undecided:
        ctx.cannot("R-1", "table-vs-cbor-order", "Label::cmp is no longer a decision tree over (variant, sign) with comparison leaves: %s" % undecided, where=f.span)
    else:
        ctx.ob("R-1", "table-vs-cbor-order", not bad,
               "Label::cmp's decision table agrees with bytewise comparison of deterministic CBOR encodings on all %d pairs of the boundary lattice "
               "(%d integers across every head-width boundary of both signs, %d texts across length boundaries)" % (n, len(INTS), len(TEXTS)),
               where=f.span, detail={"disagreements": bad[:8]},
               sample={"rows": len(rows), "pairs": n, "example": {"(-1,-2)": label_cmp(-1, -2), "(23,24)": label_cmp(23, 24), "(0,-1)": label_cmp(0, -1)}})
        eqbad = [(a, b) for a, b in itertools.product(labels, labels) if (label_cmp(a, b) == "Equal") != (a == b)]
        ctx.ob("R-1", "equal-iff-same-label", not eqbad, "cmp returns Equal exactly for equal labels (consistency with the derived Eq)", where=f.span,
               detail={"offending": [repr(x)[:40] for x in eqbad[:5]]})
        anti = [(a, b) for a, b in itertools.combinations(labels, 2)
                if {label_cmp(a, b), label_cmp(b, a)} not in ({"Less", "Greater"},)]
        ctx.ob("R-1", "antisymmetric", not anti, "cmp(a,b) and cmp(b,a) are opposite for distinct labels", where=f.span, detail={"offending": [repr(x)[:40] for x in anti[:5]]})
        small = INTS[::3] + TEXTS[:8]
        trans = []
        for a, b, c in itertools.permutations(small, 3):
            if label_cmp(a, b) == "Less" and label_cmp(b, c) == "Less" and label_cmp(a, c) != "Less":
                trans.append((a, b, c))
        ctx.ob("R-1", "transitive", not trans, "transitivity holds on the sample lattice (%d triples)" % (len(small) ** 3), where=f.span,
               detail={"offending": [repr(x)[:60] for x in trans[:3]]})
    # the table must be complete: all 9 sign pairs present with a non-panicking result
    cells = set()
    for v0, v1, extra, term, o in rows:
        if v0 == {"Int"} and v1 == {"Int"}:
            ss = [v for k, v in extra.items() if is_call(k) and k[1].endswith("::signum") and not isinstance(v, tuple)]
            if len(ss) == 2 and not (is_call(term) and "panic" in term[1]):
                cells.add(tuple(ss))
    ctx.ob("R-1", "all-sign-pairs-handled", len(cells) == 9, "all 9 sign combinations of two integer labels have their own non-panicking arm",
           where=f.span, detail={"cells": sorted(cells)})

    # R-2
    for ty in ("common::Label", "common::RegisteredLabel<T>", "common::RegisteredLabelWithPrivate<T>"):
        g = prog.fn("<%s as core::cmp::PartialOrd>::partial_cmp" % ty)
        rt = Prov(g).return_term()
        ok = (rt[0] == "aggr" and rt[2] == "Some" and is_call(rt[3][0][1]) and rt[3][0][1][1] == "<%s as core::cmp::Ord>::cmp" % ty
              and rt[3][0][1][2] == (("param", 0), ("param", 1)))
        ctx.ob("R-2", "partial_cmp:%s" % ty, ok, "%s::partial_cmp(a, b) = Some(a.cmp(b))" % ty, where=g.span, detail={"return": show(rt)[:120]})

    # R-3 delegation
    for ty, intvars in (("common::RegisteredLabel<T>", ["Assigned"]), ("common::RegisteredLabelWithPrivate<T>", ["Assigned", "PrivateUse"])):
        g = prog.fn("<%s as core::cmp::Ord>::cmp" % ty)
        grows, gpv = decision_table(prog, g)
        problems = []
        seen = set()
        for v0, v1, extra, term, o in grows:
            if not v0 or not v1 or len(v0) != 1 or len(v1) != 1 or extra:
                problems.append("row not selected by a single variant pair: %s" % show(term)[:60])
                continue
            a, b = next(iter(v0)), next(iter(v1))
            seen.add((a, b))
            if a in intvars and b in intvars:
                ok = is_call(term, LABEL_CMP)
                if ok:
                    try:
                        x = _which(term[2][0])
                        y = _which(term[2][1])
                        ok = x == (0, a) and y == (1, b)
                    except CannotEval:
                        ok = False
                if not ok:
                    problems.append("(%s,%s) should be Label::Int(self).cmp(&Label::Int(other)), found %s" % (a, b, show(term)[:120]))
            elif a in intvars and b == "Text":
                if term != ("aggr", "core::cmp::Ordering", "Less", ()):
                    problems.append("(%s,Text) should be Less" % a)
            elif a == "Text" and b in intvars:
                if term != ("aggr", "core::cmp::Ordering", "Greater", ()):
                    problems.append("(Text,%s) should be Greater" % b)
            elif a == "Text" and b == "Text":
                try:
                    for s1, s2 in itertools.product(TEXTS, TEXTS):
                        if eval_result(term, s1, s2) != ordname(cmp(enc(s1), enc(s2))):
                            problems.append("text comparison differs from encoded order on (%r,%r)" % (s1[:8], s2[:8]))
                            break
                except CannotEval as e:
                    problems.append("text arm not understood: %s" % e)
        allv = intvars + ["Text"]
        missing = sorted(set(itertools.product(allv, allv)) - seen)
        if missing:
            problems.append("variant pairs without an arm: %s" % missing)
        ctx.ob("R-3", "delegation:%s" % ty, not problems,
               "%s::cmp delegates integer pairs to Label::cmp(Label::Int(self), Label::Int(other)) unswapped; ints before text; text by length then bytes" % ty,
               where=g.span, detail={"problems": problems}, sample={"type": ty, "arms": len(grows)})

    # R-4 cmp_canonical
    h = prog.fn("common::Label::cmp_canonical")
    hp = Prov(h)
    outs = outcomes(h, hp)
    problems = []

    def enc_of(t):
        """unwrap(to_vec(clone(argN))) -> N"""
        while t[0] in ("ref", "deref"):
            t = t[1]
        if is_call(t, "core::result::Result::<T, E>::unwrap") and is_call(t[2][0], "common::CborSerializable::to_vec"):
            c = t[2][0][2][0]
            if is_call(c) and c[1].endswith("::clone") and c[2][0][0] == "param":
                return c[2][0][1]
        return None

    def len_of(t):
        while t[0] in ("ref", "deref"):
            t = t[1]
        if is_call(t, "alloc::vec::Vec::<T, A>::len"):
            return enc_of(t[2][0])
        return None
    got = {}
    for o in outs:
        branch = None
        for c in o["conds"]:
            nb = normalize_bool_cond(c)
            if nb and nb[0][0] == "binop" and nb[0][1] in ("Ne", "Eq"):
                l0, l1 = len_of(nb[0][2]), len_of(nb[0][3])
                if {l0, l1} == {0, 1}:
                    differ = (nb[0][1] == "Ne") == nb[1]
                    branch = "lengths-differ" if differ else "lengths-equal"
        t = o["term"]
        if not is_call(t, ORD_CMP) or branch is None:
            problems.append("unexpected exit %s" % show(t)[:80])
            continue
        if branch == "lengths-differ":
            got[branch] = (len_of(t[2][0]), len_of(t[2][1]))
        else:
            got[branch] = (enc_of(t[2][0]), enc_of(t[2][1]))
    if got != {"lengths-differ": (0, 1), "lengths-equal": (0, 1)}:
        problems.append("expected: lengths differ -> len(enc(self)).cmp(len(enc(other))); else enc(self).cmp(enc(other)); found %s" % got)
    ctx.ob("R-4", "cmp_canonical", not problems,
           "cmp_canonical compares the lengths of the two ENCODINGS first and the encodings bytewise when equal, self before other", where=h.span,
           detail={"problems": problems, "found": got}, sample={"branches": got})


def _which(t):
    """&Label::Int{0: X} -> (side, variant) that X is read from"""
    while t[0] == "ref":
        t = t[1]
    if not (t[0] == "aggr" and t[1] == "common::Label" and t[2] == "Int"):
        raise CannotEval("not Label::Int")
    x = t[3][0][1]
    if is_call(x, "iana::EnumI64::to_i64"):
        x = x[2][0]
    while x[0] in ("ref", "deref") and x[1][0] != "param":
        x = x[1]
    if x[0] == "ref":
        x = x[1]
    if x[0] == "field" and x[2] == "0" and x[1][0] == "variant" and x[1][1] == ("deref", ("param", 0)):
        return (0, x[1][2])
    if x[0] == "field" and x[2] == "0" and x[1][0] == "variant" and x[1][1] == ("deref", ("param", 1)):
        return (1, x[1][2])
    raise CannotEval(show(x)[:60])
