"""C16 - label ordering is a total order equal to CBOR's deterministic key ordering."""
import itertools
from lib.prov import Prov, show, is_call, subterms
from lib.guards import outcomes, path_variants, normalize_bool_cond, cond_variants, path_rows, TooManyPaths

REGISTER = True
META = {
    "level": "other",
    "explanation": "The comparison functions are reduced to their decision table (every path of the MIR: variant pair, sign pair, and the "
                   "primitive comparison at the leaf with its argument order). The table is then evaluated on a lattice of boundary labels "
                   "and compared with an oracle that is independent of the code: bytewise (resp. length-first) comparison of the labels' "
                   "deterministic CBOR encodings computed by this checker. Each table cell is a constant or +-natural order, and so is the "
                   "oracle restricted to that cell, hence agreement on samples covering <,=,> per cell decides the cell. "
                   "No coset code is executed. Level 'other': a decision-table comparison, not a proof about all 2^64 integers.",
    "decides": "R-1 Label::cmp's decision table (4 variant pairs x 9 sign pairs) equals bytewise order of the deterministic encodings; it is "
               "Equal exactly on equal labels; antisymmetric and transitive on the sample lattice; R-2 partial_cmp = Some(cmp) for the three "
               "label types; R-3 RegisteredLabel / RegisteredLabelWithPrivate::cmp delegate every integer pair to Label::cmp on "
               "Label::Int(to_i64 / private value) with arguments not swapped, mixed arms return the same constants, text arms compare "
               "length then bytes; R-4 cmp_canonical compares the two encodings' lengths first and the encodings bytewise otherwise, "
               "operands not swapped.",
    "does_not_decide": "the lemma 'table cell agreement on samples => agreement on all values' rests on std's Ord for i64/usize/String/Vec<u8> "
                       "being the natural / bytewise orders (trusted) and on shortest-form heads being monotone within a major type",
    "trusted_base": ["std Ord for i64, usize, String (bytewise), Vec<u8> (lexicographic)", "i64::signum in {-1,0,1}",
                     "RFC 8949 section 4.2.1 / RFC 7049 section 3.9 orderings as implemented by the oracle in this file"],
}
META["decides"] += ' (As built: all four comparison functions are decided the same way - acyclic paths with path-precise terms, evaluated on the boundary lattice against the oracle; R-3 is that comparison on (variant, value) samples, not a structural match.)'
META["decides"] += ' R-2 also: PartialEq / Eq of the label types are the derived ones.'

LABEL_CMP = "<common::Label as core::cmp::Ord>::cmp"
ORD_CMP = "core::cmp::Ord::cmp"


# ---- oracle: deterministic CBOR encoding of labels --------------------------------------------------------
def _head(major, n):
    if n < 24:
        return bytes([major << 5 | n])
    for ai, size in ((24, 1), (25, 2), (26, 4), (27, 8)):
        if n < 1 << (8 * size):
            return bytes([major << 5 | ai]) + n.to_bytes(size, "big")
    raise ValueError(n)


def enc(label):
    if isinstance(label, int):
        return _head(0, label) if label >= 0 else _head(1, -1 - label)
    b = label.encode("utf-8")
    return _head(3, len(b)) + b


def sgn(x):
    return (x > 0) - (x < 0)


def ordname(c):
    return {-1: "Less", 0: "Equal", 1: "Greater"}[c]


def cmp(a, b):
    return (a > b) - (a < b)


INTS = [-2 ** 63, -2 ** 63 + 1, -2 ** 32 - 2, -2 ** 32 - 1, -2 ** 32, -65538, -65537, -65536, -258, -257, -256, -26, -25, -24, -2, -1, 0, 1, 2, 7, 23, 24, 25,
        255, 256, 257, 65535, 65536, 2 ** 32 - 1, 2 ** 32, 2 ** 63 - 1]
TEXTS = ["", "a", "b", "aa", "ab", "ba", "é", "z", "a" * 23, "a" * 24, "b" * 23, "a" * 255, "a" * 256, "é" * 12, "zz"]


# ---- decision-table extraction ---------------------------------------------------------------------------------
def decision_table(prog, f):
    """one row per acyclic path of the comparison function: (conditions along the path, result term, row record)"""
    pv = Prov(f)
    try:
        rows = path_rows(f, pv, precise=True)
    except TooManyPaths:
        raise CannotEval("%s has too many paths to enumerate" % f.key)
    return rows, pv


class CannotEval(Exception):
    pass


def _side(t):
    """0 / 1 if t is (a reference to / dereference of) parameter 0 / 1"""
    while t[0] in ("ref", "deref"):
        t = t[1]
    return t[1] if t[0] == "param" and t[1] in (0, 1) else None


def payload_of(t):
    """which sample component a leaf operand denotes: ('int', side) | ('len', side) | ('text', side) | ('enc', side) |
    ('enclen', side) | None"""
    while True:
        if t[0] in ("ref", "deref"):
            t = t[1]
        elif is_call(t) and t[1] in ("core::ops::deref::Deref::deref", "alloc::string::String::as_str", "core::convert::AsRef::as_ref",
                                      "alloc::string::String::as_bytes", "core::str::<impl str>::as_bytes",
                                      "alloc::vec::Vec::<T, A>::as_slice", "core::borrow::Borrow::borrow") and len(t[2]) == 1:
            t = t[2][0]     # borrow-only views of the same bytes: the order of the viewed values is the same bytewise order
        else:
            break
    if t[0] == "field" and t[2] == "0" and t[1][0] == "variant" and _side(t[1][1]) is not None:
        side = _side(t[1][1])
        var = t[1][2]
        if var in ("Int", "PrivateUse"):
            return ("int", side)
        if var == "Text":
            return ("text", side)
        if var == "Assigned":
            return ("assigned", side)
    if is_call(t) and t[1] in ("alloc::string::String::len", "core::str::<impl str>::len") and len(t[2]) == 1:
        inner = payload_of(t[2][0])
        if inner and inner[0] == "text":
            return ("len", inner[1])
    if is_call(t) and t[1] in ("alloc::vec::Vec::<T, A>::len", "core::slice::<impl [T]>::len") and len(t[2]) == 1:
        inner = payload_of(t[2][0])
        if inner and inner[0] == "enc":
            return ("enclen", inner[1])
    if is_call(t, "iana::EnumI64::to_i64"):
        inner = payload_of(t[2][0])
        if inner and inner[0] == "assigned":
            return ("int", inner[1])
    # unwrap(to_vec(clone(argN))): the deterministic encoding of the label
    if is_call(t, "core::result::Result::<T, E>::unwrap") and is_call(t[2][0], "common::CborSerializable::to_vec"):
        c = t[2][0][2][0]
        if is_call(c) and c[1].endswith("::clone") and len(c[2]) == 1 and _side(c[2][0]) is not None:
            return ("enc", _side(c[2][0]))
    return None


def _beta(t):
    """resolve `(closure value).i` to the i-th captured term and `*&x` to x"""
    if not isinstance(t, tuple) or not t:
        return t
    if t[0] == "field":
        base = _beta(t[1])
        b = base
        while b[0] in ("ref", "deref"):
            b = b[1]
        if b[0] == "closure" and str(t[2]).isdigit() and int(t[2]) < len(b[2]):
            return b[2][int(t[2])]
        return ("field", base, t[2])
    if t[0] == "deref":
        inner = _beta(t[1])
        return inner[1] if inner[0] == "ref" else ("deref", inner)
    if t[0] == "ref":
        return ("ref", _beta(t[1])) + tuple(t[2:])
    if t[0] == "call":
        return ("call", t[1], tuple(_beta(a) for a in t[2])) + tuple(t[3:])
    if t[0] == "aggr":
        return ("aggr", t[1], t[2], tuple((f, _beta(x)) for f, x in t[3]))
    if t[0] in ("variant",):
        return ("variant", _beta(t[1]), t[2])
    return t


def _closure_result(prog, cl):
    from lib.prov import subst_params
    f = prog.fns.get(cl[1])
    if f is None or not f.blocks:
        raise CannotEval("closure %s has no body" % cl[1])
    rt = Prov(f).return_term()
    if any(isinstance(s, tuple) and s and s[0] in ("phi", "loop", "undef") for s in subterms(rt)):
        raise CannotEval("closure %s is not a single expression" % cl[1])
    return _beta(subst_params(rt, [cl]))


def eval_result(prog, t, a, b, label_cmp=None):
    """evaluate a result term of a comparison function on sample labels a (self) and b (other) -> 'Less'|'Equal'|'Greater'"""
    if t[0] == "aggr" and t[1] == "core::cmp::Ordering":
        return t[2]
    if is_call(t, ORD_CMP):
        x = leaf(t[2][0], a, b)
        y = leaf(t[2][1], a, b)
        return ordname(cmp(x, y))
    if is_call(t, "core::cmp::Ordering::then"):
        first = eval_result(prog, t[2][0], a, b, label_cmp)
        return first if first != "Equal" else eval_result(prog, t[2][1], a, b, label_cmp)
    if is_call(t, "core::cmp::Ordering::then_with") and t[2][1][0] == "closure":
        first = eval_result(prog, t[2][0], a, b, label_cmp)
        return first if first != "Equal" else eval_result(prog, _closure_result(prog, t[2][1]), a, b, label_cmp)
    if is_call(t, "core::cmp::Ordering::reverse"):
        return {"Less": "Greater", "Greater": "Less", "Equal": "Equal"}[eval_result(prog, t[2][0], a, b, label_cmp)]
    if is_call(t, LABEL_CMP) and label_cmp is not None:
        x = label_arg(t[2][0], a, b)
        y = label_arg(t[2][1], a, b)
        return label_cmp(x, y)
    raise CannotEval(show(t)[:100])


def leaf(t, a, b):
    if t[0] == "const" and isinstance(t[1], int):
        return t[1]
    p = payload_of(t)
    if p is None:
        # a pure expression over the labels' components (a sort key such as `(i < 0, magnitude)`): evaluate the TERM
        # with the components it mentions bound to the sample's values
        from lib.evalterm import ev, Unknown
        env = {}
        for s in subterms(t):
            ps = payload_of(s) if isinstance(s, tuple) and s and s[0] in ("field", "call") else None
            if ps is not None and ps[0] != "assigned" and s not in env:
                env[s] = leaf(s, a, b)
        if env:
            try:
                return ev(t, env)
            except (Unknown, TypeError, ValueError, KeyError, IndexError):
                pass
        raise CannotEval("operand %s" % show(t)[:80])
    kind, side = p
    v = a if side == 0 else b
    if isinstance(v, tuple):
        v = v[1]          # (variant, value) samples of the registered-label types
    if kind == "int":
        if not isinstance(v, int):
            raise CannotEval("int payload of a text label")
        return v
    if kind == "text":
        if isinstance(v, int):
            raise CannotEval("text payload of an integer label")
        return v.encode("utf-8")
    if kind == "len":
        if isinstance(v, int):
            raise CannotEval("text payload of an integer label")
        return len(v.encode("utf-8"))
    if kind == "enc":
        return enc(v)
    if kind == "enclen":
        return len(enc(v))
    raise CannotEval(kind)


def label_arg(t, a, b):
    """&Label::Int(x) -> the integer x denotes"""
    while t[0] in ("ref",):
        t = t[1]
    if t[0] == "aggr" and t[1] == "common::Label" and t[2] == "Int":
        return leaf(t[3][0][1], a, b)
    while t[0] in ("ref", "deref"):
        t = t[1]
    if t == ("param", 0):
        return a            # the function's own operands handed on whole (`self.cmp(other)` as a fast path)
    if t == ("param", 1):
        return b
    raise CannotEval("label argument %s" % show(t)[:80])


def scalar(t, a, b):
    """value of a scalar condition subject on the sample"""
    if is_call(t) and t[1].endswith("::signum") and len(t[2]) == 1:
        return sgn(leaf(t[2][0], a, b))
    if t[0] == "binop" and t[1] in ("Eq", "Ne", "Lt", "Le", "Gt", "Ge"):
        x, y = leaf(t[2], a, b), leaf(t[3], a, b)
        return int({"Eq": x == y, "Ne": x != y, "Lt": x < y, "Le": x <= y, "Gt": x > y, "Ge": x >= y}[t[1]])
    if t[0] == "unop" and t[1] == "Not":
        return int(not scalar(t[2], a, b))
    if is_call(t) and t[1] in ("core::cmp::PartialEq::eq", "core::cmp::PartialEq::ne") and len(t[2]) == 2:
        x, y = leaf(t[2][0], a, b), leaf(t[2][1], a, b)
        return int((x == y) == t[1].endswith("::eq"))
    if is_call(t) and t[1].endswith("::is_negative") and len(t[2]) == 1:
        return int(leaf(t[2][0], a, b) < 0)
    if is_call(t) and t[1].endswith("::is_positive") and len(t[2]) == 1:
        return int(leaf(t[2][0], a, b) > 0)
    return leaf(t, a, b)


def cond_holds(prog, pv, c, a, b, variant_of):
    subj, kind, val = c
    if subj[0] == "discr":
        cv = cond_variants(prog, pv, c)
        if cv is None or _side(cv[0]) is None or cv[0][0] == "param":
            raise CannotEval("condition on %s" % show(subj)[:80])
        return variant_of(a if _side(cv[0]) == 0 else b) in cv[1]
    v = scalar(subj, a, b)
    if kind == "eq":
        return v == val
    if kind == "ne":
        return v not in val
    if kind == "in":
        return v in val
    raise CannotEval("condition kind %s" % kind)


def table_eval(prog, table, a, b, variant_of, label_cmp=None):
    """find the row (path) selected by (a, b) and evaluate its result"""
    rows, pv = table
    hits = []
    for r in rows:
        ok = True
        for c in r["conds"]:
            if not cond_holds(prog, pv, c, a, b, variant_of):
                ok = False
                break
        if ok:
            hits.append(r)
    if len(hits) != 1:
        raise CannotEval("%d paths selected for (%r, %r)" % (len(hits), a, b))
    r = hits[0]
    if r["kind"] == "diverge":
        return "PANIC"
    return eval_result(prog, r["term"], a, b, label_cmp)


def row_variants(prog, pv, r):
    """(variants of self, variants of other, other conditions) a path requires; None sets = unconstrained; an empty
    set = the path is infeasible"""
    vs = {0: None, 1: None}
    extra = []
    for c in r["conds"]:
        cv = cond_variants(prog, pv, c) if c[0][0] == "discr" else None
        if cv and _side(cv[0]) is not None:
            s = _side(cv[0])
            vs[s] = set(cv[1]) if vs[s] is None else vs[s] & set(cv[1])
        else:
            extra.append(c)
    return vs[0], vs[1], extra


def check(ctx, consistency_only=False):
    """consistency_only: what an ordered SET of labels needs (C12) - cmp is Equal exactly on equal values, antisymmetric and
    transitive, partial_cmp agrees - and not which total order it is (R-1's oracle comparison, R-4)"""
    prog = ctx.prog
    # Eq-consistency is stated against the derived (structural) equality of the label types
    from rules import structs_common as _S
    _S.check_derived_impls(ctx, "R-2", {"core::cmp::PartialEq", "core::cmp::Eq"})
    f = prog.fn(LABEL_CMP)
    labels = INTS + TEXTS

    def variant_of(x):
        if isinstance(x, tuple):
            return x[0]
        return "Int" if isinstance(x, int) else "Text"

    table = None
    undecided = None
    try:
        table = decision_table(prog, f)
        ctx.count("label_cmp_table_rows", len(table[0]))
    except CannotEval as e:
        undecided = str(e)

    def label_cmp(a, b):
        return table_eval(prog, table, a, b, variant_of)

    # R-1 table vs oracle
    bad = []
    n = 0
    if table is not None:
        try:
            for a, b in itertools.product(labels, labels):
                n += 1
                got = label_cmp(a, b)
                want = ordname(cmp(enc(a), enc(b)))
                if got != want:
                    bad.append((repr(a)[:20], repr(b)[:20], got, want))
        except CannotEval as e:
            undecided = str(e)
    ctx.count("label_pairs_evaluated", n)
    if undecided:
        ctx.cannot("R-1", "table-vs-cbor-order", "Label::cmp is no longer a decision tree over (variant, sign) with comparison leaves: %s" % undecided, where=f.span)
    else:
        if not consistency_only:
              ctx.ob("R-1", "table-vs-cbor-order", not bad,
                   "Label::cmp's decision table agrees with bytewise comparison of deterministic CBOR encodings on all %d pairs of the boundary lattice "
                   "(%d integers across every head-width boundary of both signs, %d texts across length boundaries)" % (n, len(INTS), len(TEXTS)),
                   where=f.span, detail={"disagreements": bad[:8]},
                   sample={"rows": len(table[0]), "pairs": n, "example": {"(-1,-2)": label_cmp(-1, -2), "(23,24)": label_cmp(23, 24), "(0,-1)": label_cmp(0, -1)}})
        eqbad = [(a, b) for a, b in itertools.product(labels, labels) if (label_cmp(a, b) == "Equal") != (a == b)]
        ctx.ob("R-1", "equal-iff-same-label", not eqbad, "cmp returns Equal exactly for equal labels (consistency with the derived Eq)", where=f.span,
               detail={"offending": [repr(x)[:40] for x in eqbad[:5]]})
        anti = [(a, b) for a, b in itertools.combinations(labels, 2)
                if {label_cmp(a, b), label_cmp(b, a)} not in ({"Less", "Greater"},)]
        ctx.ob("R-1", "antisymmetric", not anti, "cmp(a,b) and cmp(b,a) are opposite for distinct labels", where=f.span, detail={"offending": [repr(x)[:40] for x in anti[:5]]})
        small = INTS[::3] + TEXTS[:8]
        trans = []
        for a, b, c in itertools.permutations(small, 3):
            if label_cmp(a, b) == "Less" and label_cmp(b, c) == "Less" and label_cmp(a, c) != "Less":
                trans.append((a, b, c))
        ctx.ob("R-1", "transitive", not trans, "transitivity holds on the sample lattice (%d triples)" % (len(small) ** 3), where=f.span,
               detail={"offending": [repr(x)[:60] for x in trans[:3]]})
        # the table must be complete: every sign pair of two integer labels selects a path that does not panic
        cells = set()
        reps = {-1: (-2 ** 63, -5, -1), 0: (0,), 1: (1, 5, 2 ** 63 - 1)}
        for s1, s2 in itertools.product((-1, 0, 1), repeat=2):
            try:
                if all(label_cmp(x, y) != "PANIC" for x in reps[s1] for y in reps[s2]):
                    cells.add((s1, s2))
            except CannotEval:
                pass
        ctx.ob("R-1", "all-sign-pairs-handled", len(cells) == 9, "all 9 sign combinations of two integer labels have their own non-panicking arm",
               where=f.span, detail={"cells": sorted(cells)})

    # R-2
    for ty in ("common::Label", "common::RegisteredLabel<T>", "common::RegisteredLabelWithPrivate<T>"):
        g = prog.fn("<%s as core::cmp::PartialOrd>::partial_cmp" % ty)
        rt = Prov(g).return_term()
        ok = (rt[0] == "aggr" and rt[2] == "Some" and is_call(rt[3][0][1]) and rt[3][0][1][1] == "<%s as core::cmp::Ord>::cmp" % ty
              and rt[3][0][1][2] == (("param", 0), ("param", 1)))
        ctx.ob("R-2", "partial_cmp:%s" % ty, ok, "%s::partial_cmp(a, b) = Some(a.cmp(b))" % ty, where=g.span, detail={"return": show(rt)[:120]})

    # R-3 the registered-label types order like the labels they stand for: their decision tables evaluated on the lattice
    small_ints = INTS[::2] + [-1, 0, 1, 23, 24]
    small_texts = TEXTS[:10]
    for ty, intvars in (("common::RegisteredLabel<T>", ["Assigned"]), ("common::RegisteredLabelWithPrivate<T>", ["Assigned", "PrivateUse"])):
        g = prog.fn("<%s as core::cmp::Ord>::cmp" % ty)
        problems = []
        npairs = 0
        paths = 0
        try:
            gtable = decision_table(prog, g)
            paths = len(gtable[0])
            samples = [(v, i) for v in intvars for i in small_ints] + [("Text", s) for s in small_texts]
            for a, b in itertools.product(samples, samples):
                npairs += 1
                got = table_eval(prog, gtable, a, b, variant_of, label_cmp if table is not None else None)
                want = ordname(cmp(enc(a[1]), enc(b[1])))
                if consistency_only:
                    # Equal exactly on the same value, and opposite answers for the two argument orders
                    rev = table_eval(prog, gtable, b, a, variant_of, label_cmp if table is not None else None)
                    same = a == b or (a[1] == b[1] and want == "Equal")
                    if (got == "Equal") != same or (not same and {got, rev} != {"Less", "Greater"}):
                        problems.append("cmp(%s(%r), %s(%r)) = %s and the reverse %s: not a consistent order" % (a[0], a[1], b[0], b[1], got, rev))
                        if len(problems) > 5:
                            break
                    continue
                if got != want:
                    problems.append("cmp(%s(%r), %s(%r)) = %s, the labels they denote order as %s" % (
                        a[0], a[1] if isinstance(a[1], int) else a[1][:8], b[0], b[1] if isinstance(b[1], int) else b[1][:8], got, want))
                    if len(problems) > 5:
                        break
        except CannotEval as e:
            problems.append("not understood: %s" % e)
        undec = any(p.startswith("not understood") for p in problems)
        ctx.ob("R-3", "delegation:%s" % ty, not problems,
               "%s::cmp orders values exactly like the labels they denote (integer variants by Label's integer order - delegated or "
               "computed alike - , integers before text, text by length then bytes): decision table vs oracle on %d pairs" % (ty, npairs),
               where=g.span, detail={"problems": problems[:6]}, sample={"type": ty, "paths": paths, "pairs": npairs},
               kind="cannot-decide" if undec else None)

    if consistency_only:
        return
    # R-4 cmp_canonical: evaluated over the same lattice against the length-first order of the encodings
    h = prog.fn("common::Label::cmp_canonical")
    problems = []
    npairs = 0
    try:
        htable = decision_table(prog, h)
        for a, b in itertools.product(labels, labels):
            npairs += 1
            got = table_eval(prog, htable, a, b, variant_of, label_cmp if table is not None else None)   # (a fast path may delegate to Ord)
            ea, eb = enc(a), enc(b)
            want = ordname(cmp((len(ea), ea), (len(eb), eb)))
            if got != want:
                problems.append("cmp_canonical(%r, %r) = %s, length-first order of the encodings says %s" % (a if isinstance(a, int) else a[:8], b if isinstance(b, int) else b[:8], got, want))
                if len(problems) > 5:
                    break
        hrows = len(htable[0])
    except CannotEval as e:
        hrows = 0
        problems.append("not understood: %s" % e)
    undec = any(p.startswith("not understood") for p in problems)
    ctx.ob("R-4", "cmp_canonical", not problems,
           "cmp_canonical compares the lengths of the two ENCODINGS first and the encodings bytewise when equal, self before other", where=h.span,
           detail={"problems": problems}, sample={"paths": hrows, "pairs": npairs}, kind="cannot-decide" if undec else None)


def _which(t):
    """&Label::Int{0: X} -> (side, variant) that X is read from"""
    while t[0] == "ref":
        t = t[1]
    if not (t[0] == "aggr" and t[1] == "common::Label" and t[2] == "Int"):
        raise CannotEval("not Label::Int")
    x = t[3][0][1]
    if is_call(x, "iana::EnumI64::to_i64"):
        x = x[2][0]
    while x[0] in ("ref", "deref") and x[1][0] != "param":
        x = x[1]
    if x[0] == "ref":
        x = x[1]
    if x[0] == "field" and x[2] == "0" and x[1][0] == "variant" and x[1][1] == ("deref", ("param", 0)):
        return (0, x[1][2])
    if x[0] == "field" and x[2] == "0" and x[1][0] == "variant" and x[1][1] == ("deref", ("param", 1)):
        return (1, x[1][2])
    raise CannotEval(show(x)[:60])
