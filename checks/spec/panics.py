"""Panic ledger tables for C01 R-2 (DESIGN Appendix B.4).

DOCUMENTED: the panic conditions the property texts (C01, C04, C05, C19) and the crate's rustdoc allow:
(function key, callee) -> condition.  Every public function from which such a site is reachable must
carry a `# Panics` rustdoc section, and no decode entry point may reach it.

INVARIANT: sites that can never fire; each names the discharge rule that is checked on every run.

BENIGN_FORWARDERS: #[track_caller] callees that do not panic themselves.
"""

UNWRAP_O = "core::option::Option::<T>::unwrap"
EXPECT_O = "core::option::Option::<T>::expect"
UNWRAP_R = "core::result::Result::<T, E>::unwrap"
EXPECT_R = "core::result::Result::<T, E>::expect"
PANIC = "core::panicking::panic"
PANIC_FMT = "core::panicking::panic_fmt"
INDEX = "core::ops::index::Index::index"

DOCUMENTED = {
    ("sign::CoseSign::verify_signature", INDEX): "signer index `which` >= signatures.len()",
    ("sign::CoseSign::verify_detached_signature", INDEX): "signer index `which` >= signatures.len()",
    ("sign::CoseSign::tbs_detached_data", PANIC): "payload embedded while a detached payload is supplied",
    ("sign::CoseSign1::tbs_detached_data", PANIC): "payload embedded while a detached payload is supplied",
    ("mac::CoseMac::tbm", EXPECT_O): "payload missing",
    ("mac::CoseMac0::tbm", EXPECT_O): "payload missing",
    ("encrypt::CoseRecipient::decrypt", UNWRAP_O): "no ciphertext",
    ("encrypt::CoseRecipient::decrypt", PANIC_FMT): "non-recipient context",
    ("encrypt::CoseRecipientBuilder::aad", PANIC_FMT): "non-recipient context",
    ("encrypt::CoseEncrypt::decrypt", UNWRAP_O): "no ciphertext",
    ("encrypt::CoseEncrypt0::decrypt", UNWRAP_O): "no ciphertext",
    ("header::HeaderBuilder::value", PANIC): "reserved header label passed to the builder",
    ("key::CoseKeyBuilder::param", PANIC): "reserved key label passed to the builder",
    ("cwt::ClaimsSetBuilder::claim", PANIC): "core claim passed to the builder",
    ("cwt::ClaimsSetBuilder::private_claim", PANIC): "non-private claim id",
}

# fields of a decoded value whose absence / shortness a follow-up helper may refuse (property C01: 'for an in-range signer
# index, and with a payload or ciphertext present where the helper documents that it needs one')
REFUSABLE_FIELDS = {"payload", "ciphertext", "signatures"}

INVARIANT = {
    ("<common::Label as core::cmp::Ord>::cmp", PANIC): "I-signum",
    ("common::Label::cmp_canonical", UNWRAP_R): "I-label-enc",
    ("sign::sig_structure_data", EXPECT_R): "I-enc",
    ("sign::sig_structure_data", UNWRAP_R): "I-writer",
    ("mac::mac_structure_data", EXPECT_R): "I-enc",
    ("mac::mac_structure_data", UNWRAP_R): "I-writer",
    ("encrypt::enc_structure_data", EXPECT_R): "I-enc",
    ("encrypt::enc_structure_data", UNWRAP_R): "I-writer",
}

BENIGN_FORWARDERS = {
    "core::ops::try_trait::FromResidual::from_residual": "forwards the caller location for `?`; does not panic",
    "core::convert::Into::into": "blanket Into -> From; does not panic",
    "core::convert::From::from": "conversion; does not panic",
}

# std integer functions that are NOT #[track_caller] but inherit the caller's overflow checks
# (#[rustc_inherit_overflow_checks], not visible across crates): they panic on overflow in builds with overflow checks.
import re
OVERFLOW_INHERITING = re.compile(
    r"^core::num::<impl [iu](8|16|32|64|128|size)>::"
    r"(abs|pow|isqrt|ilog|ilog2|ilog10|next_power_of_two|div_euclid|rem_euclid|div_floor|div_ceil|next_multiple_of|midpoint|strict_\w+)$"
    r"|^core::ops::arith::(Neg::neg|Add::add|Sub::sub|Mul::mul|Div::div|Rem::rem|AddAssign::add_assign|SubAssign::sub_assign|MulAssign::mul_assign)$"
    r"|^core::iter::traits::iterator::Iterator::(sum|product)$"
    r"|^core::iter::traits::accum::(Sum|Product)::(sum|product)$")


# std operations whose cost is linear in the length of their receiver (C01 R-5: not inside a decode loop on a collection that
# lives across iterations)
LINEAR_SCANS = re.compile(
    r"^core::slice::<impl \[T\]>::(contains|iter\(\)|starts_with|ends_with|binary_search.*|sort.*|reverse|concat|join|to_vec|rotate_.*)$"
    r"|^alloc::vec::Vec::<T, A>::(remove|insert|retain|retain_mut|dedup.*|drain|splice|extend_from_slice|clone|truncate)$"
    r"|^alloc::slice::<impl \[T\]>::(to_vec|sort.*|concat|join)$"
    r"|^core::iter::traits::iterator::Iterator::(any|all|find|find_map|position|rposition|max|min|max_by.*|min_by.*|count|last|nth|sum|product|fold|for_each|collect|eq|cmp)$"
    r"|^<alloc::vec::Vec<.*> as core::clone::Clone>::clone$")
