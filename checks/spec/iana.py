"""IANA registry tables (DESIGN section 4): public enum + variant name -> registered integer.

Transcribed from the registries cited at the top of src/iana/mod.rs
  https://www.iana.org/assignments/cose/cose.xhtml  (header parameters, header algorithm parameters,
     algorithms, key common parameters, key type parameters, key types, elliptic curves),
  https://www.iana.org/assignments/cbor-tags/cbor-tags.xhtml,
  https://www.iana.org/assignments/core-parameters/core-parameters.xhtml#content-formats,
  https://www.iana.org/assignments/cwt/cwt.xhtml
as of the dates given in that file's doc comments, and reviewed entry by entry against the registries
when this table was written.  This is a SECOND COPY that must be changed deliberately: a transposed
or shifted constant in /repo no longer matches it.  Key operations are RFC 8152 section 7.1 table 4.
Names present in the code but not here are reported as unverifiable-new-name (not a violation);
names here but missing in the code are violations (public API removed).
"""

REGISTRIES = {
    "iana::HeaderParameter": {
        "Reserved": 0, "Alg": 1, "Crit": 2, "ContentType": 3, "Kid": 4, "Iv": 5, "PartialIv": 6,
        "CounterSignature": 7, "CounterSignature0": 9, "KidContext": 10, "X5Bag": 32, "X5Chain": 33,
        "X5T": 34, "X5U": 35, "CuphNonce": 256, "CuphOwnerPubKey": 257,
    },
    "iana::HeaderAlgorithmParameter": {
        "PartyVOther": -26, "PartyVNonce": -25, "PartyVIdentity": -24, "PartyUOther": -23, "PartyUNonce": -22,
        "PartyUIdentity": -21, "Salt": -20, "StaticKeyId": -3, "StaticKey": -2, "EphemeralKey": -1,
    },
    "iana::Algorithm": {
        "RS1": -65535, "WalnutDSA": -260, "RS512": -259, "RS384": -258, "RS256": -257, "ES256K": -47,
        "HSS_LMS": -46, "SHAKE256": -45, "SHA_512": -44, "SHA_384": -43, "RSAES_OAEP_SHA_512": -42,
        "RSAES_OAEP_SHA_256": -41, "RSAES_OAEP_RFC_8017_default": -40, "PS512": -39, "PS384": -38,
        "PS256": -37, "ES512": -36, "ES384": -35, "ECDH_SS_A256KW": -34, "ECDH_SS_A192KW": -33,
        "ECDH_SS_A128KW": -32, "ECDH_ES_A256KW": -31, "ECDH_ES_A192KW": -30, "ECDH_ES_A128KW": -29,
        "ECDH_SS_HKDF_512": -28, "ECDH_SS_HKDF_256": -27, "ECDH_ES_HKDF_512": -26, "ECDH_ES_HKDF_256": -25,
        "SHAKE128": -18, "SHA_512_256": -17, "SHA_256": -16, "SHA_256_64": -15, "SHA_1": -14,
        "Direct_HKDF_AES_256": -13, "Direct_HKDF_AES_128": -12, "Direct_HKDF_SHA_512": -11,
        "Direct_HKDF_SHA_256": -10, "EdDSA": -8, "ES256": -7, "Direct": -6, "A256KW": -5, "A192KW": -4,
        "A128KW": -3, "Reserved": 0, "A128GCM": 1, "A192GCM": 2, "A256GCM": 3, "HMAC_256_64": 4,
        "HMAC_256_256": 5, "HMAC_384_384": 6, "HMAC_512_512": 7, "AES_CCM_16_64_128": 10,
        "AES_CCM_16_64_256": 11, "AES_CCM_64_64_128": 12, "AES_CCM_64_64_256": 13, "AES_MAC_128_64": 14,
        "AES_MAC_256_64": 15, "ChaCha20Poly1305": 24, "AES_MAC_128_128": 25, "AES_MAC_256_128": 26,
        "AES_CCM_16_128_128": 30, "AES_CCM_16_128_256": 31, "AES_CCM_64_128_128": 32,
        "AES_CCM_64_128_256": 33, "IV_GENERATION": 34,
    },
    "iana::KeyParameter": {
        "Reserved": 0, "Kty": 1, "Kid": 2, "Alg": 3, "KeyOps": 4, "BaseIv": 5,
    },
    "iana::OkpKeyParameter": {
        "Crv": -1, "X": -2, "D": -4,
    },
    "iana::Ec2KeyParameter": {
        "Crv": -1, "X": -2, "Y": -3, "D": -4,
    },
    "iana::RsaKeyParameter": {
        "N": -1, "E": -2, "D": -3, "P": -4, "Q": -5, "DP": -6, "DQ": -7, "QInv": -8, "Other": -9, "RI": -10,
        "DI": -11, "TI": -12,
    },
    "iana::SymmetricKeyParameter": {
        "K": -1,
    },
    "iana::HssLmsKeyParameter": {
        "Pub": -1,
    },
    "iana::WalnutDsaKeyParameter": {
        "N": -1, "Q": -2, "TValues": -3, "Matrix1": -4, "Permutation1": -5, "Matrix2": -6,
    },
    "iana::KeyType": {
        "Reserved": 0, "OKP": 1, "EC2": 2, "RSA": 3, "Symmetric": 4, "HSS_LMS": 5, "WalnutDSA": 6,
    },
    "iana::EllipticCurve": {
        "Reserved": 0, "P_256": 1, "P_384": 2, "P_521": 3, "X25519": 4, "X448": 5, "Ed25519": 6, "Ed448": 7,
        "Secp256k1": 8,
    },
    "iana::KeyOperation": {
        "Sign": 1, "Verify": 2, "Encrypt": 3, "Decrypt": 4, "WrapKey": 5, "UnwrapKey": 6, "DeriveKey": 7,
        "DeriveBits": 8, "MacCreate": 9, "MacVerify": 10,
    },
    "iana::CborTag": {
        "CoseEncrypt0": 16, "CoseMac0": 17, "CoseSign1": 18, "Cwt": 61, "CoseEncrypt": 96, "CoseMac": 97,
        "CoseSign": 98,
    },
    "iana::CoapContentFormat": {
        "TextPlainUtf8": 0, "CoseEncrypt0": 16, "CoseMac0": 17, "CoseSign1": 18, "LinkFormat": 40, "Xml": 41,
        "OctetStream": 42, "Exi": 47, "Json": 50, "JsonPatchJson": 51, "MergePatchJson": 52, "Cbor": 60,
        "Cwt": 61, "MultipartCore": 62, "CborSeq": 63, "CoseEncrypt": 96, "CoseMac": 97, "CoseSign": 98,
        "CoseKey": 101, "CoseKeySet": 102, "SenmlJson": 110, "SensmlJson": 111, "SenmlCbor": 112,
        "SensmlCbor": 113, "SenmlExi": 114, "SensmlExi": 115, "CoapGroupJson": 256, "DotsCbor": 271,
        "Pkcs7MimeSmimeTypeServerGeneratedKey": 280, "Pkcs7MimeSmimeTypeCertsOnly": 281,
        "Pkcs7MimeSmimeTypeCmcRequest": 282, "Pkcs7MimeSmimeTypeCmcResponse": 283, "Pkcs8": 284,
        "Csrattrs": 285, "Pkcs10": 286, "PkixCert": 287, "SenmlXml": 310, "SensmlXml": 311,
        "SenmlEtchJson": 320, "SenmlEtchCbor": 322, "TdJson": 432, "VndOcfCbor": 10000, "Oscore": 10001,
        "JsonDeflate": 11050, "CborDeflate": 11060, "VndOmaLwm2mTlv": 11542, "VndOmaLwm2mJson": 11543,
        "VndOmaLwm2mCbor": 11544,
    },
    "iana::CwtClaimName": {
        "Hcert": -260, "EuphNonce": -259, "EatMaroePrefix": -258, "EatFido": -257, "Reserved": 0, "Iss": 1,
        "Sub": 2, "Aud": 3, "Exp": 4, "Nbf": 5, "Iat": 6, "Cti": 7, "Cnf": 8, "Scope": 9, "AceProfile": 38,
        "CNonce": 39, "Exi": 40,
    },
}

# IANA assignments the pinned crate does NOT carry (yet), keyed by the name with everything but letters and digits dropped and
# lower-cased: when a later version adds a variant whose name matches one of these, its integer is checked against the registry
# as well (a registry update that swaps two neighbouring ids round-trips through the crate and is visible only here).  Only
# entries whose registration is certain are listed (RFC 9459, RFC 9864, RFC 9053 references in the registries above); a new
# name found neither here nor in REGISTRIES stays "unverifiable-new-name".
NOT_IN_CRATE = {
    "iana::Algorithm": {
        "a128ctr": -65534, "a192ctr": -65533, "a256ctr": -65532, "a128cbc": -65531, "a192cbc": -65530, "a256cbc": -65529,
        "esp256": -9, "esp384": -51, "esp512": -52, "ed25519": -19, "ed448": -53,
        "esb256": -265, "esb320": -266, "esb384": -267, "esb512": -268,
    },
    "iana::HeaderParameter": {
        "countersignaturev2": 11, "countersignatureversion2": 11, "countersignature0v2": 12, "countersignature0version2": 12,
        "kcwt": 13, "kccs": 14, "cwtclaims": 15, "typ": 16,
    },
    "iana::KeyType": {"akp": 7},
    "iana::EllipticCurve": {"brainpoolp256r1": 256, "brainpoolp320r1": 257, "brainpoolp384r1": 258, "brainpoolp512r1": 259},
    "iana::CwtClaimName": {"nonce": 10, "ueid": 256, "sueids": 257},
}


def norm_name(name):
    return "".join(ch for ch in name.lower() if ch.isalnum())


# registries that have a private-use range, and its upper bound (exclusive): values < -65536
PRIVATE_USE = {"iana::HeaderParameter": -65536, "iana::Algorithm": -65536, "iana::EllipticCurve": -65536, "iana::CwtClaimName": -65536}

# RFC 8152 section 2, table 1: CBOR tags of the six taggable message types (public type -> tag)
TAGS = {"sign::CoseSign": 98, "sign::CoseSign1": 18, "encrypt::CoseEncrypt": 96, "encrypt::CoseEncrypt0": 16,
        "mac::CoseMac": 97, "mac::CoseMac0": 17}
