"""RFC 8392 (CBOR Web Token) section 3.1.* / section 4: claim key -> (public field of ClaimsSet, value shape)."""

CLAIMS = {
    1: ("issuer", "tstr"),
    2: ("subject", "tstr"),
    3: ("audience", "tstr"),
    4: ("expiration_time", "nested<cwt::Timestamp>"),
    5: ("not_before", "nested<cwt::Timestamp>"),
    6: ("issued_at", "nested<cwt::Timestamp>"),
    7: ("cwt_id", "bstr"),
}
# every typed claim is optional and emitted iff present, in key order; then the other claims in list order
CLAIMS_EMIT = [(k, f, kind, ["some:%s" % f]) for k, (f, kind) in sorted(CLAIMS.items())]
CLAIMS_EXTRAS = "rest"
CLAIM_KEY_TYPE = "common::RegisteredLabelWithPrivate<iana::CwtClaimName>"
