"""RFC 8152 structure tables (DESIGN Appendix B.1-B.3), keyed by PUBLIC type and field names and
wire-level values only.

Slot kinds:  protected = bstr-wrapped header map (empty_or_serialized_map)
             header    = header map
             bstr, bstr/nil, nonempty-bstr, tstr
             array<T>  = array of T;  nested<T> = a T;  int<u64> / int<i64>
             bstr/int<i64>/nil = PartyInfo nonce
"""

# RFC 8152 sections 4.1, 4.2, 5.1, 5.2, 6.1, 6.2 (messages), 11.2 (KDF context)
# type -> (accepted arities, [(slot index, public field, kind, optional?)], tag or None)
STRUCTS = {
    "sign::CoseSignature": ({3}, [(0, "protected", "protected"), (1, "unprotected", "header"), (2, "signature", "bstr")]),
    "sign::CoseSign": ({4}, [(0, "protected", "protected"), (1, "unprotected", "header"), (2, "payload", "bstr/nil"),
                             (3, "signatures", "array<sign::CoseSignature>")]),
    "sign::CoseSign1": ({4}, [(0, "protected", "protected"), (1, "unprotected", "header"), (2, "payload", "bstr/nil"),
                              (3, "signature", "bstr")]),
    "encrypt::CoseRecipient": ({3, 4}, [(0, "protected", "protected"), (1, "unprotected", "header"), (2, "ciphertext", "bstr/nil"),
                                        (3, "recipients", "array<encrypt::CoseRecipient>", "optional")]),
    "encrypt::CoseEncrypt": ({4}, [(0, "protected", "protected"), (1, "unprotected", "header"), (2, "ciphertext", "bstr/nil"),
                                   (3, "recipients", "array<encrypt::CoseRecipient>")]),
    "encrypt::CoseEncrypt0": ({3}, [(0, "protected", "protected"), (1, "unprotected", "header"), (2, "ciphertext", "bstr/nil")]),
    "mac::CoseMac": ({5}, [(0, "protected", "protected"), (1, "unprotected", "header"), (2, "payload", "bstr/nil"),
                           (3, "tag", "bstr"), (4, "recipients", "array<encrypt::CoseRecipient>")]),
    "mac::CoseMac0": ({4}, [(0, "protected", "protected"), (1, "unprotected", "header"), (2, "payload", "bstr/nil"),
                            (3, "tag", "bstr")]),
}

# RFC 8152 section 11.2
KDF_STRUCTS = {
    "context::PartyInfo": ({3}, [(0, "identity", "bstr/nil"), (1, "nonce", "bstr/int<i64>/nil"), (2, "other", "bstr/nil")]),
    "context::SuppPubInfo": ({2, 3}, [(0, "key_data_length", "int<u64>"), (1, "protected", "protected"),
                                      (2, "other", "bstr", "optional")]),
}

# the eight message types of C09
MESSAGE_TYPES = ["sign::CoseSignature", "sign::CoseSign", "sign::CoseSign1", "encrypt::CoseRecipient", "encrypt::CoseEncrypt",
                 "encrypt::CoseEncrypt0", "mac::CoseMac", "mac::CoseMac0"]

# RFC 8152 section 3.1 table 2: label -> (public field of Header, value shape)
HEADER_PARAMS = {
    1: ("alg", "label<common::RegisteredLabelWithPrivate<iana::Algorithm>>"),
    2: ("crit", "nonempty-array<common::RegisteredLabel<iana::HeaderParameter>>"),
    3: ("content_type", "label<common::RegisteredLabel<iana::CoapContentFormat>>+text-rules"),
    4: ("key_id", "nonempty-bstr"),
    5: ("iv", "nonempty-bstr"),
    6: ("partial_iv", "nonempty-bstr"),
    7: ("counter_signatures", "signature-or-nonempty-array"),
}

# RFC 8152 section 7.1 table 3
KEY_PARAMS = {
    1: ("kty", "label<common::RegisteredLabel<iana::KeyType>>"),
    2: ("key_id", "nonempty-bstr"),
    3: ("alg", "label<common::RegisteredLabelWithPrivate<iana::Algorithm>>"),
    4: ("key_ops", "nonempty-set<common::RegisteredLabel<iana::KeyOperation>>"),
    5: ("base_iv", "nonempty-bstr"),
}

# context strings: RFC 8152 sections 4.4, 5.3, 6.3
CONTEXTS = {
    "sign::SignatureContext": {"CoseSignature": "Signature", "CoseSign1": "Signature1", "CounterSignature": "CounterSignature"},
    "mac::MacContext": {"CoseMac": "MAC", "CoseMac0": "MAC0"},
    "encrypt::EncryptionContext": {"CoseEncrypt": "Encrypt", "CoseEncrypt0": "Encrypt0", "EncRecipient": "Enc_Recipient",
                                   "MacRecipient": "Mac_Recipient", "RecRecipient": "Rec_Recipient"},
}

# Encoder side of the map-shaped structures: label -> [(field, emitted kind, omission guard)] in emission order.
# RFC 8152 section 3.1 (header_map), section 7 (COSE_Key); guards: optional parameters are omitted when absent/empty.
HEADER_EMIT = [
    (1, "alg", "nested<common::RegisteredLabelWithPrivate<iana::Algorithm>>", ["some:alg"]),
    (2, "crit", "array<common::RegisteredLabel<iana::HeaderParameter>>", ["nonempty:crit"]),
    (3, "content_type", "nested<common::RegisteredLabel<iana::CoapContentFormat>>", ["some:content_type"]),
    (4, "key_id", "bstr", ["nonempty:key_id"]),
    (5, "iv", "bstr", ["nonempty:iv"]),
    (6, "partial_iv", "bstr", ["nonempty:partial_iv"]),
    (7, "counter_signatures", "first-of<sign::CoseSignature>", ["nonempty:counter_signatures", "len==1:counter_signatures"]),
    (7, "counter_signatures", "array<sign::CoseSignature>", ["nonempty:counter_signatures", "len!=1:counter_signatures"]),
]
HEADER_EXTRAS = "rest"

KEY_EMIT = [
    (1, "kty", "nested<common::RegisteredLabel<iana::KeyType>>", ["always"]),
    (2, "key_id", "bstr", ["nonempty:key_id"]),
    (3, "alg", "nested<common::RegisteredLabelWithPrivate<iana::Algorithm>>", ["some:alg"]),
    (4, "key_ops", "array<common::RegisteredLabel<iana::KeyOperation>>", ["nonempty:key_ops"]),
    (5, "base_iv", "bstr", ["nonempty:base_iv"]),
]
KEY_EXTRAS = "params"

# ---------------------------------------------------------------------------------------------------------
# to-be-signed / to-be-MACed / AEAD additional data (RFC 8152 sections 4.4, 6.3, 5.3)
# structure function -> the array it serialises, as roles of its parameters (0-based)
STRUCTURES = {
    "sign::sig_structure_data": {"ctx_enum": "sign::SignatureContext", "text": "sign::SignatureContext::text",
                                 "elements": [("context", 0), ("protected", 1), ("optional-protected", 2), ("bstr", 3), ("bstr", 4)]},
    "mac::mac_structure_data": {"ctx_enum": "mac::MacContext", "text": "mac::MacContext::text",
                                "elements": [("context", 0), ("protected", 1), ("bstr", 2), ("bstr", 3)]},
    "encrypt::enc_structure_data": {"ctx_enum": "encrypt::EncryptionContext", "text": "encrypt::EncryptionContext::text",
                                    "elements": [("context", 0), ("protected", 1), ("bstr", 2)]},
}

RECIPIENT_CONTEXTS = {"EncRecipient", "MacRecipient", "RecRecipient"}

# Direct callers of the structure functions and the abstract arguments they must pass (DESIGN B.3).
#   self: 'ref' = &self method (message types), 'builder' = method of a builder wrapping the message in field 0
#   context: variant name, or ('param', i) = caller-selected (recipient contexts only, guarded)
#   sign: None = no sign_protected slot, 'none' = Option::None, ('param', i) = Some(<param i>.protected)
#   aad: parameter index;  payload: 'self-or-empty' | 'self-required' | ('detached', i) | None
ROUTING = {
    "sign::CoseSign::tbs_data": dict(fn="sign::sig_structure_data", self="ref", context="CoseSignature", sign=("param", 2), aad=1, payload="self-or-empty"),
    "sign::CoseSign::tbs_detached_data": dict(fn="sign::sig_structure_data", self="ref", context="CoseSignature", sign=("param", 3), aad=2, payload=("detached", 1)),
    "sign::CoseSign1::tbs_data": dict(fn="sign::sig_structure_data", self="ref", context="CoseSign1", sign="none", aad=1, payload="self-or-empty"),
    "sign::CoseSign1::tbs_detached_data": dict(fn="sign::sig_structure_data", self="ref", context="CoseSign1", sign="none", aad=2, payload=("detached", 1)),
    "mac::CoseMac::tbm": dict(private=True, fn="mac::mac_structure_data", self="ref", context="CoseMac", sign=None, aad=1, payload="self-required"),
    "mac::CoseMac0::tbm": dict(private=True, fn="mac::mac_structure_data", self="ref", context="CoseMac0", sign=None, aad=1, payload="self-required"),
    "encrypt::CoseRecipient::decrypt": dict(fn="encrypt::enc_structure_data", self="ref", context=("param", 1), sign=None, aad=2, payload=None, needs_ciphertext=True),
    "encrypt::CoseRecipientBuilder::aad": dict(private=True, fn="encrypt::enc_structure_data", self="builder-ref", context=("param", 1), sign=None, aad=2, payload=None),
    "encrypt::CoseEncrypt::decrypt": dict(fn="encrypt::enc_structure_data", self="ref", context="CoseEncrypt", sign=None, aad=1, payload=None, needs_ciphertext=True),
    "encrypt::CoseEncryptBuilder::create_ciphertext": dict(fn="encrypt::enc_structure_data", self="builder", context="CoseEncrypt", sign=None, aad=2, payload=None),
    "encrypt::CoseEncryptBuilder::try_create_ciphertext": dict(fn="encrypt::enc_structure_data", self="builder", context="CoseEncrypt", sign=None, aad=2, payload=None),
    "encrypt::CoseEncrypt0::decrypt": dict(fn="encrypt::enc_structure_data", self="ref", context="CoseEncrypt0", sign=None, aad=1, payload=None, needs_ciphertext=True),
    "encrypt::CoseEncrypt0Builder::create_ciphertext": dict(fn="encrypt::enc_structure_data", self="builder", context="CoseEncrypt0", sign=None, aad=2, payload=None),
    "encrypt::CoseEncrypt0Builder::try_create_ciphertext": dict(fn="encrypt::enc_structure_data", self="builder", context="CoseEncrypt0", sign=None, aad=2, payload=None),
}

# Public helpers that hand a structure to the caller's closure (C03-C06 R-3/R-4, C06):
#   kind 'verify': closure(stored field, structure) and the closure's result is returned unchanged
#   kind 'create': closure(structure) / closure(plaintext, structure); result stored in `stores`
#   via: the helper producing the structure; args: (self form, [param indices forwarded in order])
HELPERS = {
    "sign::CoseSign::verify_signature": dict(kind="verify", via="sign::CoseSign::tbs_data", closure=3, stored="signatures[which].signature", fwd=[2, "sig"]),
    "sign::CoseSign::verify_detached_signature": dict(kind="verify", via="sign::CoseSign::tbs_detached_data", closure=4, stored="signatures[which].signature", fwd=[2, 3, "sig"]),
    "sign::CoseSign1::verify_signature": dict(kind="verify", via="sign::CoseSign1::tbs_data", closure=2, stored="signature", fwd=[1]),
    "sign::CoseSign1::verify_detached_signature": dict(kind="verify", via="sign::CoseSign1::tbs_detached_data", closure=3, stored="signature", fwd=[1, 2]),
    "mac::CoseMac::verify_tag": dict(kind="verify", via="mac::CoseMac::tbm", closure=2, stored="tag", fwd=[1]),
    "mac::CoseMac0::verify_tag": dict(kind="verify", via="mac::CoseMac0::tbm", closure=2, stored="tag", fwd=[1]),
    "encrypt::CoseRecipient::decrypt": dict(kind="decrypt", via="encrypt::enc_structure_data", closure=3, stored="ciphertext"),
    "encrypt::CoseEncrypt::decrypt": dict(kind="decrypt", via="encrypt::enc_structure_data", closure=2, stored="ciphertext"),
    "encrypt::CoseEncrypt0::decrypt": dict(kind="decrypt", via="encrypt::enc_structure_data", closure=2, stored="ciphertext"),
    "sign::CoseSign1Builder::create_signature": dict(kind="create", via="sign::CoseSign1::tbs_data", closure=2, stores="signature", fwd=[1], fallible=False),
    "sign::CoseSign1Builder::try_create_signature": dict(kind="create", via="sign::CoseSign1::tbs_data", closure=2, stores="signature", fwd=[1], fallible=True),
    "sign::CoseSign1Builder::create_detached_signature": dict(kind="create", via="sign::CoseSign1::tbs_detached_data", closure=3, stores="signature", fwd=[1, 2], fallible=False),
    "sign::CoseSign1Builder::try_create_detached_signature": dict(kind="create", via="sign::CoseSign1::tbs_detached_data", closure=3, stores="signature", fwd=[1, 2], fallible=True),
    "sign::CoseSignBuilder::add_created_signature": dict(kind="create-sig", via="sign::CoseSign::tbs_data", closure=3, stores="sig.signature", fwd=[2, "sig1"], fallible=False),
    "sign::CoseSignBuilder::try_add_created_signature": dict(kind="create-sig", via="sign::CoseSign::tbs_data", closure=3, stores="sig.signature", fwd=[2, "sig1"], fallible=True),
    "sign::CoseSignBuilder::add_detached_signature": dict(kind="create-sig", via="sign::CoseSign::tbs_detached_data", closure=4, stores="sig.signature", fwd=[2, 3, "sig1"], fallible=False),
    "sign::CoseSignBuilder::try_add_detached_signature": dict(kind="create-sig", via="sign::CoseSign::tbs_detached_data", closure=4, stores="sig.signature", fwd=[2, 3, "sig1"], fallible=True),
    "mac::CoseMacBuilder::create_tag": dict(kind="create", via="mac::CoseMac::tbm", closure=2, stores="tag", fwd=[1], fallible=False),
    "mac::CoseMacBuilder::try_create_tag": dict(kind="create", via="mac::CoseMac::tbm", closure=2, stores="tag", fwd=[1], fallible=True),
    "mac::CoseMac0Builder::create_tag": dict(kind="create", via="mac::CoseMac0::tbm", closure=2, stores="tag", fwd=[1], fallible=False),
    "mac::CoseMac0Builder::try_create_tag": dict(kind="create", via="mac::CoseMac0::tbm", closure=2, stores="tag", fwd=[1], fallible=True),
    "encrypt::CoseRecipientBuilder::create_ciphertext": dict(kind="encrypt", via="encrypt::CoseRecipientBuilder::aad", closure=4, stores="ciphertext", plaintext=2, fwd=[1, 3], fallible=False),
    "encrypt::CoseRecipientBuilder::try_create_ciphertext": dict(kind="encrypt", via="encrypt::CoseRecipientBuilder::aad", closure=4, stores="ciphertext", plaintext=2, fwd=[1, 3], fallible=True),
    "encrypt::CoseEncryptBuilder::create_ciphertext": dict(kind="encrypt", via="encrypt::enc_structure_data", closure=3, stores="ciphertext", plaintext=1, fallible=False),
    "encrypt::CoseEncryptBuilder::try_create_ciphertext": dict(kind="encrypt", via="encrypt::enc_structure_data", closure=3, stores="ciphertext", plaintext=1, fallible=True),
    "encrypt::CoseEncrypt0Builder::create_ciphertext": dict(kind="encrypt", via="encrypt::enc_structure_data", closure=3, stores="ciphertext", plaintext=1, fallible=False),
    "encrypt::CoseEncrypt0Builder::try_create_ciphertext": dict(kind="encrypt", via="encrypt::enc_structure_data", closure=3, stores="ciphertext", plaintext=1, fallible=True),
}
