"""RFC 8152 structure tables (DESIGN Appendix B.1-B.3), keyed by PUBLIC type and field names and
wire-level values only.

Slot kinds:  protected = bstr-wrapped header map (empty_or_serialized_map)
             header    = header map
             bstr, bstr/nil, nonempty-bstr, tstr
             array<T>  = array of T;  nested<T> = a T;  int<u64> / int<i64>
             bstr/int<i64>/nil = PartyInfo nonce
"""

# RFC 8152 sections 4.1, 4.2, 5.1, 5.2, 6.1, 6.2 (messages), 11.2 (KDF context)
# type -> (accepted arities, [(slot index, public field, kind, optional?)], tag or None)
STRUCTS = {
    "sign::CoseSignature": ({3}, [(0, "protected", "protected"), (1, "unprotected", "header"), (2, "signature", "bstr")]),
    "sign::CoseSign": ({4}, [(0, "protected", "protected"), (1, "unprotected", "header"), (2, "payload", "bstr/nil"),
                             (3, "signatures", "array<sign::CoseSignature>")]),
    "sign::CoseSign1": ({4}, [(0, "protected", "protected"), (1, "unprotected", "header"), (2, "payload", "bstr/nil"),
                              (3, "signature", "bstr")]),
    "encrypt::CoseRecipient": ({3, 4}, [(0, "protected", "protected"), (1, "unprotected", "header"), (2, "ciphertext", "bstr/nil"),
                                        (3, "recipients", "array<encrypt::CoseRecipient>", "optional")]),
    "encrypt::CoseEncrypt": ({4}, [(0, "protected", "protected"), (1, "unprotected", "header"), (2, "ciphertext", "bstr/nil"),
                                   (3, "recipients", "array<encrypt::CoseRecipient>")]),
    "encrypt::CoseEncrypt0": ({3}, [(0, "protected", "protected"), (1, "unprotected", "header"), (2, "ciphertext", "bstr/nil")]),
    "mac::CoseMac": ({5}, [(0, "protected", "protected"), (1, "unprotected", "header"), (2, "payload", "bstr/nil"),
                           (3, "tag", "bstr"), (4, "recipients", "array<encrypt::CoseRecipient>")]),
    "mac::CoseMac0": ({4}, [(0, "protected", "protected"), (1, "unprotected", "header"), (2, "payload", "bstr/nil"),
                            (3, "tag", "bstr")]),
}

# RFC 8152 section 11.2
KDF_STRUCTS = {
    "context::PartyInfo": ({3}, [(0, "identity", "bstr/nil"), (1, "nonce", "bstr/int<i64>/nil"), (2, "other", "bstr/nil")]),
    "context::SuppPubInfo": ({2, 3}, [(0, "key_data_length", "int<u64>"), (1, "protected", "protected"),
                                      (2, "other", "bstr", "optional")]),
}

# the eight message types of C09
MESSAGE_TYPES = ["sign::CoseSignature", "sign::CoseSign", "sign::CoseSign1", "encrypt::CoseRecipient", "encrypt::CoseEncrypt",
                 "encrypt::CoseEncrypt0", "mac::CoseMac", "mac::CoseMac0"]

# RFC 8152 section 3.1 table 2: label -> (public field of Header, value shape)
HEADER_PARAMS = {
    1: ("alg", "label<common::RegisteredLabelWithPrivate<iana::Algorithm>>"),
    2: ("crit", "nonempty-array<common::RegisteredLabel<iana::HeaderParameter>>"),
    3: ("content_type", "label<common::RegisteredLabel<iana::CoapContentFormat>>+text-rules"),
    4: ("key_id", "nonempty-bstr"),
    5: ("iv", "nonempty-bstr"),
    6: ("partial_iv", "nonempty-bstr"),
    7: ("counter_signatures", "signature-or-nonempty-array"),
}

# RFC 8152 section 7.1 table 3
KEY_PARAMS = {
    1: ("kty", "label<common::RegisteredLabel<iana::KeyType>>"),
    2: ("key_id", "nonempty-bstr"),
    3: ("alg", "label<common::RegisteredLabelWithPrivate<iana::Algorithm>>"),
    4: ("key_ops", "nonempty-set<common::RegisteredLabel<iana::KeyOperation>>"),
    5: ("base_iv", "nonempty-bstr"),
}

# context strings: RFC 8152 sections 4.4, 5.3, 6.3
CONTEXTS = {
    "sign::SignatureContext": {"CoseSignature": "Signature", "CoseSign1": "Signature1", "CounterSignature": "CounterSignature"},
    "mac::MacContext": {"CoseMac": "MAC", "CoseMac0": "MAC0"},
    "encrypt::EncryptionContext": {"CoseEncrypt": "Encrypt", "CoseEncrypt0": "Encrypt0", "EncRecipient": "Enc_Recipient",
                                   "MacRecipient": "Mac_Recipient", "RecRecipient": "Rec_Recipient"},
}

# Encoder side of the map-shaped structures: label -> [(field, emitted kind, omission guard)] in emission order.
# RFC 8152 section 3.1 (header_map), section 7 (COSE_Key); guards: optional parameters are omitted when absent/empty.
HEADER_EMIT = [
    (1, "alg", "nested<common::RegisteredLabelWithPrivate<iana::Algorithm>>", ["some:alg"]),
    (2, "crit", "array<common::RegisteredLabel<iana::HeaderParameter>>", ["nonempty:crit"]),
    (3, "content_type", "nested<common::RegisteredLabel<iana::CoapContentFormat>>", ["some:content_type"]),
    (4, "key_id", "bstr", ["nonempty:key_id"]),
    (5, "iv", "bstr", ["nonempty:iv"]),
    (6, "partial_iv", "bstr", ["nonempty:partial_iv"]),
    (7, "counter_signatures", "first-of<sign::CoseSignature>", ["nonempty:counter_signatures", "len==1:counter_signatures"]),
    (7, "counter_signatures", "array<sign::CoseSignature>", ["nonempty:counter_signatures", "len!=1:counter_signatures"]),
]
HEADER_EXTRAS = "rest"

KEY_EMIT = [
    (1, "kty", "nested<common::RegisteredLabel<iana::KeyType>>", ["always"]),
    (2, "key_id", "bstr", ["nonempty:key_id"]),
    (3, "alg", "nested<common::RegisteredLabelWithPrivate<iana::Algorithm>>", ["some:alg"]),
    (4, "key_ops", "array<common::RegisteredLabel<iana::KeyOperation>>", ["nonempty:key_ops"]),
    (5, "base_iv", "bstr", ["nonempty:base_iv"]),
]
KEY_EXTRAS = "params"
