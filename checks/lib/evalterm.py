"""Evaluation of pure scalar terms on chosen argument values (guard truth tables, DESIGN 3.5).

A guard that mentions only integer arguments, constants, comparisons and checked arithmetic is
piecewise constant between consecutive constants, so evaluating it on the break points
{c-1, c, c+1} decides equality of guards exactly.  Nothing of coset is executed: this evaluates the
provenance TERM of a boolean, with calls being opaque (-> Unknown) unless a summary is supplied."""
from .prov import wrap_int, INT_RANGES


class Unknown(Exception):
    pass


def ev(t, env, calls=None):
    """env: {('param', i): value, ...}; calls: optional {callee_path: python function(args)->value}"""
    if t in env:
        return env[t]
    k = t[0]
    if k == "const":
        return t[1]
    if k == "binop":
        op = t[1]
        a = ev(t[2], env, calls)
        b = ev(t[3], env, calls)
        if op in ("Eq", "Ne", "Lt", "Le", "Gt", "Ge"):
            return {"Eq": a == b, "Ne": a != b, "Lt": a < b, "Le": a <= b, "Gt": a > b, "Ge": a >= b}[op]
        base = op.replace("WithOverflow", "").replace("Unchecked", "")
        if base in ("Add", "Sub", "Mul"):
            r = {"Add": a + b, "Sub": a - b, "Mul": a * b}[base]
            if op.endswith("WithOverflow"):
                ovf = not (-2 ** 63 <= r <= 2 ** 64 - 1)
                return (r, ovf)
            return r
        if base in ("BitAnd", "BitOr", "BitXor"):
            if isinstance(a, bool) and isinstance(b, bool):
                return {"BitAnd": a and b, "BitOr": a or b, "BitXor": a != b}[base]
            return {"BitAnd": a & b, "BitOr": a | b, "BitXor": a ^ b}[base]
        raise Unknown("binop %s" % op)
    if k == "unop":
        a = ev(t[2], env, calls)
        if t[1] == "Not":
            return (not a) if isinstance(a, bool) else ~a
        if t[1] == "Neg":
            return -a
        raise Unknown("unop %s" % t[1])
    if k == "tuple":
        return tuple(ev(x, env, calls) for x in t[1])
    if k == "field":
        b = ev(t[1], env, calls)
        if isinstance(b, tuple):
            return b[int(t[2])]
        raise Unknown("field of non-tuple")
    if k == "cast" and t[1] == "IntToInt":
        v = ev(t[2], env, calls)
        w = wrap_int(v, t[3])
        if w is None:
            raise Unknown("cast to %s" % t[3])
        return w
    if k == "ref" or k == "deref":
        return ev(t[1], env, calls)
    if k == "call" and calls and t[1] in calls:
        return calls[t[1]](*[ev(a, env, calls) for a in t[2]])
    if k == "phi":
        vals = set()
        for x in t[1]:
            vals.add(ev(x, env, calls))
        if len(vals) == 1:
            return vals.pop()
        raise Unknown("phi with different values")
    raise Unknown("cannot evaluate %s" % (k,))


def consts_in(t, acc=None):
    acc = set() if acc is None else acc
    if isinstance(t, tuple) and t:
        if t[0] == "const" and isinstance(t[1], int) and not isinstance(t[1], bool):
            acc.add(t[1])
        else:
            for x in t[1:]:
                if isinstance(x, tuple):
                    consts_in(x, acc)
                elif isinstance(x, frozenset):
                    for y in x:
                        consts_in(y, acc)
    return acc


def break_points(consts, lo=-2 ** 63, hi=2 ** 63 - 1):
    pts = {lo, hi, 0}
    for c in consts:
        for d in (-2, -1, 0, 1, 2):
            if lo <= c + d <= hi:
                pts.add(c + d)
    return sorted(pts)
