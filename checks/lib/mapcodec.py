"""Extraction of map-shaped decoders / encoders (Header, CoseKey, ClaimsSet): DESIGN C08/C10/C12/C18.

MapDecoder(fn): finds the loop over the input map's entries, names the pieces
    KEY   = this entry's raw key      ('sym','key')
    VALUE = this entry's value        ('sym','value')
    LABEL = the normalised label      ('sym','label')  (= <LabelType>::from_cbor_value(KEY)?)
and yields the dispatch table  label -> [effects on the result struct], with terms rewritten over
those symbols so that rules compare small, readable terms.
"""
from .prov import Prov, show, is_call, subterms, resolve_consts, mk_phi
from .guards import conditions, normalize_bool_cond, outcomes, cond_variants
from .facts import callee_path
from . import codec

NEXT = "core::iter::traits::iterator::Iterator::next"
INTO_ITER = "core::iter::traits::collect::IntoIterator::into_iter"
SET_NEW = "alloc::collections::btree::set::BTreeSet::<T>::new"
SET_CONTAINS = "alloc::collections::btree::set::BTreeSet::<T, A>::contains"
SET_INSERT = "alloc::collections::btree::set::BTreeSet::<T, A>::insert"
CLONE = "core::clone::Clone::clone"


def substitute(t, pairs):
    """replace every occurrence of a key term by its symbol (top-down)"""
    if not isinstance(t, tuple) or not t:
        return t
    for k, v in pairs:
        if t == k:
            return v
    k = t[0]
    if k == "call":
        return ("call", t[1], tuple(substitute(a, pairs) for a in t[2])) + tuple(t[3:])
    if k == "aggr":
        return ("aggr", t[1], t[2], tuple((f, substitute(x, pairs)) for f, x in t[3]))
    if k in ("tuple", "array"):
        return (k, tuple(substitute(x, pairs) for x in t[1]))
    if k == "closure":
        return (k, t[1], tuple(substitute(x, pairs) for x in t[2]))
    if k in ("field", "variant"):
        return (k, substitute(t[1], pairs), t[2])
    if k in ("deref", "tryok", "discr"):
        return (k, substitute(t[1], pairs))
    if k == "ref":
        return (k, substitute(t[1], pairs), t[2])
    if k == "cast":
        return (k, t[1], substitute(t[2], pairs), t[3])
    if k == "binop":
        return (k, t[1], substitute(t[2], pairs), substitute(t[3], pairs))
    if k == "unop":
        return (k, t[1], substitute(t[2], pairs))
    if k == "phi":
        return mk_phi([substitute(x, pairs) for x in t[1]])
    return t


def strip_into_iter(t):
    while is_call(t, INTO_ITER):
        t = t[2][0]
    return t


class MapDecoder:
    def __init__(self, prog, fn, label_decoder_suffix="::from_cbor_value"):
        self.prog = prog
        self.fn = fn
        self.pv = pv = Prov(fn)
        self.problem = None
        cfg = fn.cfg
        self.loop = None
        # the outer loop: next() on into_iter(<the map entries of arg0>)
        for header, body in cfg.loops():
            for bb in sorted(body):
                t = fn.blocks[bb]["term"]
                if t["k"] != "call" or callee_path(t) != NEXT:
                    continue
                recv = pv.operand_term(t["args"][0], bb, "term")
                it = strip_into_iter(recv[1] if recv[0] == "ref" else recv)
                src = None
                if it[0] == "tryok" and is_call(it[1], codec.TRY_MAP) and it[1][2] == (("param", 0),):
                    src = "try_as_map"
                elif it == ("field", ("variant", ("param", 0), "Map"), "0"):
                    src = "match Map"
                if src and cfg.in_loop(bb) and cfg.in_loop(bb)[0] == header:
                    # the entries must be iterated as received: `m.dedup_by(..)` / `m.sort..` / `m.retain(..)` between the
                    # extraction of the map and the loop changes what the decoder sees (DESIGN 3.18)
                    raw = recv[1] if recv[0] == "ref" else recv
                    edits = []
                    while is_call(raw, INTO_ITER):
                        if len(raw) > 3 and raw[3] and raw[3][0] == fn.key:
                            ib = raw[3][1]
                            edits += pv.tampered(fn.blocks[ib]["term"]["args"][0], ib, "term")
                        raw = raw[2][0]
                    if edits:
                        self.problem = "the map's entries are edited before they are iterated: " + "; ".join(sorted(set(edits)))
                        return
                    self.loop = (header, body)
                    self.next_bb = bb
                    self.next_term = pv.call_term(bb)
                    self.map_source = src
        if self.loop is None:
            self.problem = "no loop over the entries of the input map found"
            return
        entry = ("field", ("variant", self.next_term, "Some"), "0")
        self.KEY = ("field", entry, "0")
        self.VALUE = ("field", entry, "1")
        # the normalised label: a `?` on <X>::from_cbor_value(KEY)
        self.LABEL = None
        self.label_decoder = None
        for bb, t in fn.calls():
            if bb not in self.loop[1]:
                continue
            name = callee_path(t)
            if name and name.endswith(label_decoder_suffix) and t["args"]:
                a = pv.operand_term(t["args"][0], bb, "term")
                if a == self.KEY:
                    self.LABEL = ("tryok", pv.call_term(bb))
                    self.label_bb = bb
                    c = t["callee"]
                    self.label_decoder = (c.get("resolved") or {}).get("full") or c["full"]
        if self.LABEL is None:
            self.problem = "no label normalisation `<LabelType>::from_cbor_value(key)?` found in the loop"
            return
        self.pairs = [(self.LABEL, ("sym", "label")), (self.VALUE, ("sym", "value")), (self.KEY, ("sym", "key")),
                      (entry, ("sym", "entry"))]
        self._find_result()
        self._dup_check()
        self._dispatch()

    def sym(self, t):
        return substitute(t, self.pairs)

    # -- the struct being filled in ----------------------------------------------------
    def _find_result(self):
        fn, pv = self.fn, self.pv
        self.result_local = None
        oks = [o for o in outcomes(fn, pv) if o["kind"] == "ok"]
        if len(oks) != 1:
            self.problem = "expected one Ok exit, found %d" % len(oks)
            return
        st = fn.blocks[oks[0]["bb"]]["stmts"][oks[0]["idx"]]
        op = st["rv"]["ops"][0]
        # chase copies to the user variable
        cur = op
        bb, idx = oks[0]["bb"], oks[0]["idx"]
        for _ in range(6):
            if cur["k"] not in ("copy", "move") or cur["place"]["p"]:
                break
            l = cur["place"]["l"]
            if fn.local_name(l):
                self.result_local = l
                break
            ds = list(pv.reaching(l, bb, idx))
            if len(ds) != 1 or ds[0] == -1:
                break
            dl, dbb, didx, payload = pv._defs[ds[0]]
            if didx == "term" or payload["k"] != "use":
                break
            cur, bb, idx = payload["op"], dbb, didx
        self.ok_outcome = oks[0]
        if self.result_local is None:
            self.problem = "cannot identify the struct variable that is returned"

    def field_effects(self):
        """effects on fields of the result struct: list of (field, effect)"""
        out = []
        for e in self.pv.effects():
            p = e["place"]
            f = None
            while p[0] in ("field", "variant", "deref"):
                if p[0] == "field" and p[1] == ("local", self.result_local, self.fn.local_name(self.result_local)):
                    f = p[2]
                p = p[1]
            if f is not None:
                out.append((f, e))
        # `result.field = helper(value)?` where the (inlined) helper builds a fresh Vec / set in a local and hands it back: the
        # pushes / inserts made on that local are the effects on the field (which is empty when its label is first seen)
        final = []
        for f, e in out:
            sub = None
            if e["kind"] == "assign" and e.get("idx") not in (None, "term"):
                st = self.fn.blocks[e["bb"]]["stmts"][e["idx"]]
                if st["rv"]["k"] == "use":
                    from .codec import built_local
                    L = built_local(self.fn, self.pv, st["rv"]["op"], e["bb"], e["idx"])
                    if L is not None:
                        made = [e2 for e2 in self.pv.effects() if e2["kind"] == "call" and e2["place"][0] == "local" and e2["place"][1] == L]
                        if made:
                            sub = []
                            for e2 in made:
                                e3 = dict(e2)
                                e3["place"] = e["place"]
                                e3["via_local"] = L
                                sub.append((f, e3))
            final.extend(sub if sub is not None else [(f, e)])
        return final

    # -- duplicate detection --------------------------------------------------------------
    def _dup_check(self):
        fn, pv = self.fn, self.pv
        body = self.loop[1]
        self.dup = {"contains_bb": None, "insert_bb": None, "seen_new_outside": False, "err_on_contains": False,
                    "seen_never_reset": True, "style": None}
        seen_local = None
        for e in pv.effects():
            if e["kind"] == "call" and e["callee"] == SET_INSERT and e["bb"] in body and e["place"][0] == "local":
                a = e["args"][1]
                inner = a
                if is_call(inner) and inner[1].endswith("::clone"):
                    inner = inner[2][0]
                    if inner[0] == "ref":
                        inner = inner[1]
                if inner == self.LABEL:
                    self.dup["insert_bb"] = e["bb"]
                    seen_local = e["place"][1]
        if seen_local is None:
            return
        self.seen_local = seen_local
        contains_sites = []
        for bb, t in fn.calls():
            if callee_path(t) == SET_CONTAINS and bb in body:
                a0 = pv._borrowed_lvalue(t["args"][0], bb)
                a1 = pv.operand_term(t["args"][1], bb, "term")
                a1 = a1[1] if a1[0] == "ref" else a1
                if a0 == ("local", seen_local, fn.local_name(seen_local)) and a1 == self.LABEL:
                    contains_sites.append(bb)
        # the lookup that guards the duplicate error (a later `debug_assert!(seen.contains(&label))` is another lookup)
        guarding = []
        for o in outcomes(fn, pv):
            if o["kind"] == "err" and o["inner"][0] == "aggr" and o["inner"][2] == "DuplicateMapKey":
                for c in o["conds"]:
                    nb = normalize_bool_cond(c)
                    if nb and is_call(nb[0], SET_CONTAINS) and nb[1] is True and nb[0][3][1] in contains_sites:
                        guarding.append(nb[0][3][1])
        if guarding:
            self.dup["contains_bb"] = guarding[0]
        elif contains_sites:
            self.dup["contains_bb"] = contains_sites[0]
        # where is `seen` created, is it ever reassigned / cleared inside the loop
        for di, d in enumerate(pv._defs):
            if d[0] == seen_local:
                if d[1] in body:
                    self.dup["seen_never_reset"] = False
                elif d[2] == "term" and callee_path(d[3]) == SET_NEW:
                    self.dup["seen_new_outside"] = True
        for e in pv.effects():
            if e["kind"] == "call" and e["place"] == ("local", seen_local, fn.local_name(seen_local)) and e["bb"] in body \
                    and e["callee"] not in (SET_INSERT, SET_CONTAINS):
                self.dup["seen_never_reset"] = False
        # Err(DuplicateMapKey) on the `contains == true` edge, or on `insert == false`
        for o in outcomes(fn, pv):
            if o["kind"] == "err" and o["inner"][0] == "aggr" and o["inner"][2] == "DuplicateMapKey":
                for c in o["conds"]:
                    nb = normalize_bool_cond(c)
                    if nb and is_call(nb[0], SET_CONTAINS) and nb[1] is True and nb[0][3][1] == self.dup["contains_bb"]:
                        self.dup["err_on_contains"] = True
                        self.dup["style"] = "contains-then-insert"
                    if nb and is_call(nb[0], SET_INSERT) and nb[1] is False and nb[0][3][1] == self.dup["insert_bb"]:
                        self.dup["err_on_contains"] = True
                        self.dup["style"] = "insert-returns-false"
                    if nb and nb[0][0] == "unop" and nb[0][1] == "Not" and is_call(nb[0][2], SET_INSERT) and nb[1] is True \
                            and nb[0][2][3][1] == self.dup["insert_bb"]:
                        self.dup["err_on_contains"] = True
                        self.dup["style"] = "insert-returns-false"

    def dup_gate_blocks(self):
        """blocks every write must be dominated by for the duplicate check to precede it"""
        if self.dup.get("style") == "insert-returns-false":
            return [self.dup["insert_bb"]]
        return [b for b in (self.dup["contains_bb"], self.dup["insert_bb"]) if b is not None]

    # -- dispatch -------------------------------------------------------------------------
    def label_of_conds(self, conds):
        """which label(s) a path condition selects: ('int', k) | ('default', excluded ints) | ('text',) | None"""
        prog = self.prog
        int_payload = ("field", ("variant", self.LABEL, "Int"), "0")
        sel = None
        excluded = set()
        for c in conds:
            subj, kind, val = c
            if subj == int_payload:
                if kind == "eq":
                    sel = ("int", val)
                elif kind == "ne":
                    excluded |= set(val)
                continue
            if subj == ("discr", self.LABEL):
                cv = cond_variants(prog, self.pv, c)
                if cv and cv[1] == {"Text"}:
                    sel = ("text",)
                continue
            nb = normalize_bool_cond(c)
            if nb and is_call(nb[0]) and nb[0][1].endswith("::eq"):
                a, b = nb[0][2][0], nb[0][2][1]
                a = a[1] if a[0] == "ref" else a
                b = b[1] if b[0] == "ref" else b
                other = None
                if self._is_label_copy(a):
                    other = b
                elif self._is_label_copy(b):
                    other = a
                if other is not None:
                    k = const_label_int(prog, other)
                    if k is not None:
                        if nb[1] is True:
                            sel = ("int", k)
                        else:
                            excluded.add(k)
        if sel:
            return sel
        if excluded:
            return ("default", tuple(sorted(excluded)))
        return None

    def _is_label_copy(self, t):
        return t == self.LABEL

    def _edge_filter(self, d, s):
        """how taking the edge d->s restricts the label class set: returns function(set)->set or None"""
        fn, pv, prog = self.fn, self.pv, self.prog
        t = fn.blocks[d]["term"]
        if t["k"] != "switch":
            return None
        subj = pv.operand_term(t["op"], d, "term")
        int_payload = ("field", ("variant", self.LABEL, "Int"), "0")
        listed = [v for v, _ in t["targets"]]
        here = [v for v, b in t["targets"] if b == s]
        assigned_discr = ("discr", ("field", ("variant", self.LABEL, "Assigned"), "0"))
        if subj == assigned_discr:
            # `CONST_NAME => ..` patterns on a registered label: a switch on the registry enum's discriminant, which IS the
            # registered integer (C17 R-2: to_i64 is the discriminant)
            subj = int_payload
        if subj == int_payload:
            if s == t["otherwise"] and not here:
                return lambda st: {c for c in st if not (c[0] == "int" and c[1] in listed)}
            if s != t["otherwise"]:
                return lambda st: {c for c in st if c[0] == "int" and c[1] in here}
            return lambda st: {c for c in st if not (c[0] == "int" and c[1] in listed and c[1] not in here)}
        if subj == ("discr", self.LABEL):
            names = prog.enums.get(pv.discr_adt.get(subj), {})
            if s != t["otherwise"] or here:
                vs = {names.get(v) for v in here}
            else:
                vs = {n for d2, n in names.items() if d2 not in listed}
            def f(st, vs=vs):
                out = set()
                for c in st:
                    if c[0] == "text":
                        ok = "Text" in vs
                    elif c[0] == "private":
                        ok = "PrivateUse" in vs
                    elif c[0] == "other-assigned":
                        ok = "Assigned" in vs
                    else:   # ('int', k) and 'other-int'
                        ok = "Int" in vs or "Assigned" in vs
                    if ok:
                        out.add(c)
                return out
            return f
        if t["ty"] == "bool" and is_call(subj) and subj[1].endswith("::eq"):
            a, b = subj[2][0], subj[2][1]
            a = a[1] if a[0] == "ref" else a
            b = b[1] if b[0] == "ref" else b
            other = b if a == self.LABEL else (a if b == self.LABEL else None)
            if other is None:
                return None
            k = const_label_int(prog, other)
            if k is None:
                return None
            truth = (s == t["otherwise"]) if listed == [0] else None
            if truth is None:
                truth = bool(here and here[0] != 0)
            if truth:
                return lambda st: {c for c in st if c == ("int", k)}
            return lambda st: {c for c in st if c != ("int", k)}
        return None

    def _listed_labels(self):
        fn, pv, prog = self.fn, self.pv, self.prog
        ks = set()
        int_payload = ("field", ("variant", self.LABEL, "Int"), "0")
        for bb in self.loop[1]:
            t = fn.blocks[bb]["term"]
            if t["k"] != "switch":
                continue
            subj = pv.operand_term(t["op"], bb, "term")
            if subj == int_payload or subj == ("discr", ("field", ("variant", self.LABEL, "Assigned"), "0")):
                ks |= {v for v, _ in t["targets"]}
            elif is_call(subj) and subj[1].endswith("::eq"):
                for a in subj[2]:
                    a = a[1] if a[0] == "ref" else a
                    if a != self.LABEL:
                        k = const_label_int(prog, a)
                        if k is not None:
                            ks.add(k)
        return ks

    def _dispatch(self):
        """label classes that can reach each block of one loop iteration (forward dataflow, join = union)"""
        fn = self.fn
        cfg = fn.cfg
        header, body = self.loop
        ks = self._listed_labels()
        self.listed = ks
        if "RegisteredLabelWithPrivate" in (self.label_decoder or ""):
            universe = {("int", k) for k in ks} | {("other-assigned",), ("private",), ("text",)}
        else:
            universe = {("int", k) for k in ks} | {("other-int",), ("text",)}
        self.universe = universe
        start = fn.blocks[self.label_bb]["term"]["target"]
        state = {start: set(universe)}
        work = [start]
        while work:
            b = work.pop(0)
            for s in cfg.succ[b]:
                if s == header:
                    continue
                f = self._edge_filter(b, s)
                out = f(state[b]) if f else set(state[b])
                if not out:
                    continue
                if s not in state or not out <= state[s]:
                    state[s] = state.get(s, set()) | out
                    work.append(s)
        self.classes = state
        self.table = {}
        self.outside_effects = []     # writes to the result that are not part of the per-entry dispatch
        for f, e in self.field_effects():
            if e["bb"] not in body:
                self.outside_effects.append((f, e))
                continue
            cls = frozenset(state.get(e["bb"], set()))
            self.table.setdefault(cls, []).append((f, e))

    def skipped_entries(self):
        """blocks from which the loop goes on to the next entry although the current one was neither stored nor rejected:
        a path from the label decoding to a back edge that passes no write to the result (an inner loop that writes counts as
        a write - it may run zero times, that is the entry's business).  [] when every continuing iteration has dispatched."""
        fn = self.fn
        cfg = fn.cfg
        header, body = self.loop
        writes = {e["bb"] for _, e in self.field_effects() if e["bb"] in body}
        for h, b in cfg.loops():
            if h != header and h in body and b & writes:
                writes.add(h)
        start = fn.blocks[self.label_bb]["term"]["target"]
        from .guards import back_edges_taken
        return [x for x in back_edges_taken(fn, start, writes, header) if x in body]

    def classes_at(self, bb):
        return frozenset(self.classes.get(bb, set()))

    def class_name(self, cls):
        """compact name of a label-class set: '1', '2', 'default', 'all', 'pre' ..."""
        if not cls:
            return "pre"
        if cls == frozenset(self.universe):
            return "all"
        ints = sorted(c[1] for c in cls if c[0] == "int")
        rest = sorted(c[0] for c in cls if c[0] != "int")
        if ints and not rest:
            return ",".join(str(i) for i in ints)
        if not ints and set(rest) == {c[0] for c in self.universe if c[0] != "int"}:
            return "default"
        return ",".join([str(i) for i in ints] + rest)

    def reject_sites(self):
        """[(class name, census key, outcome)] for every non-Ok exit of the decoder"""
        from .census import site_key
        out = []
        for o in outcomes(self.fn, self.pv):
            if o["kind"] == "ok":
                continue
            cname, key = self.class_name(self.classes_at(o["bb"])), site_key(o, self.fn, None, self.pv)
            if cname == "pre" and ((key == "propagate:" + codec.TRY_MAP and self.map_source == "try_as_map")
                                   or (key == "type-error:slot?" and self.map_source == "match Map"
                                       and o["term"][2][0] in (("ref", ("param", 0), False), ("param", 0)))):
                key = "not-a-map"    # `value.try_as_map()?` and `match value { Value::Map(m) => m, v => return type_error }`
            out.append((cname, key, o))
        return out


def const_label_int(prog, t):
    """integer a constant label term denotes: Label::Int(k) / Assigned(Enum::V) / constdef of those"""
    t = resolve_consts(prog, t)
    while t[0] in ("ref", "deref") or (is_call(t) and t[1].endswith("::clone") and len(t[2]) == 1):
        t = t[1] if t[0] != "call" else resolve_consts(prog, t[2][0])
    if t[0] == "aggr":
        if t[2] == "Int" and t[3] and t[3][0][1][0] == "const":
            return t[3][0][1][1]
        if t[2] == "Assigned" and t[3] and t[3][0][1][0] == "aggr":
            inner = t[3][0][1]
            ds = prog.enum_discrs(inner[1])
            if ds:
                return ds.get(inner[2])
    return None


class MapEncoder:
    """entries pushed into the Value::Map an encoder returns, in emission order"""

    def __init__(self, prog, fn):
        self.prog = prog
        self.fn = fn
        self.pv = pv = Prov(fn)
        self.problem = None
        self.entries = []
        rc = codec.returned_collection(fn, pv, "Map")
        if rc is None:
            self.problem = "the function does not return Ok(Value::Map(<vec built here>))"
            return
        self.map_local = rc[0]
        els = codec.vec_elements(fn, pv, *rc)
        if els is None:
            self.problem = "cannot follow how the map vector is built"
            return
        for e in els:
            if e.get("via") == "extend":
                # `map.extend(<sequence>)`: the extras written as an iterator chain instead of a loop of pushes
                from .seq import Seq, normalize, X
                s = normalize(Seq(fn, pv).of_operand(e["op"], e["at"][0], e["at"][1]))
                if s[0] == "map" and s[2][0] == "elems" and s[2][2] == 0 and s[2][3] is None and s[1][0] == "tuple" and len(s[1][1]) == 2:
                    kt, vt = s[1][1]
                    ent = {"e": e, "bb": e["bb"], "loop": "seq", "seq_src": s[2][1], "via": "extend", "key_term": kt,
                           "value": {"op": e["op"], "at": e["at"], "term": vt, "conds": e["conds"]},
                           "guard": codec.guard_desc(prog, fn, pv, e)}
                    lab = None
                    if kt[0] == "tryok" and is_call(kt[1]) and kt[1][1].endswith("::to_cbor_value") and len(kt[1][2]) == 1:
                        ent["label_src"] = kt[1][2][0]
                        lab = ("dynamic",)
                    ent["label"] = lab
                    self.entries.append(ent)
                    continue
                self.entries.append({"label": None, "problem": "extended by a sequence that is not understood", "e": e, "bb": e["bb"],
                                     "loop": None})
                continue
            d = codec.find_def_stmt(pv, e["op"], e["at"][0], e["at"][1])
            if not d or d[0] != "stmt" or d[1]["k"] != "aggr" or d[1]["kind"] != "tuple" or len(d[1]["ops"]) != 2:
                self.entries.append({"label": None, "problem": "pushed element is not a (label, value) pair", "e": e, "bb": e["bb"],
                                     "loop": None})
                continue
            kop, vop = d[1]["ops"]
            kt = pv.operand_term(kop, d[2], d[3])
            ve = {"op": vop, "at": (d[2], d[3]), "term": pv.operand_term(vop, d[2], d[3]), "conds": e["conds"]}
            ent = {"e": e, "bb": e["bb"], "loop": e["loop"], "via": e["via"], "key_term": kt, "value": ve,
                   "guard": codec.guard_desc(prog, fn, pv, e)}
            lab = None
            if kt[0] == "tryok" and is_call(kt[1]) and kt[1][1].endswith("::to_cbor_value") and len(kt[1][2]) == 1:
                src = kt[1][2][0]
                k = const_label_int(prog, src)
                if k is not None:
                    lab = ("int", k)
                    ent["label_const"] = src
                else:
                    ent["label_src"] = src
                    lab = ("dynamic",)
            ent["label"] = lab
            if e["loop"] is None:
                ent["kind"], ent["field"] = codec.emit_kind(prog, fn, pv, ve)
                split = self._split_value_arms(ent, vop, d[2], d[3]) if ent["kind"] == "?" else None
                if split:
                    self.entries.extend(split)
                    continue
            self.entries.append(ent)
        self._dupset()
        self._self_mutations()

    def _split_value_arms(self, ent, vop, bb, idx):
        """`let v = if c { A } else { B }; map.push((label, v))` is `if c { push((label, A)) } else { push((label, B)) }`:
        one entry per arm of the value, guarded by the push's conditions plus the arm's own"""
        fn, pv, prog = self.fn, self.pv, self.prog
        alist = codec._def_stmts(pv, vop, bb, idx)
        if len(alist) < 2:
            # the value of a (inlined) helper call taken with `?`: the payloads of the Ok arms the helper returns
            alist = [(t_, b_, None) for t_, b_ in codec.arms(pv, vop, bb, idx)]
        if len(alist) < 2 or len({a[1] for a in alist}) != len(alist):
            return None
        order = {b: i for i, b in enumerate(fn.cfg.rpo)}
        out = []
        for term, dbb, _ in sorted(alist, key=lambda a: order.get(a[1], 10 ** 6)):
            conds = list(ent["e"]["conds"])
            for c in conditions(fn, pv, dbb):
                if c not in conds:
                    conds.append(c)
            ve = {"op": {"k": "const", "ty": "?", "val": None}, "at": (dbb, "term"), "term": term, "conds": conds}
            sub = dict(ent)
            sub["value"] = ve
            sub["guard"] = codec.guard_desc(prog, fn, pv, {"conds": conds})
            sub["kind"], sub["field"] = codec.emit_kind(prog, fn, pv, ve)
            if sub["kind"] == "?":
                return None
            out.append(sub)
        return out

    def _self_mutations(self):
        """calls that mutate a field of self (other than the output map / the duplicate set): [(field, callee, args, bb)]"""
        self.self_mutations = []
        for e in self.pv.effects():
            if e["kind"] != "call":
                continue
            p = e["place"]
            base = p
            fld = None
            while base[0] in ("field", "deref", "variant"):
                if base[0] == "field" and base[1] in (("param", 0), ("deref", ("param", 0))):
                    fld = base[2]
                base = base[1]
            if fld is not None and base == ("param", 0):
                self.self_mutations.append((fld, e["callee"], [show(a)[:60] for a in e["args"][1:]], e["bb"]))

    def _dupset(self):
        """BTreeSet operations of the encoder: inserts of constant labels (typed entries) and the
        contains/insert pair guarding the extras loop"""
        fn, pv, prog = self.fn, self.pv, self.prog
        self.const_inserts = []   # (k, bb, conds)
        self.sets = set()
        if pv._defs is None:
            pv._collect_defs()
        for e in pv.effects():
            if e["kind"] == "call" and e["callee"] == SET_INSERT and e["place"][0] == "local":
                root = self._set_root(e["place"][1])
                self.sets.add(root)
                k = const_label_int(prog, e["args"][1])
                if k is not None:
                    self.const_inserts.append((k, e["bb"], conditions(fn, pv, e["bb"]), root))
        self.set_created_in_loop = False
        self.set_reset = False
        self.set_starts_empty = True
        for di, d in enumerate(pv._defs):
            if d[0] in self.sets and fn.cfg.in_loop(d[1]):
                self.set_created_in_loop = True
            if d[0] in self.sets:
                dt = pv.def_term(di)
                if not (is_call(dt) and (dt[1].startswith("alloc::collections::btree::set::BTreeSet::<T>::new")
                                         or dt[1] == "core::default::Default::default") and not dt[2]):
                    self.set_starts_empty = False      # `[ALG, CRIT, ..].iter().cloned().collect()`: labels spoken for in advance
        for e in pv.effects():
            if e["kind"] == "call" and e["place"][0] == "local" and e["place"][1] in self.sets \
                    and e["callee"] not in (SET_INSERT, SET_CONTAINS):
                self.set_reset = True

    def _set_root(self, l, depth=0):
        """the set a local holds: a set moved (by value) into an inlined helper's parameter is still the same set"""
        pv = self.pv
        if pv._defs is None:
            pv._collect_defs()
        ds = [d for d in pv._defs if d[0] == l]
        if len(ds) == 1 and ds[0][2] != "term" and ds[0][3]["k"] == "use" and ds[0][3]["op"].get("k") == "move" \
                and not ds[0][3]["op"]["place"]["p"] and depth < 6:
            return self._set_root(ds[0][3]["op"]["place"]["l"], depth + 1)
        return l

    def loop_dup_check(self, ent):
        """for an extras-loop entry: is the push dominated by `if seen.contains(&label) { return Err(Dup) }`
        and `seen.insert(label.clone())` on this entry's label?  returns (ok, set local, detail)"""
        fn, pv = self.fn, self.pv
        src = ent.get("label_src")
        if src is None:
            return False, None, "label of the loop entry not understood"
        body = dict(fn.cfg.loops()).get(ent["loop"], set())
        contains_bb = insert_bb = None
        setl = None
        for bb, t in fn.calls():
            if bb not in body:
                continue
            name = callee_path(t)
            if name == SET_CONTAINS:
                a1 = pv.operand_term(t["args"][1], bb, "term")
                a1 = a1[1] if a1[0] == "ref" else a1
                if a1 == src:
                    contains_bb = bb
                    lv = pv._borrowed_lvalue(t["args"][0], bb)
                    setl = self._set_root(lv[1]) if lv[0] == "local" else None
            if name == SET_INSERT:
                a1 = pv.operand_term(t["args"][1], bb, "term")
                if is_call(a1) and a1[1].endswith("::clone"):
                    a1 = a1[2][0]
                    a1 = a1[1] if a1[0] == "ref" else a1
                if a1 == src:
                    insert_bb = bb
                    if setl is None:
                        lv = pv._borrowed_lvalue(t["args"][0], bb)
                        setl = self._set_root(lv[1]) if lv[0] == "local" else None
        style = None
        for o in outcomes(fn, pv):
            if o["kind"] == "err" and o["inner"][0] == "aggr" and o["inner"][2] == "DuplicateMapKey":
                for c in o["conds"]:
                    nb = normalize_bool_cond(c)
                    if nb and is_call(nb[0], SET_CONTAINS) and nb[1] is True and nb[0][3][1] == contains_bb:
                        style = "contains-then-insert"
                    if nb and is_call(nb[0], SET_INSERT) and nb[1] is False and nb[0][3][1] == insert_bb:
                        style = "insert-returns-false"
                    if nb and nb[0][0] == "unop" and nb[0][1] == "Not" and is_call(nb[0][2], SET_INSERT) and nb[1] is True \
                            and nb[0][2][3][1] == insert_bb:
                        style = "insert-returns-false"
        if style == "contains-then-insert":
            ok = insert_bb is not None and fn.cfg.dominates(contains_bb, ent["bb"]) and fn.cfg.dominates(insert_bb, ent["bb"])
        elif style == "insert-returns-false":
            ok = fn.cfg.dominates(insert_bb, ent["bb"])
        else:
            ok = False
        return ok, setl, {"contains_bb": contains_bb, "insert_bb": insert_bb, "style": style}
