"""Path conditions and function outcomes.

conditions(fn, pv, bb): the conjunction of switch decisions that every path to `bb` has taken
(controlling edges along the dominator chain).  Each item is
    (term of the switch operand, 'eq', value)            -- took the `value` arm
    (term of the switch operand, 'ne', (values...))      -- took the otherwise arm
Drop-flag switches (operand is a phi of boolean constants) are skipped.

outcomes(fn, pv): every assignment to the return place, classified:
    kind = 'ok' | 'err' | 'propagate' | 'call' | 'value'
"""
from .prov import is_call, mk_phi

FROM_RESIDUAL = "core::ops::try_trait::FromResidual::from_residual"


def _is_dropflag(t):
    if t[0] == "const" and isinstance(t[1], bool):
        return True
    if t[0] == "phi":
        return all(x[0] in ("const", "undef") for x in t[1])
    return False


def edge_condition(fn, pv, d, s):
    """condition for taking the edge d -> s (d ends in a switch), or None"""
    t = fn.blocks[d]["term"]
    if t["k"] != "switch":
        return None
    op = pv.operand_term(t["op"], d, "term")
    if _is_dropflag(op):
        return None
    vals = [v for v, b in t["targets"] if b == s]
    if s == t["otherwise"] and not vals:
        return (op, "ne", tuple(v for v, _ in t["targets"]))
    if len(vals) == 1 and s != t["otherwise"]:
        return (op, "eq", vals[0])
    if vals and s != t["otherwise"]:
        return (op, "in", tuple(vals))
    return None


def conditions(fn, pv, bb):
    cfg = fn.cfg
    out = []
    chain = cfg.dom_chain(bb)  # bb, idom(bb), ..., 0
    for i in range(len(chain) - 1):
        child, d = chain[i], chain[i + 1]
        t = fn.blocks[d]["term"]
        if t["k"] != "switch":
            continue
        # which successor of d leads to child?  child is dominated by d; find succ s of d that dominates child
        cands = [s for s in cfg.succ[d] if cfg.dominates(s, child) and cfg.pred[s] == [d]]
        if len(cands) != 1:
            continue
        c = edge_condition(fn, pv, d, cands[0])
        if c is not None:
            out.append(c)
    out.reverse()
    return out


def normalize_bool_cond(c):
    """(term, True/False) for conditions on boolean switch operands"""
    op, kind, v = c
    if kind == "eq":
        return op, bool(v)
    if kind == "ne" and v == (0,):
        return op, True
    if kind == "ne" and v == (1,):
        return op, False
    return None


def outcomes(fn, pv):
    """all definitions of the return place reachable in the function"""
    out = []
    for bi, b in enumerate(fn.blocks):
        if b["cleanup"] or bi not in fn.cfg.reach:
            continue
        for si, s in enumerate(b["stmts"]):
            if s["k"] == "assign" and s["dst"]["l"] == 0 and not s["dst"]["p"]:
                t = pv.rvalue_term(s["rv"], bi, si)
                out.append(_classify(t, bi, si, fn, pv))
        t = b["term"]
        if t["k"] == "call" and t["dest"]["l"] == 0 and not t["dest"]["p"]:
            ct = pv.call_term(bi)
            out.append(_classify(ct, bi, "term", fn, pv))
    return out


def _classify(t, bb, idx, fn, pv):
    kind = "value"
    inner = t
    if t[0] == "aggr" and t[1] == "core::result::Result":
        kind = "ok" if t[2] == "Ok" else "err"
        inner = t[3][0][1] if t[3] else None
    elif is_call(t, FROM_RESIDUAL):
        kind = "propagate"
        a = t[2][0]
        # (Try::branch(X) as Break).0
        if a[0] == "field" and a[1][0] == "variant" and a[1][2] == "Break" and is_call(a[1][1], "core::ops::try_trait::Try::branch"):
            inner = a[1][1][2][0]
        else:
            inner = a
    elif t[0] == "call":
        kind = "call"
    return {"kind": kind, "term": t, "inner": inner, "bb": bb, "idx": idx,
            "conds": conditions(fn, pv, bb), "line": fn.blocks[bb]["term"].get("line")}


def try_sites(fn, pv):
    """every `expr?` in the function: list of (bb of Try::branch call, operand term, break_ok)
    break_ok: the Break arm flows only into from_residual into the return place"""
    out = []
    for bi, t in fn.calls():
        from .facts import callee_path
        if callee_path(t) != "core::ops::try_trait::Try::branch":
            continue
        out.append((bi, pv.operand_term(t["args"][0], bi, "term")))
    return out


def cond_variants(prog, pv, c):
    """for a condition on an enum discriminant: (subject term, set of variant names the condition allows)"""
    op, kind, v = c
    if op[0] != "discr":
        return None
    adt = pv.discr_adt.get(op)
    names = prog.enums.get(adt) if adt else None
    if not names:
        return None
    if kind == "eq":
        return op[1], {names.get(v, "?%s" % v)}
    if kind == "in":
        return op[1], {names.get(x, "?%s" % x) for x in v}
    if kind == "ne":
        return op[1], {n for d, n in names.items() if d not in v}
    return None


def path_variants(prog, pv, conds):
    """{subject term: allowed variant-name set} from all discriminant conditions (intersection)"""
    out = {}
    for c in conds:
        r = cond_variants(prog, pv, c)
        if r:
            subj, names = r
            out[subj] = out[subj] & names if subj in out else set(names)
    return out
