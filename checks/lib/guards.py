"""Path conditions and function outcomes.

conditions(fn, pv, bb): the conjunction of switch decisions that every path to `bb` has taken
(controlling edges along the dominator chain).  Each item is
    (term of the switch operand, 'eq', value)            -- took the `value` arm
    (term of the switch operand, 'ne', (values...))      -- took the otherwise arm
Drop-flag switches (operand is a phi of boolean constants) are skipped.

outcomes(fn, pv): every assignment to the return place, classified:
    kind = 'ok' | 'err' | 'propagate' | 'call' | 'value'
"""
from .prov import is_call, mk_phi
from .facts import callee_path

FROM_RESIDUAL = "core::ops::try_trait::FromResidual::from_residual"


def _is_dropflag(t):
    if t[0] == "const" and isinstance(t[1], bool):
        return True
    if t[0] == "phi":
        return all(x[0] in ("const", "undef") for x in t[1])
    return False


def edge_condition(fn, pv, d, s):
    """condition for taking the edge d -> s (d ends in a switch), or None"""
    t = fn.blocks[d]["term"]
    if t["k"] != "switch":
        return None
    op = pv.operand_term(t["op"], d, "term")
    if _is_dropflag(op):
        return None
    vals = [v for v, b in t["targets"] if b == s]
    if s == t["otherwise"] and not vals:
        return (op, "ne", tuple(v for v, _ in t["targets"]))
    if len(vals) == 1 and s != t["otherwise"]:
        return (op, "eq", vals[0])
    if vals and s != t["otherwise"]:
        return (op, "in", tuple(vals))
    return None


def conditions(fn, pv, bb, _depth=0):
    cfg = fn.cfg
    out = []
    chain = cfg.dom_chain(bb)  # bb, idom(bb), ..., 0
    for i in range(len(chain) - 1):
        child, d = chain[i], chain[i + 1]
        t = fn.blocks[d]["term"]
        if t["k"] != "switch":
            continue
        # which successor of d leads to child?  child is dominated by d; find succ s of d that dominates child
        cands = [s for s in cfg.succ[d] if cfg.dominates(s, child) and cfg.pred[s] == [d]]
        if len(cands) != 1:
            continue
        c = edge_condition(fn, pv, d, cands[0])
        if c is not None:
            out.append(c)
            if _depth < 3 and c[0][0] == "discr":
                # the variant of a Result / Option that has several definitions (the joined exits of an inlined helper - a check
                # moved into `fn ensure_x(..) -> Result<()>`): the conditions under which it became the variant this edge requires
                for c2 in reversed(_materialised_variant(fn, pv, d, cands[0], _depth)):
                    if c2 not in out:
                        out.append(c2)
        elif _depth < 3:
            # a boolean materialised on the way (`matches!(..)`, `let ok = a || b; if ok`): the conditions under
            # which it received the value this edge requires
            for c2 in reversed(_materialised(fn, pv, d, cands[0], _depth)):
                if c2 not in out:
                    out.append(c2)
    out.reverse()
    seen = []
    for c in out:
        if c not in seen:
            seen.append(c)
    return seen


_SUCCESS = {"Continue", "Ok", "Some"}
_FAILURE = {"Break", "Err", "None"}


def _materialised_variant(fn, pv, d, s, depth):
    from .facts import callee_path
    from .prov import always_err_fn
    t = fn.blocks[d]["term"]
    op = t["op"]
    if op["k"] not in ("copy", "move") or op["place"]["p"]:
        return []
    if pv._defs is None:
        pv._collect_defs()
    ds = pv.reaching(op["place"]["l"], d, "term")
    if len(ds) != 1 or -1 in ds:
        return []
    _, sbb, sidx, sp = pv._defs[next(iter(ds))]
    if sidx == "term" or sp["k"] != "discr" or sp["place"]["p"]:
        return []
    subj = sp["place"]["l"]
    ty = fn.local_ty(subj) or ""
    if ty.startswith("core::ops::control_flow::ControlFlow<"):
        names = {0: "Continue", 1: "Break"}
    elif ty.startswith("core::result::Result<"):
        names = {0: "Ok", 1: "Err"}
    elif ty.startswith("core::option::Option<"):
        names = {0: "None", 1: "Some"}
    else:
        return []
    vals = [v for v, b in t["targets"] if b == s]
    if s == t["otherwise"] and not vals:
        rest = set(names) - {v for v, _ in t["targets"]}
        if len(rest) != 1:
            return []
        want = names[next(iter(rest))]
    elif len(vals) == 1 and s != t["otherwise"] and vals[0] in names:
        want = names[vals[0]]
    else:
        return []
    want_success = want in _SUCCESS
    # the Result / Option whose variant is tested: through Try::branch if that is what the subject is
    rl, rb, ri = subj, sbb, sidx
    bd = pv.reaching(subj, sbb, sidx)
    if len(bd) == 1 and -1 not in bd:
        _, bbb, bidx, bt = pv._defs[next(iter(bd))]
        if bidx == "term" and callee_path(bt) == "core::ops::try_trait::Try::branch" and bt["args"] and bt["args"][0]["k"] in ("copy", "move") \
                and not bt["args"][0]["place"]["p"]:
            rl, rb, ri = bt["args"][0]["place"]["l"], bbb, "term"
        elif bidx == "term":
            return []
    succ_defs, fail_defs = [], []

    def collect(l, b, i, dep=0):
        if dep > 8:
            return False
        rs = pv.reaching(l, b, i)
        if -1 in rs:
            return False
        for r in rs:
            _, rbb, ridx, rp = pv._defs[r]
            if ridx == "term":
                name = callee_path(rp) or ""
                if name == "core::ops::try_trait::FromResidual::from_residual" or (name in fn.prog.fns and always_err_fn(fn.prog, name)):
                    fail_defs.append(rbb)
                    continue
                return False
            if rp["k"] == "aggr" and rp.get("kind") == "adt" and rp.get("variant") in _SUCCESS:
                succ_defs.append(rbb)
            elif rp["k"] == "aggr" and rp.get("kind") == "adt" and rp.get("variant") in _FAILURE:
                fail_defs.append(rbb)
            elif rp["k"] == "use" and rp["op"]["k"] in ("copy", "move") and not rp["op"]["place"]["p"]:
                if not collect(rp["op"]["place"]["l"], rbb, ridx, dep + 1):
                    return False
            else:
                return False
        return True
    if not collect(rl, rb, ri) or len(succ_defs) + len(fail_defs) < 2:
        return []
    hits = succ_defs if want_success else fail_defs
    if len(hits) != 1:
        return []
    return conditions(fn, pv, hits[0], depth + 1)


def _materialised(fn, pv, d, s, depth):
    t = fn.blocks[d]["term"]
    op = t["op"]
    if op["k"] not in ("copy", "move") or op["place"]["p"] or t.get("ty") != "bool":
        return []
    vals = [v for v, b in t["targets"] if b == s]
    if s == t["otherwise"] and not vals and len(t["targets"]) == 1:
        want = not bool(t["targets"][0][0])
    elif len(vals) == 1 and s != t["otherwise"]:
        want = bool(vals[0])
    else:
        return []
    ds = pv.reaching(op["place"]["l"], d, "term")
    for _ in range(6):
        # `b = move r` where r is the (inlined) helper's return place: look at the definitions of r
        if len(ds) != 1 or -1 in ds:
            break
        _, cbb, cidx, cp = pv._defs[next(iter(ds))]
        if cidx == "term" or cp["k"] != "use" or cp["op"]["k"] not in ("copy", "move") or cp["op"]["place"]["p"]:
            break
        ds = pv.reaching(cp["op"]["place"]["l"], cbb, cidx)
    if -1 in ds or len(ds) < 2:
        return []
    hits = []
    for di in ds:
        _, dbb, didx, payload = pv._defs[di]
        if didx == "term" or payload["k"] != "use" or payload["op"]["k"] != "const" or not isinstance(payload["op"].get("val"), bool):
            return []
        if payload["op"]["val"] == want:
            hits.append(dbb)
    if len(hits) != 1:
        return []
    return conditions(fn, pv, hits[0], depth + 1)


def normalize_bool_cond(c):
    """(term, True/False) for conditions on boolean switch operands"""
    op, kind, v = c
    r = None
    if kind == "eq" and v in (0, 1, True, False):
        r = (op, bool(v))
    elif kind == "eq":
        return op, bool(v)
    elif kind == "ne" and v == (0,):
        r = (op, True)
    elif kind == "ne" and v == (1,):
        r = (op, False)
    # `!p` being true is `p` being false
    while r is not None and isinstance(r[0], tuple) and r[0] and r[0][0] == "unop" and r[0][1] == "Not":
        r = (r[0][2], not r[1])
    return r


def outcomes(fn, pv):
    """all definitions of the return place reachable in the function"""
    out = []
    for bi, b in enumerate(fn.blocks):
        if b["cleanup"] or bi not in fn.cfg.reach:
            continue
        for si, s in enumerate(b["stmts"]):
            if s["k"] == "assign" and s["dst"]["l"] == 0 and not s["dst"]["p"]:
                t = pv.rvalue_term(s["rv"], bi, si)
                o = _classify(t, bi, si, fn, pv)
                out.extend(_split_value_phi(o, s, fn, pv) or _expand_combinators(o, fn, pv) or [o])
        t = b["term"]
        if t["k"] == "call" and t["dest"]["l"] == 0 and not t["dest"]["p"]:
            ct = pv.call_term(bi)
            o = _classify(ct, bi, "term", fn, pv)
            out.extend(_split_propagate(o, fn, pv) or _expand_combinators(o, fn, pv) or [o])
    return out


def _expand_combinators(o, fn, pv):
    """an exit whose value is built with Option/Result combinators (`x.map(f).ok_or(e)`, `r.map_err(g)?`) is the
    same as the `match` it abbreviates: one outcome per case, with the case's condition added"""
    from . import combinators as cb
    prog = fn.prog
    if o["kind"] in ("call", "value") and cb.is_combinator(o["term"]):
        cases = cb.reduce(prog, o["term"])
        if len(cases) == 1 and cases[0][1] == o["term"]:
            return None
        res = []
        for conds, v in cases:
            o2 = _classify(v, o["bb"], o["idx"], fn, pv)
            o2["conds"] = list(o2["conds"]) + list(conds)
            inn = o2.get("inner")
            if o2["kind"] == "err" and inn and inn[0] == "field" and inn[2] == "0" and inn[1][0] == "variant" and inn[1][2] == "Err" \
                    and inn[1][1][0] == "call":
                # `r.map(f)` hands the Err of r on as it is: the same exit as `r?` (without the identity From conversion)
                o2.update({"kind": "propagate", "inner": inn[1][1], "verbatim": True})
            elif o2["kind"] == "err" and inn and inn[0] == "call" and len(inn[2]) == 1 and (
                    inn[1] == "core::convert::From::from" or (inn[1].startswith("<common::CoseError as core::convert::From<") and inn[1].endswith(">::from"))):
                a = inn[2][0]
                if a[0] == "field" and a[2] == "0" and a[1][0] == "variant" and a[1][2] == "Err" and a[1][1][0] == "call":
                    # `r.map_err(CoseError::from)`: the conversion `r?` applies, spelled out
                    o2.update({"kind": "propagate", "inner": a[1][1], "converted": True})
            res.append(o2)
        return res
    if o["kind"] == "propagate" and cb.is_combinator(o["inner"]):
        cases = cb.reduce(prog, o["inner"])
        if len(cases) == 1 and cases[0][1] == o["inner"]:
            return None
        res = []
        for conds, v in cases:
            k = cb._ctor(v)
            if k and k[1] in ("Ok", "Some"):
                continue
            o2 = dict(o)
            o2["conds"] = list(o["conds"]) + list(conds)
            if k and k[1] == "Err":
                o2.update({"kind": "err", "term": v, "inner": k[2]})
            elif k and k[1] == "None":
                o2.update({"kind": "none", "term": v, "inner": v})
            else:
                o2.update({"inner": v})
            res.append(o2)
        return res
    return None


def _split_value_phi(o, stmt, fn, pv):
    """`return R` where R has several definitions (the result of an inlined helper that returns early in places): one
    outcome per definition, located at the definition"""
    if o["kind"] != "value" or o["term"][0] != "phi" or stmt["rv"]["k"] != "use":
        return None
    from .codec import _def_stmts
    res = []
    for term, dbb, payload in _def_stmts(pv, stmt["rv"]["op"], o["bb"], o["idx"]):
        if term[0] == "phi":
            return None
        o2 = _classify(term, dbb, "term", fn, pv)
        o2["via"] = o["bb"]
        res.extend(_split_propagate(o2, fn, pv) or _expand_combinators(o2, fn, pv) or [o2])
    return res


def _split_propagate(o, fn, pv, depth=0):
    """`R?` where R has several definitions (the arms of a match that each build Ok(..), Err(..) or call something
    - typically an inlined helper): one outcome per arm, located at the arm; Ok arms are no rejection; an arm that
    is itself the early return of an inner `?` (the helper used `?`) is expanded the same way"""
    if o["kind"] != "propagate" or o["inner"][0] != "phi" or depth > 4:
        return None
    a = o["term"][2][0]
    try:
        site = a[1][1][3]
    except (IndexError, TypeError):
        return None
    if not site or site[0] != fn.key:
        return None
    from .codec import _def_stmts
    from .prov import always_err_fn
    bt = fn.blocks[site[1]]["term"]
    res = []
    for term, dbb, payload in _def_stmts(pv, bt["args"][0], site[1], "term"):
        line = fn.blocks[dbb]["term"].get("line")
        if term[0] == "aggr" and term[1] == "core::result::Result":
            if term[2] == "Ok":
                continue
            res.append({"kind": "err", "term": term, "inner": term[3][0][1] if term[3] else None, "bb": dbb, "idx": "term",
                        "conds": conditions(fn, pv, dbb), "line": line, "via": o["bb"]})
        elif is_call(term, FROM_RESIDUAL):
            o2 = _classify(term, dbb, "term", fn, pv)
            o2["via"] = o["bb"]
            res.extend(_split_propagate(o2, fn, pv, depth + 1) or _expand_combinators(o2, fn, pv) or [o2])
        elif is_call(term) and always_err_fn(fn.prog, term[1]):
            res.append({"kind": "call", "term": term, "inner": term, "bb": dbb, "idx": "term",
                        "conds": conditions(fn, pv, dbb), "line": line, "via": o["bb"]})
        elif is_call(term):
            o2 = {"kind": "propagate", "term": o["term"], "inner": term, "bb": dbb, "idx": "term",
                  "conds": conditions(fn, pv, dbb), "line": line, "via": o["bb"]}
            res.extend(_expand_combinators(o2, fn, pv) or [o2])
        else:
            return None
    return res


def _classify(t, bb, idx, fn, pv):
    kind = "value"
    inner = t
    if t[0] == "aggr" and t[1] == "core::result::Result":
        kind = "ok" if t[2] == "Ok" else "err"
        inner = t[3][0][1] if t[3] else None
    elif is_call(t, FROM_RESIDUAL):
        kind = "propagate"
        a = t[2][0]
        # (Try::branch(X) as Break).0
        if a[0] == "field" and a[1][0] == "variant" and a[1][2] == "Break" and is_call(a[1][1], "core::ops::try_trait::Try::branch"):
            inner = a[1][1][2][0]
        else:
            inner = a
    elif t[0] == "call":
        kind = "call"
    return {"kind": kind, "term": t, "inner": inner, "bb": bb, "idx": idx,
            "conds": conditions(fn, pv, bb), "line": fn.blocks[bb]["term"].get("line")}


def try_sites(fn, pv):
    """every `expr?` in the function: list of (bb of Try::branch call, operand term, break_ok)
    break_ok: the Break arm flows only into from_residual into the return place"""
    out = []
    for bi, t in fn.calls():
        from .facts import callee_path
        if callee_path(t) != "core::ops::try_trait::Try::branch":
            continue
        out.append((bi, pv.operand_term(t["args"][0], bi, "term")))
    return out


def cond_variants(prog, pv, c):
    """for a condition on an enum discriminant: (subject term, set of variant names the condition allows)"""
    op, kind, v = c
    if kind == "variant":
        return op, set(v)      # produced by combinators.reduce: the subject term IS of that variant
    if op[0] != "discr":
        return None
    adt = pv.discr_adt.get(op)
    names = prog.enums.get(adt) if adt else None
    if not names:
        return None
    if kind == "eq":
        return op[1], {names.get(v, "?%s" % v)}
    if kind == "in":
        return op[1], {names.get(x, "?%s" % x) for x in v}
    if kind == "ne":
        return op[1], {n for d, n in names.items() if d not in v}
    return None


def path_variants(prog, pv, conds):
    """{subject term: allowed variant-name set} from all discriminant conditions (intersection)"""
    out = {}
    for c in conds:
        r = cond_variants(prog, pv, c)
        if r:
            subj, names = r
            out[subj] = out[subj] & names if subj in out else set(names)
    return out


class TooManyPaths(Exception):
    pass


def path_rows(fn, pv, limit=4000, precise=False):
    """every acyclic entry-to-return path of a (loop-free) function as a row
        {"conds": [edge conditions in path order], "term": value of the return place on that path, "kind", "bb"}
    Unlike conditions(), which keeps only the decisions common to ALL paths into a block, this keeps arms that share
    a block apart (or-patterns, `a || b`), at the price of enumerating paths.  Paths through back edges are cut."""
    rows = []
    n = [0]

    def last_ret_def(path):
        for bb in reversed(path):
            b = fn.blocks[bb]
            t = b["term"]
            if t["k"] == "call" and t["dest"]["l"] == 0 and not t["dest"]["p"] and bb != path[-1]:
                return bb, "term"
            for si in range(len(b["stmts"]) - 1, -1, -1):
                s = b["stmts"][si]
                if s["k"] == "assign" and s["dst"]["l"] == 0 and not s["dst"]["p"]:
                    return bb, si
        return None

    def chase(path, d, depth=0):
        """follow `x = move y` backwards along THIS path to the statement that produced the value"""
        bb, si = d
        if si == "term" or depth > 8:
            return d
        rv = fn.blocks[bb]["stmts"][si]["rv"]
        if rv["k"] != "use" or rv["op"]["k"] not in ("copy", "move") or rv["op"]["place"]["p"]:
            return d
        l = rv["op"]["place"]["l"]
        pos = len(path) - 1 - path[::-1].index(bb)
        for pi in range(pos, -1, -1):
            b = fn.blocks[path[pi]]
            hi = si if pi == pos else len(b["stmts"])
            if pi != pos:
                tt = b["term"]
                if tt["k"] == "call" and tt["dest"]["l"] == l and not tt["dest"]["p"]:
                    return (path[pi], "term")
            for sj in range(hi - 1, -1, -1):
                s = b["stmts"][sj]
                if s["k"] == "assign" and s["dst"]["l"] == l and not s["dst"]["p"]:
                    return chase(path, (path[pi], sj), depth + 1)
        return d

    def go(bb, path, conds):
        n[0] += 1
        if n[0] > limit:
            raise TooManyPaths(fn.key)
        path = path + [bb]
        t = fn.blocks[bb]["term"]
        k = t["k"]
        if k == "return" and precise:
            # terms and conditions recomputed along this very path (no merging of definitions from other paths)
            from .prov import PathProv
            pp = PathProv(fn, path)
            pp.discr_adt = pv.discr_adt
            term = pp.local_term(0, bb, "term")
            cs = []
            for i in range(len(path) - 1):
                c = edge_condition(fn, pp, path[i], path[i + 1])
                if c is not None:
                    cs.append(c)
            o = _classify(term, bb, "term", fn, pp)
            rows.append({"conds": cs, "term": o["term"], "kind": o["kind"], "inner": o["inner"], "bb": bb, "path": path, "pv": pp})
            return
        if k == "return":
            d = last_ret_def(path)
            if d is None:
                term = ("undef", 0)
                o = {"kind": "value", "term": term, "inner": term, "bb": bb, "idx": "term"}
            elif d[1] == "term":
                o = _classify(pv.call_term(d[0]), d[0], "term", fn, pv)
            else:
                d = chase(path, d)
                if d[1] == "term":
                    o = _classify(pv.call_term(d[0]), d[0], "term", fn, pv)
                else:
                    st = fn.blocks[d[0]]["stmts"][d[1]]
                    o = _classify(pv.rvalue_term(st["rv"], d[0], d[1]), d[0], d[1], fn, pv)
            rows.append({"conds": list(conds), "term": o["term"], "kind": o["kind"], "inner": o["inner"], "bb": o["bb"], "path": path})
            return
        if k == "call" and (t.get("callee") or {}).get("never") or (k == "call" and t.get("target") is None):
            ct = pv.call_term(bb)
            rows.append({"conds": list(conds), "term": ct, "kind": "diverge", "inner": ct, "bb": bb, "path": path})
            return
        if k == "switch":
            for s in fn.succs(bb):
                if s in path:
                    continue
                c = edge_condition(fn, pv, bb, s)
                go(s, path, conds + [c] if c is not None else conds)
            return
        for s in fn.succs(bb):
            if s in path or fn.blocks[s]["cleanup"]:
                continue
            go(s, path, conds)

    go(0, [], [])
    return rows


_TRY_BRANCH = "core::ops::try_trait::Try::branch"


def _always_err(prog, name):
    from .prov import always_err_fn
    try:
        return always_err_fn(prog, name)
    except Exception:
        return False


def back_edges_taken(f, start, avoid, header):
    """sources of the edges into `header` that can be taken on a walk from `start` avoiding `avoid` (failure-following)"""
    edges = set()
    reach_tracking_failures(f, start, set(avoid), edges)
    return sorted(a for a, b in edges if b == header)


def reach_tracking_failures(f, start, avoid, edges=None):
    """blocks reachable from `start` without entering a block of `avoid`, not following infeasible failure edges.

    The walk carries the locals known to hold a failure: a value made by from_residual / `Err(..)`, a plain move of one,
    `Try::branch` of one (known Break); a later test of such a local (the `?` of the caller after a `?` in an inlined helper,
    `let r = match .. {Err(e) => Err(wrap(e)), ..}; r?`) follows its failure edge only."""
    FROM_RESIDUAL = "core::ops::try_trait::FromResidual::from_residual"
    seen_states, seen = set(), set()
    stack = [(start, frozenset(), frozenset())]
    while stack:
        bb, fail, dval = stack.pop()
        if bb in avoid or (bb, fail, dval) in seen_states or len(seen_states) > 20000:
            continue
        seen_states.add((bb, fail, dval))
        seen.add(bb)
        blk = f.blocks[bb]
        fail, dv = set(fail), dict(dval)
        for s in blk["stmts"]:
            if s["k"] != "assign":
                continue
            d, rv = s["dst"], s["rv"]
            if d["p"]:
                continue
            l = d["l"]
            fail.discard(l)
            dv.pop(l, None)
            if rv["k"] == "use" and rv["op"]["k"] in ("move", "copy") and not rv["op"]["place"]["p"] and rv["op"]["place"]["l"] in fail:
                fail.add(l)
            elif rv["k"] == "aggr" and rv.get("adt") == "core::result::Result" and rv.get("variant") == "Err":
                fail.add(l)
            elif rv["k"] == "discr" and not rv["place"]["p"] and rv["place"]["l"] in fail:
                dv[l] = 1       # Result::Err and ControlFlow::Break both have discriminant 1
            elif rv["k"] == "use" and rv["op"]["k"] in ("move", "copy") and not rv["op"]["place"]["p"] and rv["op"]["place"]["l"] in dv:
                dv[l] = dv[rv["op"]["place"]["l"]]
        t = blk["term"]
        succ = [y for y in f.cfg.succ[bb] if not f.blocks[y]["cleanup"]]
        if t["k"] == "call" and not t["dest"]["p"]:
            l = t["dest"]["l"]
            fail.discard(l)
            dv.pop(l, None)
            name = callee_path(t)
            a0 = t["args"][0] if t["args"] else None
            if name == FROM_RESIDUAL and "Result<" in (f.local_ty(l) or ""):
                fail.add(l)
            elif name and _always_err(f.prog, name):
                fail.add(l)         # `return cbor_type_error(..)`: a function all of whose exits are Err
            elif name == _TRY_BRANCH and a0 and a0["k"] in ("move", "copy") and not a0["place"]["p"] and a0["place"]["l"] in fail:
                fail.add(l)
        elif t["k"] == "switch" and t["op"]["k"] in ("move", "copy") and not t["op"]["place"]["p"] and t["op"]["place"]["l"] in dv:
            v = dv[t["op"]["place"]["l"]]
            tg = [b for val, b in t["targets"] if val == v]
            succ = tg[:1] if tg else [t["otherwise"]]
        st = (frozenset(fail), frozenset(dv.items()))
        for y in succ:
            if edges is not None:
                edges.add((bb, y))
            stack.append((y, st[0], st[1]))
    return seen
