"""Extraction of codec tables from decoder / encoder bodies (shared by C02, C07, C09, C11, C12, C18).

decoder side:  DecodedStruct(fn) -> for every field of the Ok(Self{..}) aggregate a descriptor
               {field, slot (original array index or None), kind, elem (type for nested), optional}
encoder side:  EncodedArray(fn)  -> ordered list of emitted slots {index, kind, field, guard}
               EncodedMap(fn)    -> ordered list of emitted (label, kind, field, guard) entries
Both are computed from provenance terms + the vec-length analysis; nothing is pattern-matched on
source text.
"""
from .prov import Prov, show, is_call, subterms, calls_in, mk_phi, resolve_consts, TRY_BRANCH
from .guards import outcomes, conditions, path_variants, normalize_bool_cond, cond_variants
from .veclen import VecLen, VEC_REMOVE, VEC_POP, VEC_PUSH, VEC_NEW, INDEX
from .facts import callee_path

TRY_BYTES = "<ciborium::value::Value as util::ValueTryAs>::try_as_bytes"
TRY_NONEMPTY = "<ciborium::value::Value as util::ValueTryAs>::try_as_nonempty_bytes"
TRY_ARRAY = "<ciborium::value::Value as util::ValueTryAs>::try_as_array"
TRY_ARRAY_CONVERT = "<ciborium::value::Value as util::ValueTryAs>::try_as_array_then_convert"
TRY_INTEGER = "<ciborium::value::Value as util::ValueTryAs>::try_as_integer"
TRY_STRING = "<ciborium::value::Value as util::ValueTryAs>::try_as_string"
TRY_MAP = "<ciborium::value::Value as util::ValueTryAs>::try_as_map"
FROM_BSTR = ("header::ProtectedHeader::from_cbor_bstr", "header::ProtectedHeader::from_cbor_bstr_depth")
HDR_FROM = ("<header::Header as common::AsCborValue>::from_cbor_value", "header::Header::from_cbor_value_depth")
SIG_FROM = ("<sign::CoseSignature as common::AsCborValue>::from_cbor_value", "sign::CoseSignature::from_cbor_value_depth")
CBOR_BSTR = "header::ProtectedHeader::cbor_bstr"
TO_ARRAY = "util::to_cbor_array"
BOX_VEC = "alloc::boxed::box_assume_init_into_vec_unsafe"
TRY_INTO = "core::convert::TryInto::try_into"


def type_of_decoder(name):
    """'<T as common::AsCborValue>::from_cbor_value' / 'T::from_cbor_value_depth' -> T"""
    if name.startswith("<") and " as " in name:
        return name[1:name.index(" as ")]
    if name.endswith("::from_cbor_value_depth"):
        return name[: -len("::from_cbor_value_depth")]
    return name


def _through_tuple_field(pv, payload, dbb, didx):
    """`x = move (t.i)` where t is (at this point) one tuple literal: the operand that literal was built from, with its position
    (the arguments of an inlined closure call travel as a tuple), or None"""
    if payload["k"] != "use" or payload["op"]["k"] not in ("copy", "move"):
        return None
    pl = payload["op"]["place"]
    if len(pl["p"]) != 1 or pl["p"][0][0] != "field":
        return None
    ds = pv.reaching(pl["l"], dbb, didx)
    if len(ds) != 1 or -1 in ds:
        return None
    _, tbb, tidx, tp = pv._defs[next(iter(ds))]
    if tidx == "term" or tp["k"] != "aggr" or tp.get("kind") != "tuple":
        return None
    i = pl["p"][0][1]
    if not isinstance(i, int) or i >= len(tp["ops"]):
        return None
    return tp["ops"][i], tbb, tidx


def arms(pv, op, bb, idx, depth=0):
    """definitions feeding an operand: list of (term, def_bb).  Follows chains of plain copies."""
    if op["k"] in ("copy", "move") and len(op["place"]["p"]) == 1 and op["place"]["p"][0][0] == "field" and depth <= 6:
        # `Self { a: x, ..base }` moves `base.f` for the other fields: when `base` is (here) one struct literal - an inlined private
        # constructor - the operand is the one that literal was built from
        ds = pv.reaching(op["place"]["l"], bb, idx)
        hops = 0
        while len(ds) == 1 and -1 not in ds and hops < 6:
            _, tbb, tidx, tp = pv._defs[next(iter(ds))]
            if tidx != "term" and tp["k"] == "use" and tp["op"]["k"] in ("copy", "move") and not tp["op"]["place"]["p"]:
                ds = pv.reaching(tp["op"]["place"]["l"], tbb, tidx)      # `base = move tmp` (the return slot of an inlined helper)
                hops += 1
                continue
            break
        if len(ds) == 1 and -1 not in ds:
            _, tbb, tidx, tp = pv._defs[next(iter(ds))]
            fi = op["place"]["p"][0][1]
            if tidx != "term" and tp["k"] == "aggr" and tp.get("kind") != "tuple" and isinstance(fi, int) and fi < len(tp["ops"]) \
                    and len(tp.get("fields", [])) == len(tp["ops"]):
                return arms(pv, tp["ops"][fi], tbb, tidx, depth + 1)
    if op["k"] not in ("copy", "move") or op["place"]["p"] or depth > 6:
        return [(pv.operand_term(op, bb, idx), bb)]
    l = op["place"]["l"]
    out = []
    for di in sorted(pv.reaching(l, bb, idx)):
        if di == -1:
            out.append((pv.local_term(l, bb, idx), bb))
            continue
        dl, dbb, didx, payload = pv._defs[di]
        if didx != "term" and payload["k"] == "use" and payload["op"]["k"] in ("copy", "move") and not payload["op"]["place"]["p"]:
            out.extend(arms(pv, payload["op"], dbb, didx, depth + 1))
            continue
        if didx != "term" and payload["k"] == "ref" and not payload["mut"] and len(payload["place"]["p"]) == 1 \
                and payload["place"]["p"][0][0] == "deref":
            # `&*r` is `r`
            out.extend(arms(pv, {"k": "copy", "place": {"l": payload["place"]["l"], "p": []}}, dbb, didx, depth + 1))
            continue
        tf = _through_tuple_field(pv, payload, dbb, didx) if didx != "term" else None
        if tf is not None:
            out.extend(arms(pv, tf[0], tf[1], tf[2], depth + 1))
            continue
        through = _arms_through_try(pv, payload, dbb, didx, depth) if didx != "term" else None
        if through is not None:
            out.extend(through)
        else:
            out.append((pv.def_term(di), dbb))
    return out


def _arms_through_try(pv, payload, dbb, didx, depth):
    """`x = (branch(R) as Continue).0` where R has several definitions (a match whose arms each build Ok(..) / an
    error - typically an inlined helper): the arms of x are the payloads of R's Ok arms; error arms cannot continue"""
    from .prov import is_err_term
    if payload["k"] != "use" or payload["op"]["k"] not in ("copy", "move"):
        return None
    pl = payload["op"]["place"]
    if len(pl["p"]) != 2 or pl["p"][0][0] != "downcast" or pl["p"][0][1] != "Continue" or pl["p"][1][0] != "field":
        return None
    ds = pv.reaching(pl["l"], dbb, didx)
    if len(ds) != 1 or -1 in ds:
        return None
    _, bbb, bidx, bt = pv._defs[next(iter(ds))]
    if bidx != "term" or callee_path(bt) != TRY_BRANCH:
        return None
    out = []
    for term, rbb, rpayload in _def_stmts(pv, bt["args"][0], bbb, "term", depth + 1):
        if is_err_term(pv.prog, term):
            continue
        if rpayload is not None and rpayload["k"] == "aggr" and rpayload.get("variant") in ("Ok", "Some") and rpayload["ops"]:
            rbi = rpayload["_at"]
            out.extend(arms(pv, rpayload["ops"][0], rbi[0], rbi[1], depth + 1))
        elif is_call(term) and term[0] == "call":
            # an arm that hands on another function's Result (`Some(Array(_)) => arr.into_iter().map(f).collect()`): on the
            # Continue side its value is that call's Ok payload
            from .prov import mk_tryok
            out.append((mk_tryok(pv.prog, term), rbb))
        else:
            return None
    return out or None


def _def_stmts(pv, op, bb, idx, depth=0):
    """like arms() but yields (term, def bb, defining rvalue dict or None); rvalue dicts get '_at' = (bb, idx)"""
    if op["k"] not in ("copy", "move") or op["place"]["p"] or depth > 8:
        return [(pv.operand_term(op, bb, idx), bb, None)]
    l = op["place"]["l"]
    out = []
    for di in sorted(pv.reaching(l, bb, idx)):
        if di == -1:
            out.append((pv.local_term(l, bb, idx), bb, None))
            continue
        dl, dbb, didx, payload = pv._defs[di]
        if didx != "term" and payload["k"] == "use" and payload["op"]["k"] in ("copy", "move") and not payload["op"]["place"]["p"]:
            out.extend(_def_stmts(pv, payload["op"], dbb, didx, depth + 1))
        elif didx == "term":
            out.append((pv.def_term(di), dbb, None))
        elif _through_tuple_field(pv, payload, dbb, didx) is not None:
            tf = _through_tuple_field(pv, payload, dbb, didx)
            out.extend(_def_stmts(pv, tf[0], tf[1], tf[2], depth + 1))
        else:
            payload["_at"] = (dbb, didx)
            out.append((pv.def_term(di), dbb, payload))
    return out


def ok_payload_arms(fn, pv):
    """(term, def bb) for every definition of the payload of every Ok(..) the function returns: the same list for
    `Ok(match x { A => e1, B => e2 })` and `match x { A => Ok(e1), B => Ok(e2) }`"""
    out = []
    for o in outcomes(fn, pv):
        if o["kind"] != "ok" or o["idx"] == "term":
            continue
        st = fn.blocks[o["bb"]]["stmts"][o["idx"]]
        out.extend(arms(pv, st["rv"]["ops"][0], o["bb"], o["idx"]))
    return out


def find_def_stmt(pv, op, bb, idx, depth=0):
    """the statement (rvalue dict, bb, idx) that defines the temp an operand reads, through copies;
    None if several definitions reach"""
    if op["k"] not in ("copy", "move") or op["place"]["p"] or depth > 8:
        return None
    ds = [d for d in pv.reaching(op["place"]["l"], bb, idx)]
    if len(ds) != 1 or ds[0] == -1:
        return None
    dl, dbb, didx, payload = pv._defs[ds[0]]
    if didx == "term":
        return ("call", payload, dbb, didx)
    if payload["k"] == "use" and payload["op"]["k"] in ("copy", "move") and not payload["op"]["place"]["p"]:
        r = find_def_stmt(pv, payload["op"], dbb, didx, depth + 1)
        return r
    # `x = (branch(R) as Continue).0` where the only definition of R that can continue is a literal Ok(v): the value is v
    live = _ok_payload_ops(pv, payload, dbb, didx)
    if live is not None and len(live) == 1:
        op2, at = live[0]
        return find_def_stmt(pv, op2, at[0], at[1], depth + 1)
    return ("stmt", payload, dbb, didx)


def _ok_payload_ops(pv, payload, dbb, didx):
    """for `x = (branch(R) as Continue).0`: [(operand inside Ok(..)/Some(..), (bb, idx))] over the definitions of R that
    are not always-Err; None if the statement has another shape or some definition is not a literal"""
    from .prov import is_err_term
    if payload["k"] != "use" or payload["op"]["k"] not in ("copy", "move"):
        return None
    pl = payload["op"]["place"]
    if len(pl["p"]) != 2 or pl["p"][0][0] != "downcast" or pl["p"][0][1] != "Continue" or pl["p"][1][0] != "field":
        return None
    ds = pv.reaching(pl["l"], dbb, didx)
    if len(ds) != 1 or -1 in ds:
        return None
    _, bbb, bidx, bt = pv._defs[next(iter(ds))]
    if bidx != "term" or callee_path(bt) != TRY_BRANCH:
        return None
    out = []
    for term, rbb, rp in _def_stmts(pv, bt["args"][0], bbb, "term"):
        if is_err_term(pv.prog, term):
            continue
        if rp is not None and rp["k"] == "aggr" and rp.get("variant") in ("Ok", "Some") and rp["ops"]:
            out.append((rp["ops"][0], rp["_at"]))
        else:
            return None
    return out


class OkAggregate:
    """the aggregate inside the (single) Ok(..) a function returns, with operands kept"""

    def __init__(self, fn, pv=None):
        self.fn = fn
        self.pv = pv or Prov(fn)
        self.fields = {}   # name -> (operand json, bb, idx)
        self.adt = None
        self.bb = None
        self.problem = None
        oks = [o for o in outcomes(fn, self.pv) if o["kind"] == "ok"]
        if len(oks) != 1:
            self.problem = "expected exactly one Ok(..) construction, found %d" % len(oks)
            return
        o = oks[0]
        self.outcome = o
        self._terms = None
        if o["idx"] == "term":
            # `decode(..).map(Self)` / `.map(|x| Self {..})`: the Ok value is the reduction of a combinator call - a term, not a
            # statement; its fields are kept as terms
            inner = o.get("inner")
            if not (inner and inner[0] == "aggr" and inner[1] not in ("core::option::Option", "core::result::Result")):
                self.problem = "Ok payload is not a struct/enum literal"
                self.payload_def = None
                return
            self.rv = None
            self.adt, self.variant = inner[1], inner[2]
            self.bb, self.idx = o["bb"], "term"
            self._terms = {}
            for name, t in inner[3]:
                self._terms[name] = t
                self.fields[name] = (None, o["bb"], "term")
            return
        st = fn.blocks[o["bb"]]["stmts"][o["idx"]]
        okop = st["rv"]["ops"][0]
        d = find_def_stmt(self.pv, okop, o["bb"], o["idx"])
        if not d or d[0] != "stmt" or d[1]["k"] != "aggr":
            self.problem = "Ok payload is not a struct/enum literal"
            self.payload_def = d
            return
        edits = self.pv.tampered(okop, o["bb"], o["idx"])
        if edits:
            # `let mut m = Self {..}; m.x.clear(); Ok(m)`: the literal is not what is returned (DESIGN 3.18)
            self.problem = "the value is edited in place between its construction and the return: " + "; ".join(sorted(set(edits)))
            self.payload_def = d
            return
        rv, bb, idx = d[1], d[2], d[3]
        self.rv = rv
        self.adt = rv.get("adt")
        self.variant = rv.get("variant")
        self.bb, self.idx = bb, idx
        for name, op in zip(rv.get("fields", []), rv["ops"]):
            self.fields[name] = (op, bb, idx)

    def term(self, name):
        if self._terms is not None:
            return self._terms[name]
        op, bb, idx = self.fields[name]
        return self.pv.operand_term(op, bb, idx)

    def arms(self, name):
        if self._terms is not None:
            return [(self._terms[name], self.bb)]
        op, bb, idx = self.fields[name]
        return arms(self.pv, op, bb, idx)


def elem_of(term, fn, vl):
    """(orig index, site bb, elem call term) of the array element a term extracts, or None"""
    hits = []
    ITER_NEXT = "core::iter::traits::iterator::Iterator::next"
    for c in subterms(term):
        if is_call(c) and c[1] in (VEC_REMOVE, VEC_POP, INDEX) and c[3] and c[3][0] == fn.key:
            bb = c[3][1]
            e = vl.site_elem.get(bb)
            hits.append((e[2] if e else None, bb, c))
        elif isinstance(c, tuple) and c and c[0] == "field" and c[2] == "0" and c[1][0] == "variant" and c[1][2] == "Some" \
                and is_call(c[1][1], ITER_NEXT) and c[1][1][3] and c[1][1][3][0] == fn.key and c[1][1][3][1] in vl.site_elem:
            # the k-th `it.next()` of an iterator over the input array
            bb = c[1][1][3][1]
            hits.append((vl.site_elem[bb][2], bb, c))
        elif isinstance(c, tuple) and c and c[0] == "elemk" and isinstance(c[2], int) and c[2] >= 0:
            # element i of the [T; N] the input vector was converted to
            conv = [s for s in subterms(c[1]) if (is_call(s, "core::convert::TryInto::try_into") or is_call(s, "core::convert::TryFrom::try_from"))
                    and len(s) > 3 and s[3]
                    and s[3][0] == fn.key and s[3][1] in vl.array_orig]
            if len(conv) == 1:
                orig = vl.array_orig[conv[0][3][1]]
                hits.append((orig[c[2]] if orig is not None and c[2] < len(orig) else None, conv[0][3][1], c))
    if len(hits) != 1:
        # the same site may occur several times in a phi; accept if all agree
        keys = {(h[0], h[1]) for h in hits}
        if len(keys) == 1 and hits:
            return hits[0]
        return None
    return hits[0]


def _strip_elem(t, elem):
    return t == elem


def built_local(fn, pv, op, bb, idx, depth=0):
    """the local Vec an operand's value was built in (`let mut v = Vec::new(); v.push(..); ..; Ok(v)` inside an inlined helper,
    taken with `?` and moved on), following moves, `Ok(..)` / `?`; None if the value is not such a local"""
    from .facts import callee_path as _cp
    if op["k"] not in ("copy", "move") or op["place"]["p"] or depth > 10:
        return None
    l = op["place"]["l"]
    if pv._defs is None:
        pv._collect_defs()
    ds = [d for d in pv.reaching(l, bb, idx) if d != -1]
    if len(ds) != 1:
        return None
    _, dbb, didx, payload = pv._defs[ds[0]]
    if didx == "term":
        if _cp(payload) in ("alloc::vec::Vec::<T>::new", "alloc::vec::Vec::<T>::with_capacity",
                            "alloc::collections::btree::set::BTreeSet::<T>::new"):
            return l
        return None
    if payload["k"] == "use" and payload["op"]["k"] in ("copy", "move"):
        pl = payload["op"]["place"]
        if not pl["p"]:
            return built_local(fn, pv, payload["op"], dbb, didx, depth + 1)
        if len(pl["p"]) == 2 and pl["p"][0][0] == "downcast" and pl["p"][0][1] == "Continue" and pl["p"][1][0] == "field":
            bs = [d for d in pv.reaching(pl["l"], dbb, didx) if d != -1]
            if len(bs) == 1:
                _, bbb, bidx, bt = pv._defs[bs[0]]
                if bidx == "term" and _cp(bt) == "core::ops::try_trait::Try::branch" and bt["args"][0]["k"] in ("copy", "move"):
                    oks = []

                    def collect(rl, rb, ri, dep=0):
                        if dep > 8:
                            return False
                        for r in pv.reaching(rl, rb, ri):
                            if r == -1:
                                return False
                            _, rbb, ridx, rp = pv._defs[r]
                            if ridx != "term" and rp["k"] == "aggr" and rp.get("variant") == "Ok" and rp["ops"]:
                                oks.append((rp["ops"][0], rbb, ridx))
                            elif ridx != "term" and rp["k"] == "aggr" and rp.get("variant") == "Err":
                                continue
                            elif ridx == "term" and _cp(rp) in ("core::ops::try_trait::FromResidual::from_residual", "util::cbor_type_error"):
                                continue
                            elif ridx != "term" and rp["k"] == "use" and rp["op"]["k"] in ("copy", "move") and not rp["op"]["place"]["p"]:
                                if not collect(rp["op"]["place"]["l"], rbb, ridx, dep + 1):
                                    return False
                            else:
                                return False
                        return True
                    if collect(bt["args"][0]["place"]["l"], bbb, "term") and len(oks) == 1:
                        return built_local(fn, pv, oks[0][0], oks[0][1], oks[0][2], depth + 1)
    return None


def array_of_decoded(prog, fn, pv, vl, agg, name):
    """field `name` of the decoded value is `src.try_as_array()?` with every element, in order, handed to one decoder whose
    failure fails the whole decode - `src.try_as_array_then_convert(D)?` or the loop / iterator chain it stands for.
    Returns (src term, type decoded by D, 'call' | 'expanded') or None"""
    t = agg.term(name)
    if t[0] == "tryok" and is_call(t[1], TRY_ARRAY_CONVERT) and len(t[1][2]) == 2:
        return t[1][2][0], _converter_type(prog, t[1][2][1]), "call"
    if agg._terms is not None or name not in agg.fields:
        return None
    from .seq import Seq, normalize, X
    op, bb, idx = agg.fields[name]
    try:
        s = normalize(Seq(fn, pv, vl).of_operand(op, bb, idx))
    except Exception:
        return None
    if not (s and s[0] == "map" and s[2][0] == "elems" and s[2][2] == 0 and s[2][3] is None):
        return None
    coll, F = s[2][1], s[1]
    if not (coll[0] == "tryok" and is_call(coll[1], TRY_ARRAY) and len(coll[1][2]) == 1):
        return None
    if F[0] == "field" and F[2] == "0" and F[1][0] == "variant" and F[1][2] == "Ok":
        F = ("tryok", F[1][1])          # the Ok payload taken by an explicit match whose Err arm fails (Seq checked that)
    if not (F[0] == "tryok" and is_call(F[1]) and (F[1][1].endswith("::from_cbor_value") or F[1][1].endswith("::from_cbor_value_depth"))
            and F[1][2] and F[1][2][0] == X):
        return None
    return coll[1][2][0], type_of_decoder(_full_self(fn, F[1])), "expanded"


def slot_kind(prog, fn, pv, vl, agg, name):
    """descriptor of how field `name` of the decoded struct is obtained"""
    t = agg.term(name)
    from . import combinators as _cb
    if _cb.is_combinator(t):
        # `(..).then(|| ..).transpose()?.unwrap_or_default()`: the choice the combinator chain stands for
        cases = _cb.reduce(prog, t)
        if len(cases) >= 2 and not (len(cases) == 1 and cases[0][1] == t):
            from .prov import mk_phi
            t = mk_phi([v for _, v in cases])
    e = elem_of(t, fn, vl)
    d = {"field": name, "slot": None, "kind": "?", "term": show(t)[:200]}
    if e is None:
        # a list built by a loop / iterator chain over `slot.try_as_array()?` (try_as_array_then_convert written out)
        ad = array_of_decoded(prog, fn, pv, vl, agg, name)
        e2 = elem_of(ad[0], fn, vl) if ad else None
        if ad and e2 is not None and ad[0] == e2[2]:
            d.update({"slot": e2[0], "site_bb": e2[1], "kind": "array<%s>" % ad[1], "expanded": ad[2] == "expanded"})
            return d
        d["kind"] = "no-single-element"
        return d
    orig, site_bb, elem = e
    d["slot"] = orig
    d["site_bb"] = site_bb
    # direct forms
    if t[0] == "tryok" and is_call(t[1]):
        c = t[1]
        a0 = c[2][0] if c[2] else None
        if c[1] in FROM_BSTR and a0 == elem:
            d["kind"] = "protected"
            return d
        if c[1] in HDR_FROM and a0 == elem:
            d["kind"] = "header"
            return d
        if c[1] == TRY_BYTES and a0 == elem:
            d["kind"] = "bstr"
            return d
        if c[1] == TRY_NONEMPTY and a0 == elem:
            d["kind"] = "nonempty-bstr"
            return d
        if c[1] == TRY_STRING and a0 == elem:
            d["kind"] = "tstr"
            return d
        if c[1] == TRY_ARRAY_CONVERT and a0 == elem:
            conv = c[2][1]
            d["kind"] = "array<%s>" % _converter_type(prog, conv)
            return d
        if c[1] == TRY_INTO and a0 == ("tryok", ("call", TRY_INTEGER, (elem,), a0[1][3] if a0[0] == "tryok" and is_call(a0[1]) else None)):
            site = fn.blocks[c[3][1]]["term"]["callee"]
            src = site["args"][0] if site.get("args") else "?"
            # the narrowing must start from the CBOR integer itself (full range -2^64..2^64-1): `i64 -> u64` after a helper
            # that already narrowed would reject the upper half of the unsigned range
            d["kind"] = "int<%s>" % site["args"][1] if src == "ciborium::value::integer::Integer" \
                else "int<%s> narrowed from %s, not from the CBOR integer" % (site["args"][1], src)
            return d
        if (c[1].endswith("::from_cbor_value") or c[1].endswith("::from_cbor_value_depth")) and a0 == elem:
            d["kind"] = "nested<%s>" % type_of_decoder(_full_self(fn, c))
            return d
    # match arms on the element's variant
    alist = agg.arms(name)
    if len(alist) >= 2 and all(_is_option(x[0]) for x in alist):
        got = {}
        for term, dbb in alist:
            conds = conditions(fn, pv, dbb)
            pvs = path_variants(prog, pv, conds)
            allowed = pvs.get(elem)
            key = frozenset(allowed) if allowed else None
            got[key] = term
        some_b = got.get(frozenset(["Bytes"]))
        none_n = got.get(frozenset(["Null"]))
        if some_b and none_n and len(got) == 2 and some_b == ("aggr", "core::option::Option", "Some", (("0", ("field", ("variant", elem, "Bytes"), "0")),)) \
                and none_n[2] == "None":
            d["kind"] = "bstr/nil"
            return d
        # nonce: Null -> None, Bytes -> Some(Nonce::Bytes), Integer -> Some(Nonce::Integer(try_into?))
        d["arms"] = {",".join(sorted(k)) if k else "?": show(v)[:120] for k, v in got.items()}
        if set(got) == {frozenset(["Null"]), frozenset(["Bytes"]), frozenset(["Integer"])}:
            b = got[frozenset(["Bytes"])]
            i = got[frozenset(["Integer"])]
            n = got[frozenset(["Null"])]
            okb = b == ("aggr", "core::option::Option", "Some", (("0", ("aggr", "context::Nonce", "Bytes", (("0", ("field", ("variant", elem, "Bytes"), "0")),))),))
            oki = (i[0] == "aggr" and i[2] == "Some" and i[3][0][1][0] == "aggr" and i[3][0][1][1] == "context::Nonce" and i[3][0][1][2] == "Integer"
                   and i[3][0][1][3][0][1][0] == "tryok" and is_call(i[3][0][1][3][0][1][1], TRY_INTO))
            if oki:
                # the narrowed value is the Integer payload of this element: taken by the match pattern, or again through
                # try_as_integer()? on the element (known to be an Integer on this arm)
                src_ = i[3][0][1][3][0][1][1][2][0]
                oki = src_ == ("field", ("variant", elem, "Integer"), "0") or (
                    src_[0] == "tryok" and is_call(src_[1], TRY_INTEGER) and src_[1][2] == (elem,))
            if okb and oki and n[2] == "None":
                site = fn.blocks[i[3][0][1][3][0][1][1][3][1]]["term"]["callee"]
                d["kind"] = "bstr/int<%s>/nil" % site["args"][1]
                return d
    # optional trailing element: phi{ X(elem)?, default } selected by the length
    if t[0] == "phi" and len(t[1]) == 2:
        alist = agg.arms(name)
        if len(alist) < 2:
            alist = [(x, None) for x in t[1]]      # one definition whose value is a choice (combinators reduced to a phi)
        withel = [(x, b) for x, b in alist if any(s == elem for s in subterms(x))]
        without = [(x, b) for x, b in alist if not any(s == elem for s in subterms(x))]
        if len(withel) == 1 and len(without) == 1:
            x = withel[0][0]
            dflt = without[0][0]
            inner = None
            popped = ("field", ("variant", elem, "Some"), "0")     # `match tail.pop() { Some(v) => .., None => default }`
            if x[0] == "tryok" and is_call(x[1], TRY_ARRAY_CONVERT) and x[1][2][0] in (elem, popped) \
                    and (is_call(dflt, VEC_NEW) or is_call(dflt, "core::default::Default::default")):
                inner = "array<%s>" % _converter_type(prog, x[1][2][1])
            if x[0] == "aggr" and x[2] == "Some" and x[3][0][1][0] == "tryok" and is_call(x[3][0][1][1], TRY_BYTES) \
                    and x[3][0][1][1][2][0] in (elem, popped) \
                    and dflt[0] == "aggr" and dflt[2] == "None":
                inner = "bstr"
            if inner:
                d["kind"] = inner
                d["optional"] = True
                # the arm with the element must be guarded by the exact longer length
                iv = vl.site_state.get(site_bb)
                d["len_at_site"] = [iv[1][0], iv[1][1]] if iv else None
                return d
    return d


def _is_option(t):
    return t[0] == "aggr" and t[1] == "core::option::Option"


def _full_self(fn, c):
    """resolved name of a call term's callee including the Self type (for generic decoders)"""
    site = c[3] if len(c) > 3 else None
    if site and site[0] == "<fn-item>":
        return site[1]          # a function item used as a value (`.map(T::from_cbor_value)`): its resolved name
    if site and site[0] == fn.key:
        cal = fn.blocks[site[1]]["term"]["callee"]
        r = cal.get("resolved") or {}
        return r.get("full") or cal["full"]
    return c[1]


def _converter_type(prog, conv):
    """element type decoded by the function / closure handed to try_as_array_then_convert"""
    if conv[0] == "fn":
        key = conv[2] if len(conv) > 2 else None
        f = prog.fns.get(key)
        if f is not None and prog.is_private_helper(key) and f.arg_count == 1:
            # a private named function used as the converter is the closure it replaces
            rt = Prov(f).return_term()
            for c in subterms(rt):
                if is_call(c) and (c[1].endswith("::from_cbor_value") or c[1].endswith("::from_cbor_value_depth")):
                    if c[2] and c[2][0] == ("param", 0):
                        return type_of_decoder(_full_self(f, c))
            return "?"
        return type_of_decoder(conv[1])
    if conv[0] == "closure":
        f = prog.fns.get(conv[1])
        if f:
            rt = Prov(f).return_term()
            for c in subterms(rt):
                if is_call(c) and (c[1].endswith("::from_cbor_value") or c[1].endswith("::from_cbor_value_depth")):
                    # the closure's own argument must be what is decoded
                    if c[2] and c[2][0] == ("param", 1):
                        return type_of_decoder(c[1])
    return "?"


def accepted_arities(fn, vec_ty="alloc::vec::Vec<ciborium::value::Value>", probe=range(0, 10)):
    """lengths n of the input array for which an Ok exit is reachable (vec-length dataflow seeded
    with an exact length; infeasible edges are pruned by the analysis)"""
    pv = Prov(fn)
    oks = [o["bb"] for o in outcomes(fn, pv) if o["kind"] == "ok"]
    out = set()
    for n in list(probe) + [40]:
        vl = SeededVecLen(fn, n, vec_ty)
        if any(vl.IN[b] is not None for b in oks):
            out.add(n)
    return out


class SeededVecLen(VecLen):
    def __init__(self, fn, n, vec_ty):
        self._seed_n = n
        self._seed_ty = vec_ty
        self._seeded = False
        super().__init__(fn)

    def _stmt(self, st, s):
        super()._stmt(st, s)
        if s["k"] == "assign" and not s["dst"]["p"] and s["rv"]["k"] == "use":
            l = s["dst"]["l"]
            key = "_%d" % l
            if self.fn.local_ty(l) == self._seed_ty and key not in st.vec:
                op = s["rv"]["op"]
                # seed only values coming out of a `?` (Continue payload), i.e. the freshly extracted array
                if op["k"] in ("copy", "move") and op["place"]["p"] and op["place"]["p"][0][0] == "downcast":
                    n = self._seed_n
                    st.vec[key] = (n, n, tuple(range(n)))


# ---------------------------------------------------------------------------------------------
# encoder side
# ---------------------------------------------------------------------------------------------

def returned_collection(fn, pv, variant):
    """local holding the Vec that is wrapped as Ok(Value::<variant>(vec)); (local, bb, idx) or None"""
    oks = [o for o in outcomes(fn, pv) if o["kind"] == "ok"]
    if len(oks) != 1:
        return None
    o = oks[0]
    st = fn.blocks[o["bb"]]["stmts"][o["idx"]]
    d = find_def_stmt(pv, st["rv"]["ops"][0], o["bb"], o["idx"])
    if not d or d[0] != "stmt" or d[1]["k"] != "aggr" or d[1].get("adt") != "ciborium::value::Value" or d[1].get("variant") != variant:
        return None
    op = d[1]["ops"][0]
    if op["k"] not in ("copy", "move") or op["place"]["p"]:
        return None
    # chase copies back to the user variable that pushes go to
    l = op["place"]["l"]
    bb, idx = d[2], d[3]
    return l, bb, idx


DUMMY_OP = {"k": "const", "ty": "?", "val": None}


def returned_operand(fn, pv, variant):
    """(operand, bb, idx) of the payload of the single Ok(Value::<variant>(payload)) the function returns, or None"""
    oks = [o for o in outcomes(fn, pv) if o["kind"] == "ok"]
    if len(oks) != 1:
        return None
    o = oks[0]
    st = fn.blocks[o["bb"]]["stmts"][o["idx"]]
    d = find_def_stmt(pv, st["rv"]["ops"][0], o["bb"], o["idx"])
    if not d or d[0] != "stmt" or d[1]["k"] != "aggr" or d[1].get("adt") != "ciborium::value::Value" or d[1].get("variant") != variant:
        return None
    return d[1]["ops"][0], d[2], d[3]


def array_elements(fn, pv, op, bb, idx):
    """elements of the array held by an operand, from its sequence value (lib/seq.py): a list of
    {term, conds, loop, via, op, at, bb} in emission order - literal elements one by one, optional ones with the
    conditions under which they are present, and a `loop` entry (with the per-element term over seq.X and the source
    sequence) for each mapped part.  None if the sequence is not understood."""
    from .seq import Seq, normalize
    sq = Seq(fn, pv)
    s = normalize(sq.of_operand(op, bb, idx))
    out = []

    def emit(part, conds):
        k = part[0]
        if k == "empty":
            return True
        if k == "lit":
            for x in part[1]:
                o, at = sq.origins.get(x, (DUMMY_OP, (bb, idx)))
                out.append({"term": x, "conds": list(conds), "loop": None, "via": "push" if conds else "seq", "op": o, "at": at, "bb": at[0]})
            return True
        if k == "opt":
            return emit(part[2], list(conds) + list(part[1]))
        if k == "cat":
            return all(emit(x, conds) for x in part[1])
        if k == "map":
            out.append({"term": part[1], "conds": list(conds), "loop": "seq", "seq": part[2], "via": "seq-map", "op": DUMMY_OP,
                        "at": (bb, idx), "bb": bb})
            return True
        if k == "elems":
            out.append({"term": ("x",), "conds": list(conds), "loop": "seq", "seq": part, "via": "seq-elems", "op": DUMMY_OP,
                        "at": (bb, idx), "bb": bb})
            return True
        return False
    return out if emit(s, []) else None


def vec_elements(fn, pv, l, bb, idx):
    """ordered elements of the Vec in local l as built up to (bb, idx):
    list of {term, bb, conds, loop (header or None), via: 'init'|'push'}"""
    cfg = fn.cfg
    # find the root definition (vec! / Vec::new) by chasing copies
    locals_ = {l}
    root = None
    cur = (l, bb, idx)
    for _ in range(8):
        ds = [d for d in pv.reaching(cur[0], cur[1], cur[2])]
        if len(ds) != 1 or ds[0] == -1:
            break
        dl, dbb, didx, payload = pv._defs[ds[0]]
        if didx == "term":
            root = ("call", payload, dbb)
            break
        if payload["k"] == "use" and payload["op"]["k"] in ("copy", "move") and not payload["op"]["place"]["p"]:
            cur = (payload["op"]["place"]["l"], dbb, didx)
            locals_.add(cur[0])
            continue
        root = ("stmt", payload, dbb)
        break
    if root is None or root[0] != "call":
        return None
    name = callee_path(root[1])
    elems = []
    if name == BOX_VEC:
        boxt = pv.operand_term(root[1]["args"][0], root[2], "term")
        init = None
        for e in pv.effects():
            if e["kind"] == "assign" and e["value"][0] == "array":
                # *BOX.value.value.0 = [ ... ]
                base = e["place"]
                while base[0] == "field":
                    base = base[1]
                if base == ("deref", boxt) or base == boxt or (base[0] == "deref" and base[1] == boxt):
                    init = e
        if init is None:
            return None
        st = fn.blocks[init["bb"]]["stmts"][init["idx"]]
        for op in st["rv"]["ops"]:
            elems.append({"op": op, "at": (init["bb"], init["idx"]), "bb": init["bb"], "via": "init",
                          "conds": [], "loop": None})
    elif name in (VEC_NEW, "alloc::vec::Vec::<T>::with_capacity"):
        pass
    else:
        return None
    pushes = []
    for e in pv.effects():
        if e["kind"] == "call" and e["callee"] == VEC_PUSH and e["argi"] == 0 and e["place"][0] == "local" and e["place"][1] in locals_:
            t = fn.blocks[e["bb"]]["term"]
            loops = cfg.in_loop(e["bb"])
            pushes.append({"op": t["args"][1], "at": (e["bb"], "term"), "bb": e["bb"], "via": "push",
                           "conds": conditions(fn, pv, e["bb"]), "loop": loops[-1] if loops else None})
        if e["kind"] == "call" and e["callee"] == EXTEND and e["argi"] == 0 and e["place"][0] == "local" and e["place"][1] in locals_:
            t = fn.blocks[e["bb"]]["term"]
            loops = cfg.in_loop(e["bb"])
            conds = conditions(fn, pv, e["bb"])
            d = find_def_stmt(pv, t["args"][1], e["bb"], "term")
            if d and d[0] == "stmt" and d[1]["k"] == "aggr" and d[1].get("kind") == "array":
                # v.extend([a, b, ..]) is push(a); push(b); ..
                for k, op in enumerate(d[1]["ops"]):
                    pushes.append({"op": op, "at": (d[2], d[3]), "bb": e["bb"], "sub": k, "via": "push",
                                   "conds": conds, "loop": loops[-1] if loops else None})
            else:
                # v.extend(<iterator>): an unknown number of elements, like a loop of pushes
                pushes.append({"op": t["args"][1], "at": (e["bb"], "term"), "bb": e["bb"], "via": "extend",
                               "conds": conds, "loop": loops[-1] if loops else None})
    order = {b: i for i, b in enumerate(cfg.rpo)}
    pushes.sort(key=lambda p: (order.get(p["bb"], 10 ** 6), p.get("sub", 0)))
    elems.extend(pushes)
    for e in elems:
        e["term"] = pv.operand_term(e["op"], e["at"][0], e["at"][1])
    return elems


def field_of_self(t):
    """if t reads (part of) `self.<field>` return the field name: arg0.f, (*arg0).f, (arg0.f as Some).0 ..."""
    for s in subterms(t):
        if s[0] == "field" and s[1] in (("param", 0), ("deref", ("param", 0))):
            return s[2]
    return None


def self_value(t):
    """field name if t is `self.f` or the payload `(self.f as Some).0`, else None"""
    if t[0] == "field" and t[1] == ("param", 0):
        return t[2]
    if t[0] == "field" and t[2] == "0" and t[1][0] == "variant" and t[1][2] == "Some" and t[1][1][0] == "field" \
            and t[1][1][1] == ("param", 0):
        return t[1][1][2]
    return None


EXTEND = "core::iter::traits::collect::Extend::extend"
OPT_MAP_OR = "core::option::Option::<T>::map_or"
OPT_MAP = "core::option::Option::<T>::map"
OPT_UNWRAP_OR = "core::option::Option::<T>::unwrap_or"
OPT_UNWRAP_OR_ELSE = "core::option::Option::<T>::unwrap_or_else"
OPT_MAP_OR_ELSE = "core::option::Option::<T>::map_or_else"


def apply_fn(prog, fterm, args):
    """value of calling the function value `fterm` (enum constructor or pure closure) on argument terms, or None"""
    from .prov import subst_params
    if fterm[0] == "fn":
        adt, _, var = fterm[2].rpartition("::")
        names = prog.enums.get(adt)
        if names and var in names.values():
            return ("aggr", adt, var, tuple((str(i), a) for i, a in enumerate(args)))
        a = prog.adts.get(fterm[2])
        if a and a.get("kind") == "struct" and len(a.get("variants", [])) == 1 \
                and [fd["name"] for fd in a["variants"][0]["fields"]] == [str(i) for i in range(len(args))]:
            # a tuple struct's constructor used as a function value: `r.map(Self)`
            return ("aggr", fterm[2], fterm[2].rpartition("::")[2], tuple((str(i), x) for i, x in enumerate(args)))
        f0 = prog.fns.get(fterm[2])
        if f0 is not None and not args and f0.arg_count == 0 and f0.blocks and prog.is_private_helper(fterm[2]):
            # a private argument-less function used as a function value (`.ok_or_else(nesting_error)`): the value it returns
            rt0 = Prov(f0).return_term()
            if not any(isinstance(x, tuple) and x and x[0] in ("param", "loop", "undef", "phi") for x in subterms(rt0)):
                return rt0
        if f0 is not None and args and f0.arg_count == len(args) and f0.blocks and prog.is_private_helper(fterm[2]):
            # a private constructor used as a function value (`.map(Self::from_header)`): the struct literal it returns, with the
            # arguments in place of its parameters - the same value `.map(|h| Self { .. })` denotes
            pv0 = Prov(f0)
            rt0 = pv0.return_term()
            if rt0[0] == "aggr" and rt0[1] in prog.adts and not pv0.effects() \
                    and not any(isinstance(x, tuple) and x and x[0] in ("loop", "undef", "phi") for x in subterms(rt0)):
                return subst_params(rt0, list(args))
        if fterm[2] in prog.fns or fterm[2].startswith("<"):
            # a named crate function used as a function value (`o.map(Value::try_as_bytes)`): the call it stands for
            return ("call", fterm[2], tuple(args), ("<fn-item>", fterm[1]))
        return None
    if fterm[0] == "closure":
        f = prog.fns.get(fterm[1])
        if f is None or not f.blocks:
            return None
        rt = Prov(f).return_term()
        if any(isinstance(s, tuple) and s and s[0] in ("loop", "undef") for s in subterms(rt)):
            return None
        from .prov import is_err_term
        if rt[0] == "phi" and len([a for a in rt[1] if not is_err_term(prog, a)]) == 1 \
                and not any(isinstance(s, tuple) and s and s[0] == "phi" for a in rt[1] for s in subterms(a) if s is not a and not is_err_term(prog, a)):
            # a closure with `?` inside: one way to succeed, the other exits are early error returns - a Result-valued body
            pass
        elif rt[0] == "phi":
            # a closure that matches on its argument: every alternative must say which variant it is for (it reads the
            # variant's payload), so the value describes itself without path conditions
            for alt in rt[1]:
                if not any(isinstance(s, tuple) and s and s[0] == "variant" for s in subterms(alt)):
                    return None
        elif any(isinstance(s, tuple) and s and s[0] == "phi" for s in subterms(rt)):
            return None
        from .prov import resolve_closure_fields
        return resolve_closure_fields(subst_params(rt, [fterm] + list(args)))
    return None


def option_combinator_cases(prog, t):
    """(subject Option term, value when None, value when Some) for `o.map_or(d, f)`, `o.map(f).unwrap_or(d)`,
    `o.map_or_else(|| d, f)`; the Some value is expressed over ((subject as Some).0)"""
    if not is_call(t):
        return None
    some = lambda o: ("field", ("variant", o, "Some"), "0")
    if t[1] == OPT_MAP_OR and len(t[2]) == 3:
        o, d, f = t[2]
        v = apply_fn(prog, f, [some(o)])
        return (o, d, v) if v else None
    if t[1] == OPT_MAP_OR_ELSE and len(t[2]) == 3:
        o, df, f = t[2]
        d = apply_fn(prog, df, [])
        v = apply_fn(prog, f, [some(o)])
        return (o, d, v) if v and d else None
    if t[1] in (OPT_UNWRAP_OR, OPT_UNWRAP_OR_ELSE) and len(t[2]) == 2 and is_call(t[2][0], OPT_MAP) and len(t[2][0][2]) == 2:
        o, f = t[2][0][2]
        d = t[2][1] if t[1] == OPT_UNWRAP_OR else apply_fn(prog, t[2][1], [])
        v = apply_fn(prog, f, [some(o)])
        return (o, d, v) if v and d else None
    return None


def emit_kind(prog, fn, pv, e):
    """descriptor of an emitted array element / map value: (kind, field)"""
    t = e["term"]
    f = field_of_self(t)
    from . import combinators as cb
    if cb.is_combinator(t):
        # `o.map_or(d, f)` & co. are the match they abbreviate: the value is one of the case values
        cases = cb.reduce(prog, t)
        if not (len(cases) == 1 and cases[0][1] == t):
            t = mk_phi([v for _, v in cases])
    oc = option_combinator_cases(prog, e["term"])
    if oc and oc[0][0] == "field" and oc[0][1] == ("param", 0):
        fld = oc[0][2]
        if oc[2] == ("aggr", "ciborium::value::Value", "Bytes", (("0", ("field", ("variant", oc[0], "Some"), "0")),)) \
                and oc[1] == ("aggr", "ciborium::value::Value", "Null", ()):
            return "bstr/nil", fld
    if t[0] == "tryok" and is_call(t[1]):
        c = t[1]
        sv = self_value(c[2][0]) if len(c[2]) == 1 else None
        if c[1] == CBOR_BSTR and sv:
            return "protected", sv
        if c[1] == "<header::Header as common::AsCborValue>::to_cbor_value" and sv:
            return "header", sv
        if c[1] == TO_ARRAY and sv:
            site = fn.blocks[c[3][1]]["term"]["callee"]
            coll = site["args"][0]
            inner = coll[coll.index("<") + 1: coll.rindex(">")] if "<" in coll else coll
            return "array<%s>" % inner, sv
        if c[1].endswith("::to_cbor_value") and sv:
            full = _full_self(fn, c)
            return "nested<%s>" % type_of_decoder(full.replace("::to_cbor_value", "::from_cbor_value")), sv
        if c[1].endswith("::to_cbor_value") and len(c[2]) == 1 and is_call(c[2][0], VEC_REMOVE):
            r = c[2][0]
            a0 = r[2][0]
            inner = a0[1] if a0[0] == "ref" else a0
            fld = self_value(inner)
            if fld and r[2][1] == ("const", 0):
                full = _full_self(fn, c)
                return "first-of<%s>" % type_of_decoder(full.replace("::to_cbor_value", "::from_cbor_value")), fld
    if t[0] == "aggr" and t[1] == "ciborium::value::Value":
        inner = t[3][0][1] if t[3] else None
        sv = self_value(inner) if inner else None
        if t[2] == "Bytes" and sv:
            return "bstr", sv
        if t[2] == "Text" and sv:
            return "tstr", sv
    if is_call(t, "core::convert::From::from") and len(t[2]) == 1 and self_value(t[2][0]):
        site = fn.blocks[t[3][1]]["term"]["callee"]
        return "int<%s>" % site["args"][1], self_value(t[2][0])
    # the same, seen only as a value: phi{ Bytes((self.f as Some).0), Null } - the arms describe themselves
    if t[0] == "phi" and len(t[1]) == 2:
        nulls = [x for x in t[1] if x == ("aggr", "ciborium::value::Value", "Null", ())]
        byts = [x for x in t[1] if x[0] == "aggr" and x[1] == "ciborium::value::Value" and x[2] == "Bytes"]
        if len(nulls) == 1 and len(byts) == 1:
            inner = byts[0][3][0][1]
            fld = self_value(inner)
            if fld and inner[0] == "field" and inner[1][0] == "variant":
                return "bstr/nil", fld
    if t[0] == "phi" and len(t[1]) == 3 and f:
        # nonce: Null | Bytes(((self.f as Some).0 as Bytes).0) | From::from(((self.f as Some).0 as Integer).0)
        base = ("field", ("variant", ("field", ("param", 0), f), "Some"), "0")
        want_n = ("aggr", "ciborium::value::Value", "Null", ())
        want_b = ("aggr", "ciborium::value::Value", "Bytes", (("0", ("field", ("variant", base, "Bytes"), "0")),))
        ints = [x for x in t[1] if is_call(x, "core::convert::From::from") and len(x[2]) == 1
                and x[2][0] == ("field", ("variant", base, "Integer"), "0")]
        from .prov import strip_sites
        rest = {strip_sites(x) for x in t[1]}
        if want_n in rest and want_b in rest and len(ints) == 1 and ints[0][3] and ints[0][3][0] in prog.fns:
            site = prog.fns[ints[0][3][0]].blocks[ints[0][3][1]]["term"]["callee"]
            return "bstr/int<%s>/nil" % site["args"][1], f
    # match on an Option field: Some(b) => Bytes(b), None => Null
    alist = arms(pv, e["op"], e["at"][0], e["at"][1])
    if len(alist) >= 2:
        got = {}
        for term, dbb in alist:
            pvs = path_variants(prog, pv, conditions(fn, pv, dbb))
            for subj, names in pvs.items():
                if subj[0] == "field" and subj[1] == ("param", 0):
                    got[frozenset(names)] = (term, subj[2])
                elif subj[0] == "field" and subj[1][0] == "variant" and subj[1][2] == "Some":
                    # nested: discriminant of (self.f as Some).0
                    pass
        s = got.get(frozenset(["Some"]))
        n = got.get(frozenset(["None"]))
        if s and n and len(alist) == 2:
            fld = s[1]
            if s[0] == ("aggr", "ciborium::value::Value", "Bytes", (("0", ("field", ("variant", ("field", ("param", 0), fld), "Some"), "0")),)) \
                    and n[0] == ("aggr", "ciborium::value::Value", "Null", ()):
                return "bstr/nil", fld
        if len(alist) == 3:
            # nonce
            terms = sorted(show(x[0]) for x in alist)
            fld = f
            want = sorted([
                show(("aggr", "ciborium::value::Value", "Null", ())),
                show(("aggr", "ciborium::value::Value", "Bytes", (("0", ("field", ("variant", ("field", ("variant", ("field", ("param", 0), fld), "Some"), "0"), "Bytes"), "0")),))),
            ])
            ints = [x[0] for x in alist if is_call(x[0], "core::convert::From::from")]
            if fld and len(ints) == 1 and ints[0][2] == (("field", ("variant", ("field", ("variant", ("field", ("param", 0), fld), "Some"), "0"), "Integer"), "0"),) \
                    and all(w in terms for w in want):
                site = fn.blocks[ints[0][3][1]]["term"]["callee"]
                return "bstr/int<%s>/nil" % site["args"][1], fld
    return "?", f


FAIL_OR_CONTINUE = ("alloc::collections::btree::set::BTreeSet::<T, A>::insert", "alloc::collections::btree::set::BTreeSet::<T, A>::contains")


def guard_desc(prog, fn, pv, e):
    """omission guard of a pushed element, canonical (sorted, implied facts added): ['always'] or a list of
    'nonempty:<field>' | 'empty:<field>' | 'some:<field>' | 'none:<field>' | 'len==k:<field>' | 'len!=k:<field>' | text.
    Conditions that either fail the whole function or continue (a `?`, the duplicate-label test) are not omission guards."""
    out = set()
    for c in e["conds"]:
        nb = normalize_bool_cond(c)
        if nb:
            t, val = nb
            if t[0] == "unop" and t[1] == "Not":
                t, val = t[2], not val
            if is_call(t) and t[1] in FAIL_OR_CONTINUE:
                continue
            if is_call(t) and t[1].endswith("::is_empty"):
                a = t[2][0]
                fld = field_of_self(a)
                out.add(("nonempty:%s" % fld) if val is False else ("empty:%s" % fld))
                continue
            if is_call(t) and t[1] in ("core::option::Option::<T>::is_some", "core::option::Option::<T>::is_none"):
                fld = field_of_self(t[2][0])
                some = t[1].endswith("is_some") == val
                out.add(("some:%s" if some else "none:%s") % fld)
                continue
            if t[0] == "binop" and t[1] in ("Eq", "Ne") and is_call(t[2]) and t[2][1].endswith("::len") and t[3][0] == "const":
                fld = field_of_self(t[2][2][0])
                eq = (t[1] == "Eq") == val
                out.add("len%s%d:%s" % ("==" if eq else "!=", t[3][1], fld))
                continue
        # `match v.len() { 0 => .., 1 => .., _ => .. }`
        if is_call(c[0]) and c[0][1].endswith("::len") and c[1] in ("eq", "ne", "in"):
            fld = field_of_self(c[0][2][0])
            if c[1] == "eq":
                out.add("len==%d:%s" % (c[2], fld))
            elif c[1] == "ne":
                for v in c[2]:
                    out.add("len!=%d:%s" % (v, fld))
            else:
                out.add("len in %s:%s" % (sorted(c[2]), fld))
            continue
        cv = cond_variants(prog, pv, c)
        if cv:
            subj, names = cv
            if is_call(subj, "core::ops::try_trait::Try::branch"):
                continue  # the success edge of a `?`
            fld = field_of_self(subj)
            if names == {"Some"}:
                out.add("some:%s" % fld)
                continue
            if names == {"None"}:
                out.add("none:%s" % fld)
                continue
            out.add("variant(%s) in %s" % (show(subj)[:40], sorted(names)))
            continue
        out.add("cond(%s %s %s)" % (show(c[0])[:60], c[1], c[2]))
    return canon_guard(out)


def canon_guard(gs):
    gs = set(gs) - {"always"}
    for g in list(gs):
        if g.startswith("len=="):
            k, fld = g[5:].split(":", 1)
            if k.isdigit() and int(k) >= 1:
                gs.add("nonempty:%s" % fld)
            if k == "0":
                gs.discard(g)
                gs.add("empty:%s" % fld)
        if g.startswith("len!=0:"):
            gs.discard(g)
            gs.add("nonempty:%s" % g[7:])
    return sorted(gs) or ["always"]


def chase_ref_to_local(pv, op, bb, idx, depth=0):
    """for an operand that is (a reborrow of) `&local`, return (local, bb, idx) where idx is the point of the borrow"""
    if depth > 8 or op["k"] not in ("copy", "move") or op["place"]["p"]:
        return None
    ds = [d for d in pv.reaching(op["place"]["l"], bb, idx)]
    if len(ds) != 1 or ds[0] == -1:
        return None
    dl, dbb, didx, payload = pv._defs[ds[0]]
    if didx == "term":
        return None
    if payload["k"] == "use":
        return chase_ref_to_local(pv, payload["op"], dbb, didx, depth + 1)
    if payload["k"] == "ref":
        pl = payload["place"]
        if not pl["p"]:
            return pl["l"], dbb, didx
        if len(pl["p"]) == 1 and pl["p"][0][0] == "deref":
            return chase_ref_to_local(pv, {"k": "copy", "place": {"l": pl["l"], "p": []}}, dbb, didx, depth + 1)
    return None


def array_passed_to_writer(fn, pv):
    """for a *_structure_data function: (into_writer bb, elements of the Value::Array it serialises) or (None, why)"""
    writers = [(bb, t) for bb, t in fn.calls() if (callee_path(t) or "").startswith("ciborium::") and "into_writer" in callee_path(t)]
    if len(writers) != 1:
        return None, "expected exactly one into_writer call, found %d" % len(writers)
    bb, t = writers[0]
    r = chase_ref_to_local(pv, t["args"][0], bb, "term")
    if r is None:
        return None, "cannot find the value handed to into_writer"
    l, rbb, ridx = r
    d = find_def_stmt(pv, {"k": "copy", "place": {"l": l, "p": []}}, rbb, ridx)
    if not d or d[0] != "stmt" or d[1]["k"] != "aggr" or d[1].get("adt") != "ciborium::value::Value" or d[1].get("variant") != "Array":
        return None, "the serialised value is not a Value::Array literal"
    op = d[1]["ops"][0]
    els = array_elements(fn, pv, op, d[2], d[3])
    if els is None and op["k"] in ("copy", "move") and not op["place"]["p"]:
        els = vec_elements(fn, pv, op["place"]["l"], d[2], d[3])
    if els is None:
        return None, "cannot follow how the array is built"
    return (bb, els), None
