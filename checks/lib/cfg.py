"""Control-flow graph utilities over one function body: dominators, post-dominators,
natural loops, reachability.  Unwind edges and cleanup blocks are ignored (DESIGN 3.1)."""


class CFG:
    def __init__(self, fn):
        self.fn = fn
        n = len(fn.blocks)
        self.n = n
        self.succ = [[] for _ in range(n)]
        self.pred = [[] for _ in range(n)]
        for i, b in enumerate(fn.blocks):
            if b["cleanup"]:
                continue
            for s in fn.succs(i):
                self.succ[i].append(s)
                self.pred[s].append(i)
        self.reach = self._reachable(0)
        self.rpo = self._rpo()
        self.idom = self._dominators()
        self._loops = None

    def _reachable(self, start):
        seen = {start}
        st = [start]
        while st:
            x = st.pop()
            for s in self.succ[x]:
                if s not in seen:
                    seen.add(s)
                    st.append(s)
        return seen

    def _rpo(self):
        seen = set()
        order = []
        # iterative DFS post-order
        stack = [(0, iter(self.succ[0]))]
        seen.add(0)
        while stack:
            node, it = stack[-1]
            adv = False
            for s in it:
                if s not in seen:
                    seen.add(s)
                    stack.append((s, iter(self.succ[s])))
                    adv = True
                    break
            if not adv:
                order.append(node)
                stack.pop()
        order.reverse()
        return order

    def _dominators(self):
        rpo = self.rpo
        idx = {b: i for i, b in enumerate(rpo)}
        idom = {0: 0}
        changed = True

        def intersect(a, b):
            while a != b:
                while idx[a] > idx[b]:
                    a = idom[a]
                while idx[b] > idx[a]:
                    b = idom[b]
            return a

        while changed:
            changed = False
            for b in rpo[1:]:
                new = None
                for p in self.pred[b]:
                    if p in idom:
                        new = p if new is None else intersect(p, new)
                if new is not None and idom.get(b) != new:
                    idom[b] = new
                    changed = True
        return idom

    def dominates(self, a, b):
        """does block a dominate block b (reflexive)"""
        if b not in self.idom:
            return False
        while True:
            if a == b:
                return True
            if b == 0:
                return False
            b = self.idom[b]

    def dom_chain(self, b):
        out = [b]
        while b != 0:
            b = self.idom[b]
            out.append(b)
        return out

    def back_edges(self):
        out = []
        for a in self.reach:
            for s in self.succ[a]:
                if self.dominates(s, a):
                    out.append((a, s))
        return out

    def loops(self):
        """natural loops: list of (header, set(body blocks))"""
        if self._loops is not None:
            return self._loops
        by_header = {}
        for a, h in self.back_edges():
            body = by_header.setdefault(h, {h})
            st = [a]
            while st:
                x = st.pop()
                if x in body:
                    continue
                body.add(x)
                st.extend(self.pred[x])
        self._loops = sorted(by_header.items())
        return self._loops

    def in_loop(self, b):
        return [h for h, body in self.loops() if b in body]

    def reachable_from(self, start, avoid=()):
        avoid = set(avoid)
        if start in avoid:
            return set()
        seen = {start}
        st = [start]
        while st:
            x = st.pop()
            for s in self.succ[x]:
                if s not in seen and s not in avoid:
                    seen.add(s)
                    st.append(s)
        return seen

    def all_paths_pass_through(self, src, dst, via):
        """True iff every path src ->* dst passes through a block in `via`
        (src itself counts if in via)."""
        via = set(via)
        if src in via:
            return True
        r = self.reachable_from(src, avoid=via)
        return dst not in r

    def return_blocks(self):
        return [i for i in self.reach if self.fn.blocks[i]["term"]["k"] == "return"]
