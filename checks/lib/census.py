"""Reject-site census (DESIGN 3.6): every way a decoder can return an error, as stable keys."""
from .prov import show, is_call, subterms
from .guards import outcomes
from .veclen import VEC_REMOVE, VEC_POP, INDEX


def site_key(o, fn, vl=None, pv=None):
    """stable key of a non-Ok outcome"""
    k = o["kind"]
    if k == "propagate":
        inner = o["inner"]
        if is_call(inner) and inner[1] in ("core::iter::traits::iterator::Iterator::collect", "core::iter::traits::collect::FromIterator::from_iter"):
            # `iter.map(f).collect::<Result<_, _>>()?` fails exactly when some f(x) fails: the rejection is f's
            from .codec import apply_fn
            fs = []
            for s in subterms(inner):
                if is_call(s, "core::iter::traits::iterator::Iterator::map") and len(s[2]) == 2:
                    body = apply_fn(fn.prog, s[2][1], [("x",)])
                    if body is None and s[2][1][0] == "fn":
                        body = ("call", s[2][1][2], (("x",),))
                    if body is not None and is_call(body):
                        fs.append(body[1])
            if len(fs) == 1:
                return "propagate:%s" % fs[0]
        if is_call(inner):
            return "propagate:%s" % inner[1]
        return "propagate:<%s>" % inner[0]
    if k == "err":
        inner = o["inner"]
        if inner[0] == "aggr":
            if inner[2] == "DuplicateMapKey":
                return "err:DuplicateMapKey"   # contains()+insert() and `!insert()` are the same rule (C12 checks the gate)
            return "err:%s%s" % (inner[2], guard_summary(o, fn, pv))
        if inner[0] == "field" and inner[2] == "0" and inner[1][0] == "variant" and inner[1][2] == "Err" and is_call(inner[1][1]):
            # the Err payload of a call handed on unchanged through a combinator chain (`o.map(f).transpose()?`): a propagation
            return "propagate:%s" % inner[1][1][1]
        return "err:<%s>" % show(inner)[:40]
    if k == "call":
        t = o["term"]
        if t[1] == "util::cbor_type_error":
            slot = None
            if vl is not None:
                from .codec import elem_of
                e = elem_of(t[2][0], fn, vl)
                slot = e[0] if e else None
            return "type-error:slot%s" % ("?" if slot is None else slot)
        return "tailcall:%s" % t[1]
    return "other:%s" % show(o["term"])[:60]


def census(fn, pv, vl=None):
    out = {}
    for o in outcomes(fn, pv):
        if o["kind"] == "ok":
            continue
        out.setdefault(site_key(o, fn, vl, pv), []).append(o)
    return out


def expected_for_kind(kind, slot, elem_decoders=None):
    """reject keys a slot of the given kind contributes"""
    from .codec import TRY_BYTES, TRY_ARRAY_CONVERT, TRY_INTEGER, TRY_INTO, TRY_NONEMPTY, TRY_STRING
    if kind == "protected":
        return {"propagate:header::ProtectedHeader::from_cbor_bstr", "propagate:header::ProtectedHeader::from_cbor_bstr_depth"}, 1
    if kind == "header":
        return {"propagate:<header::Header as common::AsCborValue>::from_cbor_value", "propagate:header::Header::from_cbor_value_depth"}, 1
    if kind == "bstr":
        return {"propagate:" + TRY_BYTES}, 1
    if kind == "bstr/nil":
        return {"type-error:slot%d" % slot}, 1
    if kind.startswith("array<"):
        return {"propagate:" + TRY_ARRAY_CONVERT}, 1
    return set(), 0


NOISE = {"default", "new", "from_cbor_value", "from_cbor_value_depth", "next", "into_iter", "deref", "try_as_array", "index", "clone"}


def _frontier_subjects(fn, pv, bb):
    """an error block shared by several tests (`_ => Err(..)` of a tuple match): the operands of the switches whose
    edges lead to it through straight-line blocks"""
    seen, work, subs = {bb}, [bb], []
    while work:
        b = work.pop()
        for p in fn.cfg.pred[b]:
            t = fn.blocks[p]["term"]
            if t["k"] == "switch":
                subs.append(pv.operand_term(t["op"], p, "term"))
            elif p not in seen and len(fn.cfg.succ[p]) == 1:
                seen.add(p)
                work.append(p)
    return subs


def guard_summary(o, fn=None, pv=None):
    """what the innermost condition of an error site tests: '@len', '@is_empty', '@<callees>' or ''"""
    conds = [c for c in o["conds"] if not (c[0][0] == "discr" and is_call(c[0][1], "core::ops::try_trait::Try::branch"))]
    lasts = [conds[-1][0]] if conds else []
    if not conds and fn is not None and pv is not None:
        lasts = _frontier_subjects(fn, pv, o["bb"])
    if not lasts:
        return ""
    last = lasts[0]
    names = []
    raw = set()

    def walk(x, depth):
        if not isinstance(x, tuple) or not x:
            return
        if is_call(x):
            n = x[1].split("::")[-1]
            if n == "ne":
                n = "eq"        # `if a != b { Err }` and `ensure(a == b, err)?` test the same thing
            raw.add(n)
            d2 = depth + (1 if names else 0)
            if n not in NOISE:
                if n not in names:
                    names.append(n)
                d2 = depth + 1
            if d2 < 2:
                for a in x[2]:
                    walk(a, d2)
            return
        if x[0] in ("binop",):
            walk(x[2], depth)
            walk(x[3], depth)
        elif x[0] in ("unop", "cast"):
            walk(x[2], depth)
        elif x[0] in ("ref", "deref", "field", "variant", "tryok", "discr", "elemk"):
            walk(x[1], depth)
        elif x[0] == "tuple":
            for y in x[1]:
                walk(y, depth)
        elif x[0] == "phi":
            # a boolean chosen on several paths (`a.len() == 3 || a.len() == 4` evaluated before it is handed to a helper)
            for y in x[1]:
                walk(y, depth)
    for x0 in lasts:
        walk(x0, 0)
    if "len" in names or "try_into" in names or "try_from" in names or (raw and raw <= {"next", "into_iter", "try_as_array", "branch"} and "next" in raw):
        return "@len"       # the arity of the input array, however it is tested (len(), the k-th next(), Vec -> [T; N])
    if last[0] == "discr" and is_call(last[1]) and last[1][1] in ("core::slice::<impl [T]>::first", "core::slice::<impl [T]>::last",
                                                                    "alloc::vec::Vec::<T, A>::first", "alloc::vec::Vec::<T, A>::pop"):
        return "@is_empty"      # `match v.first() { None => .. }` is the emptiness test
    if last[0] == "discr" and is_call(last[1]) and last[1][1].startswith(("core::", "alloc::")) and names:
        # `let Some(d) = depth.checked_sub(1) else { return Err(..) }` is `depth.checked_sub(1).ok_or(..)?`
        return "@" + "+".join(names[:3])
    if last[0] == "discr":
        return "@variant"
    return "@" + "+".join(names[:3]) if names else "@cond"
