"""Reject-site census (DESIGN 3.6): every way a decoder can return an error, as stable keys."""
from .prov import show, is_call, subterms
from .guards import outcomes
from .veclen import VEC_REMOVE, VEC_POP, INDEX


def site_key(o, fn, vl=None):
    """stable key of a non-Ok outcome"""
    k = o["kind"]
    if k == "propagate":
        inner = o["inner"]
        if is_call(inner):
            return "propagate:%s" % inner[1]
        return "propagate:<%s>" % inner[0]
    if k == "err":
        inner = o["inner"]
        if inner[0] == "aggr":
            if inner[2] == "DuplicateMapKey":
                return "err:DuplicateMapKey"   # contains()+insert() and `!insert()` are the same rule (C12 checks the gate)
            return "err:%s%s" % (inner[2], guard_summary(o))
        return "err:<%s>" % show(inner)[:40]
    if k == "call":
        t = o["term"]
        if t[1] == "util::cbor_type_error":
            slot = None
            if vl is not None:
                for c in subterms(t[2][0]):
                    if is_call(c) and c[1] in (VEC_REMOVE, VEC_POP, INDEX) and c[3] and c[3][0] == fn.key:
                        e = vl.site_elem.get(c[3][1])
                        slot = e[2] if e else None
            return "type-error:slot%s" % ("?" if slot is None else slot)
        return "tailcall:%s" % t[1]
    return "other:%s" % show(o["term"])[:60]


def census(fn, pv, vl=None):
    out = {}
    for o in outcomes(fn, pv):
        if o["kind"] == "ok":
            continue
        out.setdefault(site_key(o, fn, vl), []).append(o)
    return out


def expected_for_kind(kind, slot, elem_decoders=None):
    """reject keys a slot of the given kind contributes"""
    from .codec import TRY_BYTES, TRY_ARRAY_CONVERT, TRY_INTEGER, TRY_INTO, TRY_NONEMPTY, TRY_STRING
    if kind == "protected":
        return {"propagate:header::ProtectedHeader::from_cbor_bstr", "propagate:header::ProtectedHeader::from_cbor_bstr_depth"}, 1
    if kind == "header":
        return {"propagate:<header::Header as common::AsCborValue>::from_cbor_value", "propagate:header::Header::from_cbor_value_depth"}, 1
    if kind == "bstr":
        return {"propagate:" + TRY_BYTES}, 1
    if kind == "bstr/nil":
        return {"type-error:slot%d" % slot}, 1
    if kind.startswith("array<"):
        return {"propagate:" + TRY_ARRAY_CONVERT}, 1
    return set(), 0


NOISE = {"default", "new", "from_cbor_value", "from_cbor_value_depth", "next", "into_iter", "deref", "try_as_array", "index", "clone"}


def guard_summary(o):
    """what the innermost condition of an error site tests: '@len', '@is_empty', '@<callees>' or ''"""
    conds = [c for c in o["conds"] if not (c[0][0] == "discr" and is_call(c[0][1], "core::ops::try_trait::Try::branch"))]
    if not conds:
        return ""
    last = conds[-1][0]
    names = []

    def walk(x, depth):
        if not isinstance(x, tuple) or not x:
            return
        if is_call(x):
            n = x[1].split("::")[-1]
            d2 = depth + (1 if names else 0)
            if n not in NOISE:
                if n not in names:
                    names.append(n)
                d2 = depth + 1
            if d2 < 2:
                for a in x[2]:
                    walk(a, d2)
            return
        if x[0] in ("binop",):
            walk(x[2], depth)
            walk(x[3], depth)
        elif x[0] in ("unop", "cast"):
            walk(x[2], depth)
        elif x[0] in ("ref", "deref", "field", "variant", "tryok", "discr"):
            walk(x[1], depth)
    walk(last, 0)
    if "len" in names:
        return "@len"
    if last[0] == "discr":
        return "@variant"
    return "@" + "+".join(names[:3]) if names else "@cond"
