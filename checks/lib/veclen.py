"""Vec-length interval analysis (DESIGN 3.4).

Forward dataflow over one function.  Abstract state (per block entry):
  vec[key]  = (lo, hi, orig)   length interval of the Vec/slice at place `key`; orig = tuple of the
                               ORIGINAL indices of the elements still in it (known once the length
                               is known exactly), else None
  sym[local] = ('ref', key) | ('len', key, off) | ('const', c) | ('cmp', op, key, c) | ('not', sym)
             | ('elem', key, orig_index)      -- value removed from a vec

Obligations (panic-capable sites whose safety is a length fact):
  Vec::remove(&mut v, k)   needs k < lo
  Index::index(&v, k)      needs k < lo
  len(v) - k  (+ assert)   needs lo >= k

One relational idiom is recognised (reverse tail drain), see tail_drains().
"""
from .facts import callee_path
from . import mirpp

INF = 10 ** 9

VEC_REMOVE = "alloc::vec::Vec::<T, A>::remove"
VEC_LEN = "alloc::vec::Vec::<T, A>::len"
VEC_IS_EMPTY = "alloc::vec::Vec::<T, A>::is_empty"
VEC_PUSH = "alloc::vec::Vec::<T, A>::push"
VEC_NEW = "alloc::vec::Vec::<T>::new"
VEC_CLEAR = "alloc::vec::Vec::<T, A>::clear"
VEC_POP = "alloc::vec::Vec::<T, A>::pop"
VEC_REVERSE = "core::slice::<impl [T]>::reverse"
SPLIT_OFF = "alloc::vec::Vec::<T, A>::split_off"
DRAIN = "alloc::vec::Vec::<T, A>::drain"
TRY_INTO = "core::convert::TryInto::try_into"
TRY_FROM = "core::convert::TryFrom::try_from"
INTO_ITER = "core::iter::traits::collect::IntoIterator::into_iter"
ITER_NEXT = "core::iter::traits::iterator::Iterator::next"
RESULT_KEEP_VARIANT = ("core::result::Result::<T, E>::map_err", "core::result::Result::<T, E>::map")
INDEX = "core::ops::index::Index::index"
SLICE_LEN = "core::slice::<impl [T]>::len"
SLICE_IS_EMPTY = "core::slice::<impl [T]>::is_empty"
TRY_BRANCH = "core::ops::try_trait::Try::branch"
FROM_RESIDUAL = "core::ops::try_trait::FromResidual::from_residual"
WRAPPERS = ("core::result::Result", "core::option::Option", "core::ops::control_flow::ControlFlow")
SLICE_CONTAINS = "core::slice::<impl [T]>::contains"
RANGE_INCL_CONTAINS = "core::ops::range::RangeInclusive::<Idx>::contains"
RANGE_CONTAINS = "core::ops::range::Range::<Idx>::contains"
RANGEBOUNDS_CONTAINS = "core::ops::range::RangeBounds::contains"     # the same test through a helper generic over the range type
RANGE_INCL_NEW = "core::ops::range::RangeInclusive::<Idx>::new"
DEREF = "core::ops::deref::Deref::deref"
DEREF_MUT = "core::ops::deref::DerefMut::deref_mut"

READ_ONLY = {VEC_LEN, VEC_IS_EMPTY, INDEX, SLICE_LEN, SLICE_IS_EMPTY, DEREF,
             "core::clone::Clone::clone", "core::cmp::PartialEq::eq", "core::cmp::PartialEq::ne",
             "core::fmt::Debug::fmt", "alloc::slice::<impl [T]>::to_vec", "core::convert::AsRef::as_ref"}


def place_key(p):
    return mirpp.place(p)


def negate(op):
    return {"Eq": "Ne", "Ne": "Eq", "Lt": "Ge", "Ge": "Lt", "Le": "Gt", "Gt": "Le"}[op]


def flip(op):
    return {"Eq": "Eq", "Ne": "Ne", "Lt": "Gt", "Gt": "Lt", "Le": "Ge", "Ge": "Le"}[op]


def refine(iv, op, c):
    """interval of len after assuming `len op c`; None if infeasible"""
    lo, hi, orig = iv
    if op == "Eq":
        lo, hi = max(lo, c), min(hi, c)
    elif op == "Ne":
        if lo == c:
            lo += 1
        if hi == c:
            hi -= 1
    elif op == "Lt":
        hi = min(hi, c - 1)
    elif op == "Le":
        hi = min(hi, c)
    elif op == "Gt":
        lo = max(lo, c + 1)
    elif op == "Ge":
        lo = max(lo, c)
    if lo > hi:
        return None
    if lo == hi and orig is None and lo < 64:
        orig = tuple(range(lo))
    if orig is not None and len(orig) != lo:
        orig = None
    return (lo, hi, orig)


def join_iv(a, b):
    if a is None:
        return b
    if b is None:
        return a
    lo, hi = min(a[0], b[0]), max(a[1], b[1])
    orig = a[2] if a[2] == b[2] and lo == hi else None
    return (lo, hi, orig)


def _sel_entries(s, vec):
    if s is None:
        return None
    if s[0] == "bconst":
        return [(s[1], {k: v for k, v in vec.items() if v != (0, INF, None)})]
    if s[0] == "sel":
        return [(val, dict(items)) for val, items in s[1]]
    if s[0] == "cmp":
        # a length comparison not yet branched on (`a.len() == 3 || a.len() == 4` evaluated into a bool): what each value of it says
        base = {k: v for k, v in vec.items() if v != (0, INF, None)}
        iv = vec.get(s[2], (0, INF, None))
        out = []
        for val, op in ((True, s[1]), (False, negate(s[1]))):
            r = refine(iv, op, s[3])
            if r is not None:
                d = dict(base)
                d[s[2]] = r
                out.append((val, d))
        return out or None
    return None


def _vsel_entries(s, vec):
    """like _sel_entries for a Result / Option local that is a different VARIANT on two joining paths (the Ok / Err exits of an
    inlined `ensure(cond, err)` before the caller's `?` separates them again): the length facts per variant"""
    if s is None:
        return None
    if s[0] == "variant":
        return [(s[1], {k: v for k, v in vec.items() if v != (0, INF, None)})]
    if s[0] == "vsel":
        return [(val, dict(items)) for val, items in s[1]]
    return None


def _join_vecs(a, b):
    return {k: join_iv(a[k], b[k]) for k in set(a) & set(b)}


def _mentions(s, key):
    if not isinstance(s, tuple):
        return False
    if s[0] in ("sel", "vsel"):
        return any(k == key for _, items in s[1] for k, _ in items)
    return any(x == key or _mentions(x, key) for x in s[1:])


def _apply_memb(st, sy, inside):
    """restrict len(key) to the set (inside) or to its complement; False if infeasible"""
    key, vals = sy[1], sy[2]
    iv = st.vec.get(key, (0, INF, None))
    if inside:
        ok = [v for v in vals if iv[0] <= v <= iv[1]]
        if not ok:
            return False
        r = refine(refine(iv, "Ge", min(ok)) or iv, "Le", max(ok))
    else:
        r = iv
        changed = True
        while r is not None and changed:
            changed = False
            for v in vals:
                if r is not None and (r[0] == v or r[1] == v):
                    r = refine(r, "Ne", v)
                    changed = True
    if r is None:
        return False
    st.vec[key] = r
    return True


def _apply_sel(st, sy, val):
    """restrict the state to the paths on which the boolean had value `val`; False if there is none"""
    hit = [dict(items) for v, items in sy[1] if v == val]
    if not hit:
        return False
    for key, iv in hit[0].items():
        cur = st.vec.get(key, (0, INF, None))
        lo, hi = max(cur[0], iv[0]), min(cur[1], iv[1])
        if lo > hi:
            return False
        orig = iv[2] if iv[2] is not None else cur[2]
        if orig is not None and (lo != hi or len(orig) != lo):
            orig = None
        st.vec[key] = (lo, hi, orig)
    return True


import re
_DOWNCAST_KEY = re.compile(r"^\(_(\d+) as (\w+)\)")


def _under(key, base):
    """key denotes `base` or something inside it"""
    return key == base or key.startswith(base + ".") or key.startswith("(*" + base + ")") or key.startswith("(" + base + " as ")


class State:
    __slots__ = ("vec", "sym", "dirty")

    def __init__(self, vec=None, sym=None, dirty=None):
        self.vec = dict(vec or {})
        self.sym = dict(sym or {})
        self.dirty = set(dirty or ())     # vectors whose elements are no longer the original ones in original order

    def copy(self):
        return State(self.vec, self.sym, self.dirty)

    def join(self, other):
        vec = {}
        for k in set(self.vec) | set(other.vec):
            if k in self.vec and k in other.vec:
                vec[k] = join_iv(self.vec[k], other.vec[k])
            else:
                have, miss = (self, other) if k in self.vec else (other, self)
                m = _DOWNCAST_KEY.match(k)
                mv = miss.sym.get(int(m.group(1))) if m else None
                if mv and mv[0] == "variant" and mv[1] != m.group(2):
                    # the payload of variant V of a local that IS another variant on the other path: no such value there
                    vec[k] = have.vec[k]
                else:
                    vec[k] = (0, INF, None)
        sym = {}
        for l, a in self.sym.items():
            b = other.sym.get(l)
            if a == b:
                sym[l] = a
                continue
            ea, eb = _sel_entries(a, self.vec), _sel_entries(b, other.vec)
            if ea is not None and eb is not None:
                # a boolean that is a different constant on the two paths: remember the length facts per value, so
                # that a later switch on it (`if !matches!(len, 3 | 4)`, `let ok = ..; if ok`) restores them
                merged = {}
                for val, vv in ea + eb:
                    merged[val] = _join_vecs(merged[val], vv) if val in merged else vv
                sym[l] = ("sel", tuple(sorted((val, tuple(sorted(vv.items()))) for val, vv in merged.items())))
                continue
            va, vb = _vsel_entries(a, self.vec), _vsel_entries(b, other.vec)
            if va is not None and vb is not None:
                merged = {}
                for val, vv in va + vb:
                    merged[val] = _join_vecs(merged[val], vv) if val in merged else vv
                if len(merged) > 1:
                    sym[l] = ("vsel", tuple(sorted((val, tuple(sorted(vv.items(), key=lambda kv: kv[0]))) for val, vv in merged.items())))
        return State(vec, sym, self.dirty | other.dirty)

    def __eq__(self, o):
        return o is not None and self.vec == o.vec and self.sym == o.sym and self.dirty == o.dirty


class VecLen:
    def __init__(self, fn):
        self.fn = fn
        self.obligations = []
        self.site_elem = {}      # bb -> ('elem', key, orig index) for remove/index sites
        self.site_state = {}     # bb -> (key, (lo,hi,orig)) state of the vec just before the site
        self.array_orig = {}     # bb of a Vec -> [T; N] conversion -> original indices of the N elements (or None)
        self.drains = tail_drains(fn)
        self._pv = None
        self._run()

    def _is_vec_local(self, l):
        ty = self.fn.local_ty(l)
        return ty.startswith("alloc::vec::Vec<")

    # -- operand helpers ----------------------------------------------------
    def _sym_of_operand(self, st, op):
        if op["k"] == "const":
            v = op.get("val")
            if isinstance(v, bool):
                return ("bconst", v)
            if isinstance(v, int):
                return ("const", v)
            return None
        if op["k"] in ("copy", "move"):
            p = op["place"]
            if not p["p"]:
                return st.sym.get(p["l"])
            # field 0 of a checked-arith tuple
            if len(p["p"]) == 1 and p["p"][0][0] == "field":
                s = st.sym.get(p["l"])
                if s and s[0] == "pair":
                    return s[1] if p["p"][0][1] == 0 else s[2]
        return None

    def _vec_key_of_ref(self, st, op):
        """key of the vec an operand (a reference temp) points to"""
        if op["k"] not in ("copy", "move"):
            return None
        p = op["place"]
        if not p["p"]:
            s = st.sym.get(p["l"])
            if s and s[0] == "ref":
                return s[1]
            return None
        return None

    def _always_err(self, name):
        from .prov import always_err_fn
        return bool(name) and name in self.fn.prog.fns and always_err_fn(self.fn.prog, name)

    def _const_set(self, st, bb, t, name):
        """the constant set a `contains` call tests membership in, or None"""
        if name in (RANGE_INCL_CONTAINS, RANGE_CONTAINS, RANGEBOUNDS_CONTAINS):
            r = self._sym_of_operand(st, t["args"][0])
            if r and r[0] == "ref" and r[1].startswith("_") and r[1][1:].isdigit():
                r = st.sym.get(int(r[1][1:]))
            if r and r[0] == "crange" and 0 <= r[2] - r[1] <= 64:
                return set(range(r[1], r[2]))
            if r and r[0] == "range" and r[1] and r[2] and r[1][0] == "const" and r[2][0] == "const" and 0 <= r[2][1] - r[1][1] <= 64:
                return set(range(r[1][1], r[2][1]))
            # a constant range (`(3..=4)` is promoted to a constant)
            from .prov import Prov, resolve_consts
            if self._pv is None:
                self._pv = Prov(self.fn)
            a0 = resolve_consts(self.fn.prog, self._pv.operand_term(t["args"][0], bb, "term"))
            while a0[0] in ("ref", "deref"):
                a0 = a0[1]
            if a0[0] == "call" and a0[1] == RANGE_INCL_NEW and len(a0[2]) == 2 and all(
                    x[0] == "const" and isinstance(x[1], int) and not isinstance(x[1], bool) for x in a0[2]):
                if 0 <= a0[2][1][1] + 1 - a0[2][0][1] <= 64:
                    return set(range(a0[2][0][1], a0[2][1][1] + 1))
            if a0[0] == "aggr" and a0[1] in ("core::ops::range::RangeInclusive", "core::ops::range::Range"):
                f = dict(a0[3])
                lo, hi = f.get("start"), f.get("end")
                if lo and hi and lo[0] == "const" and hi[0] == "const" and isinstance(lo[1], int) and isinstance(hi[1], int):
                    hi1 = hi[1] + (1 if a0[1].endswith("RangeInclusive") else 0)
                    if 0 <= hi1 - lo[1] <= 64:
                        return set(range(lo[1], hi1))
            return None
        from .prov import Prov, resolve_consts
        if self._pv is None:
            self._pv = Prov(self.fn)
        a0 = resolve_consts(self.fn.prog, self._pv.operand_term(t["args"][0], bb, "term"))
        while a0[0] in ("ref", "deref") or (a0[0] == "cast" and a0[1].startswith("PointerCoercion")):
            a0 = a0[1] if a0[0] != "cast" else a0[2]
        if a0[0] == "array" and all(x[0] == "const" and isinstance(x[1], int) and not isinstance(x[1], bool) for x in a0[1]):
            return {x[1] for x in a0[1]}
        return None

    def _iv(self, st, key):
        return st.vec.get(key, (0, INF, None))

    def _copy_facts(self, st, src, dst):
        for key in list(st.vec):
            if _under(key, src):
                st.vec[dst + key[len(src):] if key.startswith(src) else key.replace(src, dst, 1)] = st.vec[key]
        for key in list(st.dirty):
            # "its elements are no longer the original ones in original order" travels with the value
            if _under(key, src):
                st.dirty.add(dst + key[len(src):] if key.startswith(src) else key.replace(src, dst, 1))

    def _forget_syms(self, st, key):
        """the length of `key` changed in an unknown way: values derived from its old length say nothing any more"""
        for l, s in list(st.sym.items()):
            if s[0] not in ("ref", "elem") and _mentions(s, key):
                del st.sym[l]

    def _shift_syms(self, st, key, d):
        """the length of `key` just decreased by d: a local holding `old len + off` now holds `len + off + d`"""
        for l, s in list(st.sym.items()):
            if s[0] == "len" and s[1] == key:
                st.sym[l] = ("len", key, s[2] + d)
            elif s[0] == "cmp" and s[2] == key:
                st.sym[l] = ("cmp", s[1], key, s[3] - d)
            elif s[0] in ("memb", "nmemb") and s[1] == key:
                st.sym[l] = (s[0], key, tuple(v - d for v in s[2]))
            elif s[0] not in ("ref", "elem") and _mentions(s, key):
                del st.sym[l]

    # -- transfer -----------------------------------------------------------
    def _stmt(self, st, s):
        if s["k"] != "assign":
            return
        dst = s["dst"]
        rv = s["rv"]
        if dst["p"]:
            # write through a projection: if it overwrites a tracked vec place, forget it
            k = place_key(dst)
            for key in list(st.vec):
                if key == k or key.startswith(k + "."):
                    st.vec[key] = (0, INF, None)
                    self._forget_syms(st, key)
            return
        l = dst["l"]
        st.sym.pop(l, None)
        # a whole-local assignment invalidates vec facts keyed under that local
        base = "_%d" % l
        for key in list(st.vec):
            if _under(key, base):
                del st.vec[key]
                self._forget_syms(st, key)
        k = rv["k"]
        if k == "ref":
            pl = rv["place"]
            inner = st.sym.get(pl["l"]) if len(pl["p"]) == 1 and pl["p"][0][0] == "deref" else None
            if inner and inner[0] == "ref":
                st.sym[l] = inner          # `&*r` is `r`
            else:
                st.sym[l] = ("ref", place_key(pl))
        elif k == "use":
            op = rv["op"]
            sy = self._sym_of_operand(st, op)
            if sy is not None:
                st.sym[l] = sy
            if op["k"] in ("copy", "move"):
                src = place_key(op["place"])
                self._copy_facts(st, src, base)
        elif k == "binop":
            a = self._sym_of_operand(st, rv["a"])
            b = self._sym_of_operand(st, rv["b"])
            op = rv["op"]
            if op in ("Eq", "Ne", "Lt", "Le", "Gt", "Ge"):
                if a and b and a[0] == "len" and b[0] == "const":
                    st.sym[l] = ("cmp", op, a[1], b[1] - a[2])
                elif a and b and a[0] == "const" and b[0] == "len":
                    st.sym[l] = ("cmp", flip(op), b[1], a[1] - b[2])
            elif op in ("AddWithOverflow", "Add") and a and b and a[0] == "const" and b[0] == "const" \
                    and isinstance(a[1], int) and isinstance(b[1], int) and 0 <= a[1] + b[1] < 2 ** 63:
                # `idx + 1` with idx a constant that reached here through an inlined helper's parameter
                res = ("const", a[1] + b[1])
                st.sym[l] = ("pair", res, ("const", False)) if op == "AddWithOverflow" else res
            elif op in ("SubWithOverflow", "Sub") and a and b and a[0] == "len" and b[0] == "const":
                res = ("len", a[1], a[2] - b[1])
                lo = self._iv(st, a[1])[0] + a[2]
                ovf = ("const", False) if lo >= b[1] else ("ovf", a[1], b[1] - a[2])
                st.sym[l] = ("pair", res, ovf) if op == "SubWithOverflow" else res
        elif k == "unop" and rv["op"] == "Not":
            a = self._sym_of_operand(st, rv["a"])
            if a and a[0] == "cmp":
                st.sym[l] = ("cmp", negate(a[1]), a[2], a[3])
            elif a and a[0] in ("memb", "nmemb"):
                st.sym[l] = ("nmemb" if a[0] == "memb" else "memb", a[1], a[2])
        elif k == "discr" and not rv["place"]["p"] and rv.get("adt"):
            st.sym[l] = ("discr", rv["place"]["l"], rv["adt"])
        elif k == "discr" and len(rv["place"]["p"]) == 1 and rv["place"]["p"][0][0] == "field" and rv.get("adt"):
            st.sym[l] = ("discr_field", rv["place"]["l"], rv["place"]["p"][0][1], rv["adt"])
        elif k == "aggr" and rv["kind"] == "tuple":
            # `match (it.next(), it.next(), ..)`: remember which components are known to be Some / None
            vs = []
            for o in rv["ops"]:
                s0 = st.sym.get(o["place"]["l"]) if o["k"] in ("copy", "move") and not o["place"]["p"] else None
                vs.append(s0[1] if s0 and s0[0] == "variant" else None)
            if any(v is not None for v in vs):
                st.sym[l] = ("tuplevar", tuple(vs))
        elif k == "aggr" and rv["kind"] == "adt" and rv.get("variant") and rv["adt"] in WRAPPERS:
            # Ok(v) / Some(v) / Err(e): the local is that variant; length facts of a moved-in vec live on under the payload
            st.sym[l] = ("variant", rv["variant"])
            for fname, o in zip(rv.get("fields", []), rv["ops"]):
                if o["k"] in ("copy", "move"):
                    self._copy_facts(st, place_key(o["place"]), "(%s as %s).%s" % (base, rv["variant"], fname))
        elif k == "aggr" and rv["kind"] == "adt" and rv["adt"] == "core::ops::range::Range":
            ops = [self._sym_of_operand(st, o) for o in rv["ops"]]
            st.sym[l] = ("range", ops[0], ops[1])
        elif k == "aggr" and rv["kind"] == "adt" and rv["adt"] == "core::ops::range::RangeFrom":
            ops = [self._sym_of_operand(st, o) for o in rv["ops"]]
            st.sym[l] = ("rangefrom", ops[0])

    def _call(self, st, bb, t):
        name = callee_path(t)
        args = t["args"]
        dest = t["dest"]
        dl = dest["l"] if not dest["p"] else None
        if dl is not None:
            st.sym.pop(dl, None)
            base = "_%d" % dl
            for key in list(st.vec):
                if _under(key, base):
                    del st.vec[key]
                    self._forget_syms(st, key)
        key0 = self._vec_key_of_ref(st, args[0]) if args else None
        if dl is not None and name == TRY_BRANCH and args and args[0]["k"] in ("copy", "move") and not args[0]["place"]["p"]:
            x = args[0]["place"]["l"]
            v = st.sym.get(x)
            if v and v[0] == "variant":
                st.sym[dl] = ("variant", {"Ok": "Continue", "Some": "Continue", "Err": "Break", "None": "Break"}.get(v[1], "?"))
            elif v and v[0] == "vsel":
                m = {"Ok": "Continue", "Some": "Continue", "Err": "Break", "None": "Break"}
                st.sym[dl] = ("vsel", tuple(sorted((m.get(val, "?"), items) for val, items in v[1])))
            for key in list(st.vec):
                for ok in ("Ok", "Some"):
                    pre = "(_%d as %s)" % (x, ok)
                    if key.startswith(pre):
                        st.vec["(_%d as Continue)" % dl + key[len(pre):]] = st.vec[key]
            return
        if dl is not None and (name == FROM_RESIDUAL or self._always_err(name)):
            st.sym[dl] = ("variant", "Err")
            return
        if name in (TRY_INTO, TRY_FROM) and dl is not None and args and args[0]["k"] in ("copy", "move") and not args[0]["place"]["p"]:
            # Vec<T> -> [T; N]: Ok exactly when len == N, elements in order
            m = re.search(r";\s*(\d+)\]", ((t.get("callee") or {}).get("resolved") or {}).get("full") or (t.get("callee") or {}).get("full") or "")
            src = "_%d" % args[0]["place"]["l"]
            if m and self._is_vec_local(args[0]["place"]["l"]):
                n = int(m.group(1))
                iv = self._iv(st, src)
                self.site_state[bb] = (src, iv)
                orig = iv[2] if (iv[2] is not None and len(iv[2]) == n) else (tuple(range(n)) if src not in st.dirty and iv[2] is None else None)
                self.array_orig[bb] = orig
                if iv[0] == iv[1] == n:
                    st.sym[dl] = ("variant", "Ok")
                elif iv[1] < n or iv[0] > n:
                    st.sym[dl] = ("variant", "Err")
                if iv[0] <= n <= iv[1]:
                    st.vec["(_%d as Ok).0" % dl] = (n, n, orig)
                return
        if name in RESULT_KEEP_VARIANT and dl is not None and args and args[0]["k"] in ("copy", "move") and not args[0]["place"]["p"]:
            x = args[0]["place"]["l"]
            v = st.sym.get(x)
            if v and v[0] == "variant":
                st.sym[dl] = v
            if name.endswith("map_err"):
                pre = "(_%d as Ok)" % x
                for key in list(st.vec):
                    if key.startswith(pre):
                        st.vec["(_%d as Ok)" % dl + key[len(pre):]] = st.vec[key]
            return
        if name == INTO_ITER and dl is not None and args and args[0]["k"] in ("copy", "move") and not args[0]["place"]["p"] \
                and self._is_vec_local(args[0]["place"]["l"]):
            # the iterator owns the remaining elements: same length facts, consumed from the front
            src = "_%d" % args[0]["place"]["l"]
            iv = self._iv(st, src)
            orig = iv[2]
            st.vec["_%d" % dl] = (iv[0], iv[1], orig)
            st.sym[dl] = ("iterpos", 0, src in st.dirty)
            return
        if name == ITER_NEXT and key0 and dl is not None and self.fn.local_ty(int(key0[1:])).startswith("alloc::vec::into_iter::IntoIter<") \
                if (key0 and key0[1:].isdigit()) else False:
            itl = int(key0[1:])
            iv = self._iv(st, key0)
            pos = st.sym.get(itl)
            k = pos[1] if pos and pos[0] == "iterpos" else None
            oi = iv[2][0] if (iv[2] is not None and len(iv[2]) >= 1) else (k if (k is not None and pos and not pos[2] and iv[2] is None) else None)
            self.site_elem[bb] = ("elem", key0, oi)
            self.site_state[bb] = (key0, iv)
            if iv[0] >= 1:
                st.sym[dl] = ("variant", "Some")
            elif iv[1] == 0:
                st.sym[dl] = ("variant", "None")
            st.vec[key0] = (max(iv[0] - 1, 0), max(iv[1] - 1, 0) if iv[1] < INF else INF, iv[2][1:] if iv[2] else iv[2])
            if k is not None:
                st.sym[itl] = ("iterpos", k + 1, pos[2])
            return
        if name in (VEC_LEN, SLICE_LEN) and key0 and dl is not None:
            st.sym[dl] = ("len", key0, 0)
            return
        if name in (SLICE_CONTAINS, RANGE_INCL_CONTAINS, RANGE_CONTAINS, RANGEBOUNDS_CONTAINS) and dl is not None and len(args) == 2:
            # `[3, 4].contains(&a.len())`, `(2..=3).contains(&len)`: membership of a tracked length in a constant set
            needle = self._sym_of_operand(st, args[1])
            if needle and needle[0] == "ref" and needle[1].startswith("_") and needle[1][1:].isdigit():
                needle = st.sym.get(int(needle[1][1:]))
            vals = self._const_set(st, bb, t, name)
            if vals is None and needle and needle[0] == "len" and name == RANGEBOUNDS_CONTAINS:
                # `(4..).contains(&len)`: a lower bound only
                from .prov import Prov, resolve_consts
                if self._pv is None:
                    self._pv = Prov(self.fn)
                a0 = resolve_consts(self.fn.prog, self._pv.operand_term(args[0], bb, "term"))
                while a0[0] in ("ref", "deref"):
                    a0 = a0[1]
                if a0[0] == "aggr" and a0[1] == "core::ops::range::RangeFrom":
                    lo = dict(a0[3]).get("start")
                    if lo and lo[0] == "const" and isinstance(lo[1], int) and not isinstance(lo[1], bool):
                        st.sym[dl] = ("cmp", "Ge", needle[1], lo[1] - needle[2])
                        return
            if needle and needle[0] == "len" and vals is not None:
                st.sym[dl] = ("memb", needle[1], tuple(sorted(v - needle[2] for v in vals)))
            return
        if name == RANGE_INCL_NEW and dl is not None and len(args) == 2:
            a, b = self._sym_of_operand(st, args[0]), self._sym_of_operand(st, args[1])
            if a and b and a[0] == "const" and b[0] == "const":
                st.sym[dl] = ("crange", a[1], b[1] + 1)
            return
        if name in (VEC_IS_EMPTY, SLICE_IS_EMPTY) and key0 and dl is not None:
            st.sym[dl] = ("cmp", "Eq", key0, 0)
            return
        if name in (DEREF, DEREF_MUT) and key0 and dl is not None:
            # &Vec<T> -> &[T]: same length facts
            st.sym[dl] = ("ref", key0)
            return
        if name in (SPLIT_OFF, DRAIN) and key0 and len(args) == 2:
            # `v.split_off(k)` / `v.drain(k..)`: v keeps elements 0..k, the result holds (yields) elements k..
            iv = self._iv(st, key0)
            at = self._sym_of_operand(st, args[1])
            if name == DRAIN:
                at = at[1] if (at and at[0] == "rangefrom") else None
            self.site_state[bb] = (key0, iv)
            if at and at[0] == "const":
                k = at[1]
                ok = k <= iv[0]
                self.obligations.append({"bb": bb, "kind": "split_off", "vec": key0, "index": k, "lo": iv[0], "hi": iv[1],
                                         "ok": ok, "orig": None, "need": "%d <= len" % k})
                head = iv[2][:k] if (iv[2] is not None and len(iv[2]) >= k) else (tuple(range(k)) if key0 not in st.dirty and k < 64 else None)
                tail = iv[2][k:] if (iv[2] is not None and len(iv[2]) >= k) else None
                st.vec[key0] = (k, k, head) if ok else (0, k, None)
                if dl is not None:
                    st.vec["_%d" % dl] = (max(iv[0] - k, 0), iv[1] - k if iv[1] < INF else INF, tail)
                    if tail is None:
                        st.dirty.add("_%d" % dl)     # its elements are not indices 0.. of the original
                        if key0 not in st.dirty:
                            st.sym[dl] = ("tailoff", k)      # .. but original elements k, k+1, .. in order
                self._forget_syms(st, key0)
            else:
                self.obligations.append({"bb": bb, "kind": "split_off", "vec": key0, "index": "?", "lo": iv[0], "hi": iv[1],
                                         "ok": False, "orig": None, "need": "at <= len (split point not a constant)"})
                st.vec[key0] = (0, INF, None)
                st.dirty.add(key0)
                self._forget_syms(st, key0)
            return
        if name in (VEC_REMOVE, VEC_POP, VEC_PUSH, VEC_CLEAR) and key0:
            st.dirty.add(key0)
        if name == VEC_REMOVE and key0:
            iv = self._iv(st, key0)
            idx = self._sym_of_operand(st, args[1])
            self.site_state[bb] = (key0, iv)
            drain = self.drains.get(bb)
            if idx and idx[0] == "const":
                k = idx[1]
                ok = k < iv[0]
                oi = iv[2][k] if (iv[2] is not None and k < len(iv[2])) else None
                self.obligations.append({"bb": bb, "kind": "remove", "vec": key0, "index": k,
                                         "lo": iv[0], "hi": iv[1], "ok": ok, "orig": oi,
                                         "need": "%d < len" % k})
                if dl is not None:
                    st.sym[dl] = ("elem", key0, oi)
                self.site_elem[bb] = ("elem", key0, oi)
                orig = None
                if iv[2] is not None and k < len(iv[2]):
                    orig = iv[2][:k] + iv[2][k + 1:]
                st.vec[key0] = (max(iv[0] - 1, 0), iv[1] - 1 if iv[1] < INF else INF, orig)
                if ok:
                    self._shift_syms(st, key0, 1)
                else:
                    self._forget_syms(st, key0)
            elif drain and drain["vec"] == key0:
                self.obligations.append({"bb": bb, "kind": "remove", "vec": key0, "index": "rev-tail",
                                         "lo": iv[0], "hi": iv[1], "ok": True, "orig": "tail>=%d" % drain["K"],
                                         "need": "reverse tail drain idiom (i = len-1 at every iteration)",
                                         "idiom": drain})
                self.site_elem[bb] = ("elem", key0, "tail")
                self._forget_syms(st, key0)
                # length inside the loop is not tracked; fixed on the loop exit edge
            else:
                self.obligations.append({"bb": bb, "kind": "remove", "vec": key0, "index": "?",
                                         "lo": iv[0], "hi": iv[1], "ok": False, "orig": None,
                                         "need": "index < len (index not a constant)"})
                st.vec[key0] = (0, INF, None)
                self._forget_syms(st, key0)
            return
        if name == INDEX and key0:
            iv = self._iv(st, key0)
            idx = self._sym_of_operand(st, args[1])
            self.site_state[bb] = (key0, iv)
            if idx and idx[0] == "const":
                k = idx[1]
                oi = iv[2][k] if (iv[2] is not None and k < len(iv[2])) else (k if True else None)
                self.obligations.append({"bb": bb, "kind": "index", "vec": key0, "index": k,
                                         "lo": iv[0], "hi": iv[1], "ok": k < iv[0], "orig": oi,
                                         "need": "%d < len" % k})
                self.site_elem[bb] = ("elem", key0, oi)
            else:
                self.obligations.append({"bb": bb, "kind": "index", "vec": key0, "index": "?",
                                         "lo": iv[0], "hi": iv[1], "ok": False, "orig": None,
                                         "need": "index < len (index not a constant)"})
            return
        if name == VEC_POP and key0:
            iv = self._iv(st, key0)
            off = st.sym.get(int(key0[1:])) if key0[1:].isdigit() else None
            if iv[2] is None and off and off[0] == "tailoff":
                # the tail `v.split_off(k)` of a vector of unknown length: popping from a tail of at most one element yields
                # original element k (if anything)
                last = off[1] if iv[1] == 1 else None
                orig = None
                if dl is not None:
                    if iv[0] >= 1:
                        st.sym[dl] = ("variant", "Some")
                    elif iv[1] == 0:
                        st.sym[dl] = ("variant", "None")
                self.site_elem[bb] = ("elem", key0, last)
                self.site_state[bb] = (key0, iv)
                st.vec[key0] = (max(iv[0] - 1, 0), max(iv[1] - 1, 0) if iv[1] < INF else INF, None)
                self._forget_syms(st, key0)
                return
            orig = iv[2][:-1] if iv[2] else None
            last = iv[2][-1] if iv[2] else None
            self.site_elem[bb] = ("elem", key0, last)
            self.site_state[bb] = (key0, iv)
            st.vec[key0] = (max(iv[0] - 1, 0), max(iv[1] - 1, 0) if iv[1] < INF else INF, orig)
            if iv[0] >= 1:
                self._shift_syms(st, key0, 1)
            else:
                self._forget_syms(st, key0)
            return
        if name == VEC_PUSH and key0:
            iv = self._iv(st, key0)
            st.vec[key0] = (iv[0] + 1, iv[1] + 1 if iv[1] < INF else INF, None)
            self._shift_syms(st, key0, -1)
            return
        if name == VEC_CLEAR and key0:
            st.vec[key0] = (0, 0, ())
            self._forget_syms(st, key0)
            return
        if name == VEC_NEW and dl is not None:
            st.vec["_%d" % dl] = (0, 0, ())
            return
        if name == VEC_REVERSE and key0:
            return
        if name in READ_ONLY:
            return
        # any other call receiving a &mut to a tracked vec: forget its length
        for a in args:
            k = self._vec_key_of_ref(st, a)
            if k is not None:
                st.dirty.add(k)
            if k is not None and k in st.vec:
                # was the reference a mutable one?  be conservative: forget
                st.vec[k] = (0, INF, None)
                self._forget_syms(st, k)
            if a["k"] == "move" and not a["place"]["p"]:
                pk = "_%d" % a["place"]["l"]
                st.vec.pop(pk, None)

    def _edge_states(self, st, bb, t):
        """list of (succ, state) for the normal out-edges of bb"""
        fn = self.fn
        k = t["k"]
        if k == "switch":
            sy = self._sym_of_operand(st, t["op"])
            outs = []
            seen = set()
            vals = [v for v, _ in t["targets"]]
            for v, b in t["targets"]:
                s2 = st.copy()
                feasible = True
                if sy and sy[0] == "cmp" and t["ty"] == "bool":
                    op = sy[1] if v != 0 else negate(sy[1])
                    r = refine(self._iv(s2, sy[2]), op, sy[3])
                    if r is None:
                        feasible = False
                    else:
                        s2.vec[sy[2]] = r
                elif sy and sy[0] == "len":
                    r = refine(self._iv(s2, sy[1]), "Eq", v - sy[2])
                    if r is None:
                        feasible = False
                    else:
                        s2.vec[sy[1]] = r
                elif sy and sy[0] == "discr_field":
                    tv = st.sym.get(sy[1])
                    names = self.fn.prog.enums.get(sy[3]) or {}
                    if tv and tv[0] == "tuplevar" and sy[2] < len(tv[1]) and tv[1][sy[2]] is not None and v in names \
                            and names[v] != tv[1][sy[2]]:
                        feasible = False
                elif sy and sy[0] == "discr":
                    known = st.sym.get(sy[1])
                    names = self.fn.prog.enums.get(sy[2]) or {}
                    if known and known[0] == "variant" and v in names and names[v] != known[1]:
                        feasible = False     # the local is known to be another variant on every path here
                    elif known and known[0] == "vsel" and v in names:
                        # the facts that held on the paths on which the local became this variant
                        feasible = _apply_sel(s2, known, names[v])
                        if feasible:
                            s2.sym[sy[1]] = ("variant", names[v])
                elif sy and sy[0] in ("memb", "nmemb") and t["ty"] == "bool":
                    feasible = _apply_memb(s2, sy, bool(v) == (sy[0] == "memb"))
                elif sy and sy[0] == "sel" and t["ty"] == "bool":
                    feasible = _apply_sel(s2, sy, bool(v))
                elif sy and sy[0] == "bconst" and t["ty"] == "bool":
                    feasible = sy[1] == bool(v)
                if feasible:
                    outs.append((b, s2))
            s2 = st.copy()
            feasible = True
            if sy and sy[0] == "cmp" and t["ty"] == "bool" and vals == [0]:
                r = refine(self._iv(s2, sy[2]), sy[1], sy[3])
                if r is None:
                    feasible = False
                else:
                    s2.vec[sy[2]] = r
            elif sy and sy[0] in ("memb", "nmemb") and t["ty"] == "bool" and vals in ([0], [1]):
                feasible = _apply_memb(s2, sy, (vals == [0]) == (sy[0] == "memb"))
            elif sy and sy[0] == "sel" and t["ty"] == "bool" and vals in ([0], [1]):
                feasible = _apply_sel(s2, sy, vals == [0])
            elif sy and sy[0] == "bconst" and t["ty"] == "bool" and vals in ([0], [1]):
                feasible = sy[1] == (vals == [0])
            elif sy and sy[0] == "len":
                iv = self._iv(s2, sy[1])
                for v in vals:
                    iv = refine(iv, "Ne", v - sy[2]) if iv else None
                if iv is None:
                    feasible = False
                else:
                    s2.vec[sy[1]] = iv
            if feasible:
                outs.append((t["otherwise"], s2))
            return outs
        if k == "assert":
            # overflow assert: on the success edge the subtraction did not overflow
            sy = self._sym_of_operand(st, t["cond"])
            ok = True
            if sy and sy[0] == "ovf":
                ok = False
                lo = self._iv(st, sy[1])[0]
                self.obligations.append({"bb": bb, "kind": "sub", "vec": sy[1], "index": sy[2],
                                         "lo": lo, "hi": self._iv(st, sy[1])[1], "ok": False, "orig": None,
                                         "need": "len >= %d" % sy[2]})
            elif sy and sy[0] == "const" and sy[1] is False and t["kind"].startswith("Overflow(Sub"):
                ops = t.get("ops", [])
                a = self._sym_of_operand(st, ops[0]) if ops else None
                b = self._sym_of_operand(st, ops[1]) if len(ops) > 1 else None
                if a and a[0] == "len" and b and b[0] == "const":
                    iv = self._iv(st, a[1])
                    self.obligations.append({"bb": bb, "kind": "sub", "vec": a[1], "index": b[1],
                                             "lo": iv[0], "hi": iv[1], "ok": True, "orig": None,
                                             "need": "len >= %d" % (b[1] - a[2])})
            return [(t["target"], st)]
        outs = []
        for s in fn.succs(bb):
            outs.append((s, st))
        return outs

    def _run(self):
        fn = self.fn
        cfg = fn.cfg
        n = len(fn.blocks)
        IN = [None] * n
        IN[0] = State()
        visits = [0] * n
        work = [0]
        drain_exit = {}
        for d in self.drains.values():
            drain_exit[(d["exit_from"], d["exit_to"])] = d
        while work:
            b = work.pop(0)
            st = IN[b].copy()
            self.obligations = [o for o in self.obligations if o["bb"] != b]
            blk = fn.blocks[b]
            for s in blk["stmts"]:
                self._stmt(st, s)
            t = blk["term"]
            if t["k"] == "call":
                self._call(st, b, t)
            for succ, s2 in self._edge_states(st, b, t):
                if fn.blocks[succ]["cleanup"]:
                    continue
                d = drain_exit.get((b, succ))
                if d is not None:
                    s2 = s2.copy()
                    K = d["K"]
                    s2.vec[d["vec"]] = (K, K, tuple(range(K)))
                new = s2 if IN[succ] is None else IN[succ].join(s2)
                if IN[succ] is None or not (new == IN[succ]):
                    visits[succ] += 1
                    if visits[succ] > 6:
                        # widen: forget intervals that keep changing
                        for k2, v in list(new.vec.items()):
                            old = IN[succ].vec.get(k2) if IN[succ] else None
                            if old != v:
                                new.vec[k2] = (0, INF, None)
                    IN[succ] = new
                    if succ not in work:
                        work.append(succ)
        self.IN = IN


def tail_drains(fn):
    """Recognise `for i in (K..v.len()).rev() { ... v.remove(i) ... }`.

    Returns {remove_bb: {vec, K, header, exit_from, exit_to, checks}} for every remove site whose
    side conditions hold:
      (1) the index operand is the Some payload of Iterator::next on an iterator local `it`
      (2) `it` = IntoIterator::into_iter(Iterator::rev(Range{start: const K, end: E}))
      (3) E = Vec::len(&v) read with no mutation of v between that read and the loop
      (4) inside the loop, the only mutation of v is this remove
    """
    from .prov import Prov, is_call
    out = {}
    cfg = fn.cfg
    loops = cfg.loops()
    if not loops:
        return out
    pv = Prov(fn)
    for bb, t in fn.calls():
        if callee_path(t) != VEC_REMOVE:
            continue
        inl = cfg.in_loop(bb)
        if not inl:
            continue
        header = inl[-1]
        body = dict(loops)[header]
        idx_t = pv.operand_term(t["args"][1], bb, "term")
        # (1) i = (next(&mut it) as Some).0
        if not (idx_t[0] == "field" and idx_t[2] == "0" and idx_t[1][0] == "variant" and idx_t[1][2] == "Some"):
            continue
        nxt = idx_t[1][1]
        if not is_call(nxt, "core::iter::traits::iterator::Iterator::next"):
            continue
        it = nxt[2][0]
        if it[0] != "ref":
            continue
        itv = it[1]
        # (2)
        if not is_call(itv, "core::iter::traits::collect::IntoIterator::into_iter"):
            continue
        rev = itv[2][0]
        if not is_call(rev, "core::iter::traits::iterator::Iterator::rev"):
            continue
        rng = rev[2][0]
        if not (rng[0] == "aggr" and rng[1] == "core::ops::range::Range"):
            continue
        f = dict(rng[3])
        start, end = f.get("start"), f.get("end")
        if not (start and start[0] == "const" and isinstance(start[1], int)):
            continue
        if not is_call(end, VEC_LEN):
            continue
        len_site = end[3]
        # vec identity: the &mut argument of remove and the & argument of len must be the same place
        veff = [e for e in pv.effects() if e["kind"] == "call" and e["bb"] == bb and e["argi"] == 0]
        if not veff:
            continue
        vplace = veff[0]["place"]
        len_bb = len_site[1]
        lt = fn.blocks[len_bb]["term"]
        lplace = pv._borrowed_lvalue(lt["args"][0], len_bb)
        if lplace != vplace:
            continue
        # (3)/(4) mutations of v: effects on vplace in blocks reachable after len_bb
        ok = True
        after_len = cfg.reachable_from(len_bb)
        for e in pv.effects():
            if e["place"] != vplace:
                continue
            if e["kind"] == "call" and e["callee"] in READ_ONLY:
                continue
            if e["bb"] == bb and e["kind"] == "call":
                continue
            if e["bb"] in body:
                ok = False
            elif e["bb"] in after_len and cfg.dominates(e["bb"], header) and e["bb"] != len_bb:
                ok = False
        if not ok:
            continue
        # loop exit edge: the switch on next()'s discriminant, None arm leaves the loop
        next_bb = nxt[3][1]
        sw = fn.blocks[next_bb]["term"]["target"]
        swt = fn.blocks[sw]["term"]
        if swt["k"] != "switch":
            continue
        exit_to = None
        for v, b2 in swt["targets"]:
            if v == 0 and b2 not in body:
                exit_to = b2
        if exit_to is None:
            continue
        # key of the vec as used by the dataflow (place string of the &mut argument's referent)
        vkey = None
        a0 = t["args"][0]
        if a0["k"] in ("copy", "move") and not a0["place"]["p"]:
            for di in pv.reaching(a0["place"]["l"], bb, "term"):
                if di >= 0:
                    payload = pv._defs[di][3]
                    if pv._defs[di][2] != "term" and payload["k"] == "ref":
                        vkey = place_key(payload["place"])
        if vkey is None:
            continue
        out[bb] = {"vec": vkey, "K": start[1], "header": header, "exit_from": sw, "exit_to": exit_to,
                   "checks": ["index = Some payload of Rev<Range>::next", "range = K..len(v)",
                              "no other mutation of v after the len read", "loop exit on None"]}
    return out
