"""Provenance terms (DESIGN 3.2): where does the value of a place at a program point come from?

Terms are nested tuples:
  ('param', i)                      i-th argument of the function (0-based)
  ('const', value)                  evaluated scalar / string constant
  ('constdef', path)                reference to a const item (see Program-level const_term)
  ('fn', full, path)                function item used as a value
  ('closure', path, (captures...))
  ('field', T, name)  ('variant', T, Vname)  ('deref', T)  ('ref', T, is_mut)
  ('call', callee_path, (args...), site)    site = (fn key, bb)
  ('tryok', T)                      success value of `T?`
  ('aggr', adt, variant, ((field, T)...))   ('tuple', (T...))  ('array', (T...))
  ('cast', kind, T, to_ty)  ('binop', op, A, B)  ('unop', op, A)  ('discr', T)
  ('phi', frozenset({T...}))        several reaching definitions
  ('loop', local)                   cut on a cyclic definition
  ('local', l, name)                identity of a local used as an l-value base
  ('undef', l)
"""
from .facts import callee_path

TRY_BRANCH = "core::ops::try_trait::Try::branch"


def is_call(t, name=None):
    return isinstance(t, tuple) and t and t[0] == "call" and (name is None or t[1] == name or t[1].endswith("::" + name))


def strip_sites(t):
    if not isinstance(t, tuple):
        return t
    if t and t[0] == "call":
        return ("call", t[1], tuple(strip_sites(a) for a in t[2]))
    if t and t[0] == "phi":
        return ("phi", frozenset(strip_sites(x) for x in t[1]))
    if t and t[0] == "aggr":
        return ("aggr", t[1], t[2], tuple((f, strip_sites(x)) for f, x in t[3]))
    return tuple(strip_sites(x) for x in t)


def show(t, depth=0):
    """compact human readable rendering of a term"""
    if not isinstance(t, tuple) or not t:
        return repr(t)
    k = t[0]
    if depth > 12:
        return "..."
    d = depth + 1
    if k == "param":
        return "arg%d" % t[1]
    if k == "const":
        return repr(t[1])
    if k == "constdef":
        return "const " + t[1]
    if k == "fn":
        return "fn " + t[1]
    if k == "closure":
        return "closure %s(%s)" % (t[1], ", ".join(show(x, d) for x in t[2]))
    if k == "field":
        return "%s.%s" % (show(t[1], d), t[2])
    if k == "elemk":
        return "%s[%s]" % (show(t[1], d), t[2])
    if k == "variant":
        return "(%s as %s)" % (show(t[1], d), t[2])
    if k == "deref":
        return "*%s" % show(t[1], d)
    if k == "ref":
        return ("&mut " if t[2] else "&") + show(t[1], d)
    if k == "call":
        return "%s(%s)" % (t[1].split("::")[-1] if False else t[1], ", ".join(show(x, d) for x in t[2]))
    if k == "tryok":
        return "%s?" % show(t[1], d)
    if k == "aggr":
        return "%s::%s{%s}" % (t[1], t[2], ", ".join("%s: %s" % (f, show(x, d)) for f, x in t[3]))
    if k in ("tuple", "array"):
        return "%s(%s)" % (k, ", ".join(show(x, d) for x in t[1]))
    if k == "cast":
        return "(%s as %s)" % (show(t[2], d), t[3])
    if k == "binop":
        return "%s(%s, %s)" % (t[1], show(t[2], d), show(t[3], d))
    if k == "unop":
        return "%s(%s)" % (t[1], show(t[2], d))
    if k == "discr":
        return "discr(%s)" % show(t[1], d)
    if k == "phi":
        return "phi{%s}" % " | ".join(sorted(show(x, d) for x in t[1]))
    if k == "local":
        return "%s" % (t[2] or "_%d" % t[1])
    if k == "edited":
        return "%s edited in place (%s)" % (show(t[1], d), "; ".join(t[2]))
    if k == "mutated":
        return "%s after `&mut` at %s" % (show(t[1], d), "bb%s" % (t[2][1],))
    return "%s%r" % (k, t[1:])


def unmutated(t):
    """(base term, [sites]) of a value that was handed out through `&mut` (DESIGN 3.18): peel the `mutated` wrappers"""
    sites = []
    while isinstance(t, tuple) and t and t[0] == "mutated":
        sites.append(t[2])
        t = t[1]
    return t, sites


def subterms(t):
    """pre-order iteration over all subterms"""
    yield t
    if not isinstance(t, tuple) or not t:
        return
    k = t[0]
    if k in ("field", "variant", "deref", "ref", "tryok", "discr", "elemk"):
        yield from subterms(t[1])
    elif k == "call":
        for a in t[2]:
            yield from subterms(a)
    elif k == "aggr":
        for _, x in t[3]:
            yield from subterms(x)
    elif k in ("tuple", "array"):
        for x in t[1]:
            yield from subterms(x)
    elif k == "closure":
        for x in t[2]:
            yield from subterms(x)
    elif k == "cast":
        yield from subterms(t[2])
    elif k == "binop":
        yield from subterms(t[2])
        yield from subterms(t[3])
    elif k == "unop":
        yield from subterms(t[2])
    elif k == "phi":
        for x in t[1]:
            yield from subterms(x)


def calls_in(t, name=None):
    return [x for x in subterms(t) if is_call(x, name)]


def mk_phi(terms):
    s = set()
    for t in terms:
        if isinstance(t, tuple) and t and t[0] == "phi":
            s |= set(t[1])
        else:
            s.add(t)
    if len(s) == 1:
        return next(iter(s))
    return ("phi", frozenset(s))


_ALWAYS_ERR = {}


def always_err_fn(prog, path):
    """a crate-local function every return of which is a literal Err(..) (e.g. util::cbor_type_error)"""
    key = (id(prog), path)
    if key in _ALWAYS_ERR:
        return _ALWAYS_ERR[key]
    _ALWAYS_ERR[key] = False
    f = prog.fns.get(path)
    res = False
    if f is not None and f.blocks and f.kind in ("Fn", "AssocFn"):
        rt = Prov(f).return_term()
        leaves = list(rt[1]) if rt[0] == "phi" else [rt]
        res = bool(leaves) and all(is_err_term(prog, x) for x in leaves)
    _ALWAYS_ERR[key] = res
    return res


def is_err_term(prog, x):
    if x[0] == "aggr" and x[1] == "core::result::Result":
        return x[2] == "Err"
    if x[0] == "call":
        # the early return of an inner `?` is the residual (an Err / None) converted to the function's return type
        return x[1] == "core::ops::try_trait::FromResidual::from_residual" or always_err_fn(prog, x[1])
    return False


def mk_tryok(prog, r):
    """success value of `r?`: literal Ok(x) gives x; definitions that are always Err cannot continue and are dropped"""
    if r[0] == "aggr" and r[1] == "core::result::Result" and r[2] == "Ok" and r[3]:
        return r[3][0][1]
    if r[0] == "aggr" and r[1] == "core::option::Option" and r[2] == "Some" and r[3]:
        return r[3][0][1]
    if r[0] == "phi":
        live = [x for x in r[1] if not is_err_term(prog, x)]
        if live:
            return mk_phi([mk_tryok(prog, x) for x in live])
    if r[0] == "call":
        from . import combinators as cb
        if cb.is_combinator(r):
            cases = cb.reduce(prog, r)
            if not (len(cases) == 1 and cases[0][1] == r):
                live = [v for _, v in cases if not (v[0] == "aggr" and v[2] in ("Err", "None") and v[1] in (cb.OPTION, cb.RESULT))]
                if live:
                    return mk_phi([mk_tryok(prog, v) for v in live])
    return ("tryok", r)


# scalar-like data whose in-place mutation through `&mut` makes a new value (collections that are BUILT through `&mut` - the output
# map, element lists, iterators - are modelled by veclen / seq / effects instead)
MUT_TRACKED = {"alloc::vec::Vec<u8>", "alloc::string::String", "core::option::Option<alloc::vec::Vec<u8>>",
               "core::option::Option<alloc::string::String>", "ciborium::value::Value",
               "core::option::Option<ciborium::value::Value>"}


_CORE_VARIANTS = {"core::option::Option": {0: "None", 1: "Some"}, "core::result::Result": {0: "Ok", 1: "Err"},
                  "core::ops::control_flow::ControlFlow": {0: "Continue", 1: "Break"}}
FN_TRAIT_CALLS = ("core::ops::function::FnOnce::call_once", "core::ops::function::FnMut::call_mut", "core::ops::function::Fn::call")

class Prov:
    """Per-function provenance engine."""

    def __init__(self, fn):
        self.fn = fn
        self.prog = fn.prog
        self._defs = None
        self._in = None
        self._memo = {}
        self._busy = set()
        self._effects = None
        self.discr_adt = {}   # ('discr', T) term -> path of the enum whose discriminant is read

    # ---- definitions and reaching-definitions --------------------------------
    def _collect_defs(self):
        fn = self.fn
        defs = []  # (local, bb, idx or 'term', payload)
        by_block = {}
        for bi, b in enumerate(fn.blocks):
            if b["cleanup"]:
                continue
            for si, s in enumerate(b["stmts"]):
                if s["k"] == "assign" and not s["dst"]["p"]:
                    defs.append((s["dst"]["l"], bi, si, s["rv"]))
                    by_block.setdefault(bi, []).append(len(defs) - 1)
                    rv = s["rv"]
                    if rv["k"] == "ref" and rv.get("mut") and not rv.get("fake") \
                            and not (rv["place"]["p"] and rv["place"]["p"][0][0] == "deref") \
                            and fn.local_ty(rv["place"]["l"]) in MUT_TRACKED and rv["place"]["l"] != s["dst"]["l"]:
                        # `&mut x` of a byte string / text / CBOR value held in a local: whoever gets the reference may edit x,
                        # so from here on x is no longer what its definition says (DESIGN 3.18)
                        defs.append((rv["place"]["l"], bi, si, {"k": "mutborrow", "l": rv["place"]["l"]}))
                        by_block.setdefault(bi, []).append(len(defs) - 1)
            t = b["term"]
            if t["k"] == "call" and not t["dest"]["p"]:
                defs.append((t["dest"]["l"], bi, "term", t))
                by_block.setdefault(bi, []).append(len(defs) - 1)
        self._defs = defs
        self._by_block = by_block
        # dataflow
        cfg = fn.cfg
        n = len(fn.blocks)
        IN = [dict() for _ in range(n)]
        OUT = [None] * n

        def transfer(bi, state):
            st = dict(state)
            for di in by_block.get(bi, []):
                l = defs[di][0]
                st[l] = frozenset([di])
            return st

        work = list(cfg.rpo)
        inwork = set(work)
        while work:
            b = work.pop(0)
            inwork.discard(b)
            st = {}
            first = True
            for p in cfg.pred[b]:
                if OUT[p] is None:
                    continue
                if first:
                    st = dict(OUT[p])
                    first = False
                else:
                    for l, ds in OUT[p].items():
                        if l in st:
                            st[l] = st[l] | ds
                        else:
                            st[l] = ds | frozenset([-1])
                    for l in list(st):
                        if l not in OUT[p]:
                            st[l] = st[l] | frozenset([-1])
            IN[b] = st
            out = transfer(b, st)
            if out != OUT[b]:
                OUT[b] = out
                for s in cfg.succ[b]:
                    if s not in inwork:
                        work.append(s)
                        inwork.add(s)
        self._in = IN

    def reaching(self, l, bb, idx):
        """definition ids of local l reaching the point just before statement idx of bb
        (idx == 'term' or len(stmts): before the terminator).  -1 = 'no definition' (argument/uninit)."""
        if self._defs is None:
            self._collect_defs()
        stmts = self.fn.blocks[bb]["stmts"]
        lim = len(stmts) if idx == "term" else idx
        best = None
        for di in self._by_block.get(bb, []):
            d = self._defs[di]
            if d[0] != l or d[2] == "term":
                continue
            if d[2] < lim:
                best = di
        if best is not None:
            return frozenset([best])
        return self._in[bb].get(l, frozenset([-1]))

    # ---- terms ---------------------------------------------------------------
    def _block_statically_dead(self, b):
        """a block reached only under a test of a LITERAL that the literal fails (`match detached { Some(p) => .., None => .. }`
        after `None` reached an inlined helper's parameter): a definition made there is not a value the local can have"""
        memo = self.__dict__.setdefault("_dead_memo", {})
        if b in memo:
            return memo[b]
        if self.__dict__.get("_dead_busy"):
            return False
        self.__dict__["_dead_busy"] = True
        dead = False
        try:
            from .guards import conditions
            for subj, op, val in conditions(self.fn, self, b):
                if not (isinstance(subj, tuple) and subj and subj[0] == "const_variant"):
                    continue
                names = self.prog.enums.get(subj[1]) or _CORE_VARIANTS.get(subj[1]) or {}
                d = [k for k, n in names.items() if n == subj[2]]
                if len(d) != 1:
                    continue
                d = d[0]
                holds = (d == val) if op == "eq" else (d in val) if op == "in" else (d not in val) if op == "ne" else None
                if holds is False:
                    dead = True
                    break
        except Exception:
            dead = False
        finally:
            self.__dict__["_dead_busy"] = False
        memo[b] = dead
        return dead

    def local_term(self, l, bb, idx):
        ds = self.reaching(l, bb, idx)
        if len(ds) > 1:
            live = {di for di in ds if di == -1 or not self._block_statically_dead(self._defs[di][1])}
            if live and len(live) < len(ds):
                ds = live
        out = []
        for di in sorted(ds):
            if di == -1:
                if 1 <= l <= self.fn.arg_count:
                    out.append(("param", l - 1))
                else:
                    out.append(("undef", l))
            else:
                out.append(self.def_term(di))
        return mk_phi(out)

    def def_term(self, di):
        if di in self._memo:
            return self._memo[di]
        if di in self._busy:
            return ("loop", self._defs[di][0])
        self._busy.add(di)
        l, bb, idx, payload = self._defs[di]
        if idx == "term":
            t = self.call_term(bb)
        else:
            t = self.rvalue_term(payload, bb, idx)
        self._busy.discard(di)
        self._memo[di] = t
        return t

    def call_term(self, bb):
        t = self.fn.blocks[bb]["term"]
        name = callee_path(t)
        args = tuple(self.operand_term(a, bb, "term") for a in t["args"])
        if name is None:
            # a call through a function pointer / Fn value: the callee is a value like any other
            name = "<indirect>"
            args = (self.operand_term(t["func"], bb, "term"),) + args
        if name in FN_TRAIT_CALLS and len(args) == 2 and args[1][0] == "tuple":
            f0 = args[0]
            while f0[0] in ("ref", "deref"):
                f0 = f0[1]
            if f0[0] == "fn" and (f0[2] in self.prog.fns or f0[2].startswith("<") or "::" in f0[2]):
                # a named function handed to a generic `F: FnOnce(..)` parameter and called there: the direct call it stands for
                # (enum / tuple-struct constructors used as function values are the literals they build)
                from .codec import apply_fn
                v = apply_fn(self.prog, f0, list(args[1][1]))
                if v is not None:
                    return v
        inl = inline_pure_helper(self.prog, name, args, self.fn.key)
        if inl is not None:
            return inl
        return ("call", name, args, (self.fn.key, bb))

    def project(self, t, e):
        k = e[0]
        if isinstance(t, tuple) and t and t[0] == "phi" and k in ("field", "downcast", "deref"):
            live = [x for x in t[1] if not (k == "downcast" and self._impossible_downcast(x, e[1]))]
            return mk_phi([self.project(x, e) for x in (live or t[1])])
        if k == "deref":
            if t[0] == "ref":
                return t[1]
            if t[0] == "cast" and t[1] == "Transmute" and t[2][0] == "field" and t[2][2] == "pointer" \
                    and t[2][1][0] == "field" and t[2][1][2] == "0":
                return ("deref", t[2][1][1])  # `*boxed` (Box<T> deref lowers to a pointer transmute)
            return ("deref", t)
        if k == "downcast":
            return ("variant", t, e[1])
        if k == "field":
            name = e[2]
            base = t
            if base[0] == "variant":
                inner = base[1]
                if inner[0] == "aggr" and inner[2] == base[2]:
                    base = inner
                elif is_call(inner, TRY_BRANCH) and base[2] == "Continue" and name == "0":
                    return mk_tryok(self.prog, inner[2][0])
            if base[0] == "aggr":
                for f, x in base[3]:
                    if f == name:
                        return x
            if base[0] == "tuple":
                try:
                    return base[1][int(name)]
                except (ValueError, IndexError):
                    pass
            if base[0] == "closure" and str(name).isdigit() and int(name) < len(base[2]):
                return base[2][int(name)]       # a captured variable of a closure value
            return ("field", t, name)
        if k == "index":
            return ("index", t, ("local", e[1], None))
        if k == "constindex":
            # `[a, b, c] = arr` / `arr[i]` with a constant index: element i (from the end if e[3])
            return ("elemk", t, -1 - e[1] if (len(e) > 3 and e[3]) else e[1])
        return (k, t)

    def _impossible_downcast(self, x, variant):
        """reading x as `variant` cannot happen: x is a literal of another variant, or an always-Err value read as Ok"""
        if x[0] == "aggr" and x[2] is not None and x[2] != variant:
            return True
        return variant in ("Ok", "Some", "Continue") and is_err_term(self.prog, x)

    def place_term(self, place, bb, idx):
        """value stored in `place` at the point (follows reaching definitions of the base local)"""
        t = self.local_term(place["l"], bb, idx)
        for e in place["p"]:
            t = self.project(t, e)
        return t

    def lvalue_term(self, place, bb, idx, _depth=0):
        """identity of the memory `place` denotes (for effect summaries)"""
        l = place["l"]
        proj = place["p"]
        if proj and proj[0][0] == "deref" and not (1 <= l <= self.fn.arg_count) and _depth < 6:
            # `*r` where r is a reference temp created in this function (`&mut x`, a reborrow, a moved copy of one - e.g. the
            # parameter of an inlined helper): the memory is x itself
            b = self._borrowed_lvalue({"k": "copy", "place": {"l": l, "p": []}}, bb, idx, _depth + 1)
            if b[0] in ("local", "param", "field", "ret"):
                t = b
                for e in proj[1:]:
                    t = self._project_lvalue(t, e)
                return t
        if proj and proj[0][0] == "deref":
            t = self.local_term(l, bb, idx)
        elif 1 <= l <= self.fn.arg_count:
            t = ("param", l - 1)
        elif l == 0:
            t = ("ret",)
        else:
            src = self._moved_from_param(l, bb, idx)
            t = ("param", src) if src is not None else ("local", l, self.fn.local_name(l))
        for e in proj:
            t = self.project(t, e)
        return t

    def _project_lvalue(self, t, e):
        """project() for memory identities: `*(c.i)` where c is a closure / tuple / struct built in this function from a
        reference is the memory that reference borrows (a closure that captured `&mut map` writes to `map`)"""
        if e[0] == "deref" and t[0] == "field" and t[1][0] == "local" and str(t[2]).isdigit():
            r = self._captured_ref(t[1][1], int(t[2]))
            if r is not None:
                return r
        return self.project(t, e)

    def _captured_ref(self, l, i, _depth=0):
        if self._defs is None:
            self._collect_defs()
        ds = [d for d in self._defs if d[0] == l]
        if len(ds) != 1 or ds[0][2] == "term":
            return None
        _, dbb, didx, payload = ds[0]
        if payload["k"] == "use" and payload["op"]["k"] in ("move", "copy") and not payload["op"]["place"]["p"] and _depth < 6:
            return self._captured_ref(payload["op"]["place"]["l"], i, _depth + 1)     # the closure value was moved here
        if payload["k"] != "aggr" or i >= len(payload["ops"]):
            return None
        b = self._borrowed_lvalue(payload["ops"][i], dbb, didx, 1)
        return b if b[0] in ("local", "param", "field", "ret") else None

    def _moved_from_param(self, l, bb, idx):
        """index of the parameter whose value was MOVED into local l (through any chain of plain moves), else None: an
        owned `self` handed to an inlined callee is still the same object"""
        for _ in range(8):
            ds = self.reaching(l, bb, idx)
            if len(ds) != 1 or -1 in ds:
                return None
            _, dbb, didx, payload = self._defs[next(iter(ds))]
            if didx == "term" or payload["k"] != "use" or payload["op"]["k"] != "move" or payload["op"]["place"]["p"]:
                return None
            l, bb, idx = payload["op"]["place"]["l"], dbb, didx
            if 1 <= l <= self.fn.arg_count:
                # the parameter itself must not have been reassigned before the move
                if self.reaching(l, bb, idx) == frozenset([-1]):
                    return l - 1
                return None
        return None

    def tampered(self, op, bb, idx="term", _depth=0):
        """partial writes to / mutable borrows of the local(s) an operand's value lives in on its way to this use.

        Terms are built from whole-local definitions; `x.f = v` or `&mut x` between the definition of x and a use of x changes
        the value without being a definition.  Follows plain moves / copies and `Clone::clone(&y)` of bare locals.  Returns
        descriptions ('protected.original_data is assigned at line 257'); empty if the value is what its term says."""
        out = []
        if op["k"] not in ("copy", "move") or _depth > 8:
            return out
        l = op["place"]["l"]
        fn = self.fn
        if not op["place"]["p"] or op["place"]["p"][0][0] != "deref":
            name = fn.local_name(l) or "_%d" % l
            for b in fn.blocks:
                if b["cleanup"]:
                    continue
                for s in b["stmts"]:
                    if s["k"] != "assign":
                        continue
                    d = s["dst"]
                    if d["l"] == l and d["p"] and d["p"][0][0] != "deref":
                        out.append("%s.%s is assigned separately at line %s" % (
                            name, ".".join(str(e[2]) for e in d["p"] if e[0] == "field"), s.get("line")))
                    rv = s["rv"]
                    if rv["k"] == "ref" and rv.get("mut") and not rv.get("fake") and rv["place"]["l"] == l \
                            and not (rv["place"]["p"] and rv["place"]["p"][0][0] == "deref"):
                        out.append("%s is borrowed mutably at line %s" % (name, s.get("line")))
        if self._defs is None:
            self._collect_defs()
        if op["place"]["p"]:
            return out
        ds = self.reaching(l, bb, idx)
        for di in ds:
            if di == -1:
                continue
            _, dbb, didx, payload = self._defs[di]
            if didx == "term":
                t = payload
                if callee_path(t) == "core::clone::Clone::clone" and len(t["args"]) == 1:
                    out.extend(self._tampered_ref(t["args"][0], dbb, "term", _depth + 1))
            elif payload["k"] == "use":
                out.extend(self.tampered(payload["op"], dbb, didx, _depth + 1))
        return out

    def _tampered_ref(self, op, bb, idx, _depth):
        """tampered() for `&y` handed to clone: follow the reference temp to the bare local it borrows"""
        if op["k"] not in ("copy", "move") or op["place"]["p"] or _depth > 8:
            return []
        if self._defs is None:
            self._collect_defs()
        out = []
        for di in self.reaching(op["place"]["l"], bb, idx):
            if di == -1:
                continue
            _, dbb, didx, payload = self._defs[di]
            if didx == "term":
                continue
            if payload["k"] == "ref" and not payload["place"]["p"]:
                out.extend(self.tampered({"k": "copy", "place": payload["place"]}, dbb, didx, _depth + 1))
            elif payload["k"] == "use":
                out.extend(self._tampered_ref(payload["op"], dbb, didx, _depth + 1))
        return out

    def operand_term(self, op, bb, idx):
        k = op["k"]
        if k in ("copy", "move"):
            return self.place_term(op["place"], bb, idx)
        if k == "const":
            if "fn" in op:
                f = op["fn"]
                r = f.get("resolved") or {}
                return ("fn", r.get("full") or f["full"], r.get("path") or f["path"])
            if "val" in op:
                return ("const", op["val"])
            if "closure" in op:
                return ("closure", op["closure"], ())
            if "def" in op:
                if "promoted" in op:
                    return ("promoted", op["def"], op["promoted"])
                return ("constdef", op["def"])
            return ("const_zst", op["ty"])
        return ("unknown_operand", k)

    def rvalue_term(self, rv, bb, idx):
        k = rv["k"]
        if k == "mutborrow":
            return ("mutated", self.local_term(rv["l"], bb, idx), (self.fn.key, bb, idx))
        if k == "use":
            return self.operand_term(rv["op"], bb, idx)
        if k == "ref":
            inner = self.lvalue_or_value(rv["place"], bb, idx)
            if inner[0] == "deref" and not rv["mut"]:
                return inner[1]  # `&*r` is `r`
            return ("ref", inner, bool(rv["mut"]))
        if k == "rawptr":
            return ("ref", self.lvalue_or_value(rv["place"], bb, idx), True)
        if k == "cast":
            inner = self.operand_term(rv["op"], bb, idx)
            return fold(("cast", rv["kind"], inner, rv["ty"]), self.prog)
        if k == "binop":
            return fold(("binop", rv["op"], self.operand_term(rv["a"], bb, idx), self.operand_term(rv["b"], bb, idx)), self.prog)
        if k == "unop":
            return fold(("unop", rv["op"], self.operand_term(rv["a"], bb, idx)), self.prog)
        if k == "discr":
            dt = fold(("discr", self.place_term(rv["place"], bb, idx)), self.prog)
            if dt[0] == "discr" and rv.get("adt"):
                self.discr_adt[dt] = rv["adt"]
            return dt
        if k == "aggr":
            ops = tuple(self.operand_term(o, bb, idx) for o in rv["ops"])
            kind = rv["kind"]
            if kind == "adt":
                return ("aggr", rv["adt"], rv["variant"], tuple(zip(rv["fields"], ops)))
            if kind == "tuple":
                return ("tuple", ops)
            if kind == "array":
                return ("array", ops)
            if kind == "closure":
                return ("closure", rv["closure"], ops)
            return ("aggr_other", rv.get("dbg"), ops)
        if k == "repeat":
            return ("repeat", self.operand_term(rv["op"], bb, idx))
        return ("unknown_rvalue", rv.get("dbg", k))

    def lvalue_or_value(self, place, bb, idx):
        """term used inside a `&place`: for params/locals without deref we want the value
        reached (so `&a` where `a = x?` shows where a came from), which is what place_term gives."""
        return self.place_term(place, bb, idx)

    def return_term(self):
        """phi over the value of _0 at every return block"""
        outs = []
        for b in self.fn.cfg.return_blocks():
            outs.append(self.local_term(0, b, "term"))
        return mk_phi(outs)

    def return_terms_by_block(self):
        return {b: self.local_term(0, b, "term") for b in self.fn.cfg.return_blocks()}

    # ---- effects -------------------------------------------------------------
    def effects(self):
        """list of dicts: {kind:'assign'|'call', place: lvalue term, value: term (assign),
        callee: path (call), args: terms, argi: index of the &mut argument, bb, idx, line}"""
        if self._effects is not None:
            return self._effects
        if self._defs is None:
            self._collect_defs()
        out = []
        fn = self.fn
        for bi, b in enumerate(fn.blocks):
            if b["cleanup"] or bi not in fn.cfg.reach:
                continue
            for si, s in enumerate(b["stmts"]):
                if s["k"] == "assign" and s["dst"]["p"]:
                    if is_drop_flag_or_noise(fn, s):
                        continue
                    out.append({
                        "kind": "assign",
                        "place": self.lvalue_term(s["dst"], bi, si),
                        "value": self.rvalue_term(s["rv"], bi, si),
                        "bb": bi, "idx": si, "line": s.get("line"),
                    })
            t = b["term"]
            if t["k"] == "call":
                args = [self.operand_term(a, bi, "term") for a in t["args"]]
                for ai, a in enumerate(args):
                    if isinstance(a, tuple) and a[0] == "ref" and a[2]:
                        # find the lvalue identity of the borrowed place
                        lv = self._borrowed_lvalue(t["args"][ai], bi)
                        out.append({
                            "kind": "call", "callee": callee_path(t), "argi": ai,
                            "place": lv, "args": args, "bb": bi, "idx": "term", "line": t.get("line"),
                        })
                if t["dest"]["p"]:
                    out.append({
                        "kind": "assign", "place": self.lvalue_term(t["dest"], bi, "term"),
                        "value": self.call_term(bi), "bb": bi, "idx": "term", "line": t.get("line"),
                    })
        self._effects = out
        return out

    def _borrowed_lvalue(self, op, bb, idx="term", _depth=0):
        """for an operand that is a `&mut` temp, recover the lvalue identity of what it borrows"""
        if op["k"] not in ("copy", "move") or _depth > 8:
            return ("unknown",)
        place = op["place"]
        if place["p"]:
            return self.lvalue_term(place, bb, idx)
        ds = self.reaching(place["l"], bb, idx)
        outs = []
        for di in ds:
            if di == -1:
                outs.append(("param", place["l"] - 1) if 1 <= place["l"] <= self.fn.arg_count else ("undef", place["l"]))
                continue
            l, dbb, didx, payload = self._defs[di]
            if didx != "term" and payload["k"] in ("ref", "rawptr"):
                pl = payload["place"]
                if len(pl["p"]) == 1 and pl["p"][0][0] == "deref" and not (1 <= pl["l"] <= self.fn.arg_count):
                    # `&mut *r`: a reborrow of what r borrows
                    inner = self._borrowed_lvalue({"k": "copy", "place": {"l": pl["l"], "p": []}}, dbb, didx, _depth + 1)
                    outs.append(inner if inner[0] in ("local", "param", "field", "ret") else self.lvalue_term(pl, dbb, didx, _depth + 1))
                else:
                    outs.append(self.lvalue_term(pl, dbb, didx, _depth + 1))
            elif didx != "term" and payload["k"] == "use" and payload["op"]["k"] in ("copy", "move") and payload["op"]["place"]["p"]:
                # a reference read out of a closure environment / tuple built in this function: what was captured
                lv = self.lvalue_term(payload["op"]["place"], dbb, didx, _depth + 1)
                r = None
                if lv[0] == "field" and lv[1][0] == "local" and str(lv[2]).isdigit():
                    r = self._captured_ref(lv[1][1], int(lv[2]))
                outs.append(r if r is not None else ("deref", self.def_term(di)))
            elif didx != "term" and payload["k"] == "use" and payload["op"]["k"] in ("copy", "move"):
                # reborrow through a copy of another reference temp
                outs.append(self._borrowed_lvalue(payload["op"], dbb, didx, _depth + 1))
            else:
                outs.append(("deref", self.def_term(di)))
        return mk_phi(outs)


def is_drop_flag_or_noise(fn, s):
    return False


def fold(t, prog):
    """constant folding of discriminant reads of constant enum aggregates, integer casts of
    constants, and `x + 0` (how `Enum as i64` is lowered for enums with explicit discriminants)."""
    k = t[0]
    if k == "discr":
        inner = t[1]
        if inner[0] == "aggr":
            ds = prog.enum_discrs(inner[1])
            if ds and ds.get(inner[2]) is not None:
                return ("const", ds[inner[2]])
            a = prog.adts.get(inner[1])
            if a is None:
                # foreign enum (Option, Result, Value): keep variant name
                return ("const_variant", inner[1], inner[2])
        return t
    if k == "cast" and t[1] == "IntToInt":
        inner = t[2]
        if inner[0] == "const" and isinstance(inner[1], int) and not isinstance(inner[1], bool):
            v = wrap_int(inner[1], t[3])
            if v is not None:
                return ("const", v)
        return t
    if k == "binop":
        op, a, b = t[1], t[2], t[3]
        if op in ("Add", "AddWithOverflow") and b == ("const", 0):
            if op == "Add":
                return a
            return ("tuple", (a, ("const", False)))
        if a[0] == "const" and b[0] == "const" and isinstance(a[1], int) and isinstance(b[1], int) \
                and not isinstance(a[1], bool) and not isinstance(b[1], bool):
            x, y = a[1], b[1]
            if op in ("Add", "AddWithOverflow") and 0 <= x + y < 2 ** 31 and x >= 0 and y >= 0:
                # small non-negative constants (an index + 1 after inlining): no integer type of the crate overflows here
                return ("const", x + y) if op == "Add" else ("tuple", (("const", x + y), ("const", False)))
            res = {"Eq": x == y, "Ne": x != y, "Lt": x < y, "Le": x <= y, "Gt": x > y, "Ge": x >= y}.get(op)
            if res is not None:
                return ("const", res)
        return t
    return t


INT_RANGES = {
    "i8": (-2 ** 7, 2 ** 7 - 1), "i16": (-2 ** 15, 2 ** 15 - 1), "i32": (-2 ** 31, 2 ** 31 - 1),
    "i64": (-2 ** 63, 2 ** 63 - 1), "i128": (-2 ** 127, 2 ** 127 - 1), "isize": (-2 ** 63, 2 ** 63 - 1),
    "u8": (0, 2 ** 8 - 1), "u16": (0, 2 ** 16 - 1), "u32": (0, 2 ** 32 - 1), "u64": (0, 2 ** 64 - 1),
    "u128": (0, 2 ** 128 - 1), "usize": (0, 2 ** 64 - 1),
}


def wrap_int(v, ty):
    r = INT_RANGES.get(ty)
    if r is None:
        return None
    lo, hi = r
    span = hi - lo + 1
    return (v - lo) % span + lo


_CONST_MEMO = {}


def const_term(prog, path):
    """value term of a const item (evaluated from its CTFE body)"""
    key = (id(prog), path)
    if key in _CONST_MEMO:
        return _CONST_MEMO[key]
    f = prog.fns.get(path)
    if f is None or not f.blocks:
        t = ("constdef", path)
    else:
        if "const_val" in f.d:
            t = ("const", f.d["const_val"])
        else:
            t = resolve_consts(prog, Prov(f).return_term())
    _CONST_MEMO[key] = t
    return t


def resolve_consts(prog, t, depth=0):
    """replace ('constdef', p) by the const's value term, recursively, and re-fold"""
    if not isinstance(t, tuple) or not t or depth > 8:
        return t
    k = t[0]
    if k == "constdef":
        r = const_term(prog, t[1])
        return r
    if k == "promoted":
        return promoted_term(prog, t[1], t[2])
    if k == "call":
        return ("call", t[1], tuple(resolve_consts(prog, a, depth + 1) for a in t[2])) + tuple(t[3:])
    if k == "aggr":
        return ("aggr", t[1], t[2], tuple((f, resolve_consts(prog, x, depth + 1)) for f, x in t[3]))
    if k in ("tuple", "array"):
        return (k, tuple(resolve_consts(prog, x, depth + 1) for x in t[1]))
    if k in ("field", "variant"):
        return (k, resolve_consts(prog, t[1], depth + 1), t[2])
    if k in ("deref", "tryok"):
        return (k, resolve_consts(prog, t[1], depth + 1))
    if k == "ref":
        return (k, resolve_consts(prog, t[1], depth + 1), t[2])
    if k == "discr":
        return fold((k, resolve_consts(prog, t[1], depth + 1)), prog)
    if k == "cast":
        return fold((k, t[1], resolve_consts(prog, t[2], depth + 1), t[3]), prog)
    if k == "binop":
        return fold((k, t[1], resolve_consts(prog, t[2], depth + 1), resolve_consts(prog, t[3], depth + 1)), prog)
    if k == "unop":
        return (k, t[1], resolve_consts(prog, t[2], depth + 1))
    if k == "phi":
        return mk_phi([resolve_consts(prog, x, depth + 1) for x in t[1]])
    return t


_PROM_MEMO = {}


def promoted_term(prog, path, idx):
    """value term of promoted constant #idx of function `path` (e.g. `&ISS` used as a comparison operand)"""
    key = (id(prog), path, idx)
    if key in _PROM_MEMO:
        return _PROM_MEMO[key]
    f = prog.fns.get(path)
    t = ("promoted", path, idx)
    if f is not None:
        proms = f.d.get("promoted") or []
        if idx < len(proms):
            from .facts import Fn
            d = dict(proms[idx])
            d.setdefault("path", "%s::{promoted#%d}" % (path, idx))
            d.setdefault("kind", "Promoted")
            pf = Fn(d["path"], d, prog)
            t = resolve_consts(prog, Prov(pf).return_term())
    _PROM_MEMO[key] = t
    return t


# ---- looking through crate-private helpers ---------------------------------------------------------------------
def subst_params(t, args):
    """replace ('param', i) by args[i] in a term (used to inline a helper's summary at a call site)"""
    if not isinstance(t, tuple) or not t:
        return t
    k = t[0]
    if k == "param":
        return args[t[1]] if t[1] < len(args) else t
    if k == "call":
        return ("call", t[1], tuple(subst_params(a, args) for a in t[2])) + tuple(t[3:])
    if k == "aggr":
        return ("aggr", t[1], t[2], tuple((f, subst_params(x, args)) for f, x in t[3]))
    if k in ("tuple", "array"):
        return (k, tuple(subst_params(x, args) for x in t[1]))
    if k == "closure":
        return (k, t[1], tuple(subst_params(x, args) for x in t[2]))
    if k in ("field", "variant"):
        return (k, subst_params(t[1], args), t[2])
    if k in ("deref", "tryok", "discr"):
        r = (k, subst_params(t[1], args))
        if k == "deref" and r[1][0] == "ref":
            return r[1][1]
        return r
    if k == "ref":
        return (k, subst_params(t[1], args), t[2])
    if k == "cast":
        return (k, t[1], subst_params(t[2], args), t[3])
    if k == "binop":
        return (k, t[1], subst_params(t[2], args), subst_params(t[3], args))
    if k == "unop":
        return (k, t[1], subst_params(t[2], args))
    if k == "phi":
        return mk_phi([subst_params(x, args) for x in t[1]])
    return t


def pure_summary(prog, key):
    """return term of a crate-private helper that is a single pure expression of its parameters
    (no branches, no effects, no diverging call), else None"""
    memo = prog._helper_memo
    if key in memo:
        return memo[key]
    memo[key] = None   # recursion guard
    if not prog.is_private_helper(key):
        return None
    f = prog.fns[key]
    for bb, t in f.calls():
        c = t.get("callee") or {}
        if c.get("never") or callee_path(t) == key:
            return None
    pv = Prov(f)
    if pv.effects():
        return None
    rt = pv.return_term()
    for s in subterms(rt):
        if isinstance(s, tuple) and s and s[0] in ("phi", "loop", "undef"):
            return None
    memo[key] = rt
    return rt


def inline_pure_helper(prog, name, args, caller_key):
    if name == caller_key:
        return None
    rt = pure_summary(prog, name)
    if rt is None:
        return None
    return subst_params(rt, args)


def resolve_closure_fields(t):
    """after substituting a closure value for its environment parameter: `(closure).i` is the i-th captured term,
    `*&x` is x"""
    if not isinstance(t, tuple) or not t:
        return t
    k = t[0]
    if k == "field":
        base = resolve_closure_fields(t[1])
        b = base
        while b[0] in ("ref", "deref"):
            b = b[1]
        if b[0] == "closure" and str(t[2]).isdigit() and int(t[2]) < len(b[2]):
            return b[2][int(t[2])]
        return ("field", base, t[2])
    if k == "deref":
        inner = resolve_closure_fields(t[1])
        return inner[1] if inner[0] == "ref" else ("deref", inner)
    if k == "ref":
        return ("ref", resolve_closure_fields(t[1])) + tuple(t[2:])
    if k == "call":
        return ("call", t[1], tuple(resolve_closure_fields(a) for a in t[2])) + tuple(t[3:])
    if k == "aggr":
        return ("aggr", t[1], t[2], tuple((f, resolve_closure_fields(x)) for f, x in t[3]))
    if k in ("variant",):
        return ("variant", resolve_closure_fields(t[1]), t[2])
    if k in ("tryok", "discr"):
        return (k, resolve_closure_fields(t[1]))
    if k in ("tuple", "array"):
        return (k, tuple(resolve_closure_fields(x) for x in t[1]))
    if k == "phi":
        return mk_phi([resolve_closure_fields(x) for x in t[1]])
    return t


class PathProv(Prov):
    """Provenance along ONE acyclic path (a list of block indices): every local has exactly the definition that the path
    executes last before the point of use, so there are no phi terms.  Used for loop-free functions whose paths are
    enumerated (guards.path_rows)."""

    def __init__(self, fn, path):
        super().__init__(fn)
        self.path = list(path)
        self.pos = {b: i for i, b in enumerate(self.path)}
        if self._defs is None:
            self._collect_defs()

    def reaching(self, l, bb, idx):
        if bb not in self.pos:
            return super().reaching(l, bb, idx)
        stmts = self.fn.blocks[bb]["stmts"]
        lim = len(stmts) if idx == "term" else idx
        best = None
        for di in self._by_block.get(bb, []):
            d = self._defs[di]
            if d[0] == l and d[2] != "term" and d[2] < lim:
                best = di
        if best is not None:
            return frozenset([best])
        for pb in reversed(self.path[:self.pos[bb]]):
            last = None
            for di in self._by_block.get(pb, []):
                if self._defs[di][0] == l:
                    last = di
            if last is not None:
                return frozenset([last])
        return frozenset([-1])
