"""Guard truth tables by abstract evaluation of the CFG (DESIGN 3.5).

walk(fn, start, atoms, sinks, params) explores the control-flow graph from block `start`, carrying a
small environment of locals whose value is determined by
  * `atoms`: {bb: value} - the result to assume for the call terminating block bb (e.g. an is_empty()
    call on a particular field: True / False),
  * `params`: {local index: value} - concrete values assumed for integer arguments,
  * constants, copies, comparisons, boolean/arithmetic operators on known values.
Anything else is unknown; a switch on an unknown operand explores all successors.  The result is the
set of `sinks` (blocks of interest) that are reachable under the assumption.  Since the guards of
interest are piecewise constant in their atoms, enumerating all atom assignments (or the break
points of an integer) yields the exact truth table of "which outcome is reached", independent of
how the source spells the condition (&&, nested ifs, a bool variable, De Morgan, early return).
No coset code is executed: this is a path-sensitive dataflow over the MIR.
"""
from .facts import callee_path

UNK = object()


_PROG = [None]


def _range_contains(r, x):
    if isinstance(r, tuple) and r and r[0] == "range-incl":
        return r[1] <= x <= r[2]
    if isinstance(r, tuple) and r and r[0] == "range":
        return r[1] <= x < r[2]
    raise KeyError


# std functions whose value on known scalar arguments is part of the trusted base (their documented meaning)
_CORE_DISCR = {"core::result::Result": {"Ok": 0, "Err": 1}, "core::option::Option": {"None": 0, "Some": 1},
               "core::ops::control_flow::ControlFlow": {"Continue": 0, "Break": 1}}


def _try_branch(v):
    if isinstance(v, tuple) and v and v[0] == "enum" and v[1] in ("core::result::Result", "core::option::Option"):
        return ("enum", "core::ops::control_flow::ControlFlow", "Continue" if v[2] in ("Ok", "Some") else "Break")
    raise KeyError


STD_VALUES = {
    "core::ops::try_trait::Try::branch": _try_branch,
    "core::ops::range::RangeInclusive::<Idx>::new": lambda a, b: ("range-incl", a, b),
    "core::ops::range::RangeInclusive::<Idx>::contains": _range_contains,
    "core::ops::range::Range::<Idx>::contains": _range_contains,
    "core::convert::From::from": lambda a: int(a),          # bool -> integer, integer -> wider integer: the same number
    "core::convert::Into::into": lambda a: int(a),
    "core::num::<impl i64>::unsigned_abs": lambda a: abs(a),
    "core::num::<impl i64>::is_negative": lambda a: a < 0,
    "core::num::<impl i64>::is_positive": lambda a: a > 0,
    "core::num::<impl i64>::signum": lambda a: (a > 0) - (a < 0),
}


def _term_value(t):
    """value of a constant provenance term (promoted constants, const items)"""
    while isinstance(t, tuple) and t and t[0] in ("ref", "deref"):
        t = t[1]
    if t[0] == "const":
        return t[1]
    if t[0] == "aggr" and not t[3]:
        return ("enum", t[1], t[2])
    if t[0] == "call" and t[1] == "core::ops::range::RangeInclusive::<Idx>::new" and len(t[2]) == 2:
        a, b = _term_value(t[2][0]), _term_value(t[2][1])      # a `const R: RangeInclusive<_> = lo..=hi`
        return ("range-incl", a, b) if a is not UNK and b is not UNK else UNK
    if t[0] == "aggr" and t[1] in ("core::ops::range::Range", "core::ops::range::RangeInclusive"):
        f = dict(t[3])
        a, b = _term_value(f["start"]) if "start" in f else UNK, _term_value(f["end"]) if "end" in f else UNK
        if a is not UNK and b is not UNK:
            return ("range" if t[1].endswith("::Range") else "range-incl", a, b)
    return UNK


def _operand(env, op):
    k = op["k"]
    if k == "const":
        v = op.get("val", UNK)
        if v is UNK and _PROG[0] is not None and "def" in op:
            from .prov import promoted_term, const_term
            try:
                if "promoted" in op:
                    return _term_value(promoted_term(_PROG[0], op["def"], op["promoted"]))
                return _term_value(const_term(_PROG[0], op["def"]))
            except Exception:
                return UNK
        return v
    if k in ("copy", "move"):
        p = op["place"]
        if not p["p"]:
            return env.get(p["l"], UNK)
        if len(p["p"]) == 1 and p["p"][0][0] == "field":
            base = env.get(p["l"], UNK)
            if isinstance(base, tuple):
                i = p["p"][0][1]
                if i < len(base):
                    return base[i]
        if len(p["p"]) == 1 and p["p"][0][0] == "deref":
            return env.get(p["l"], UNK)
    return UNK


def _binop(op, a, b):
    if a is UNK or b is UNK:
        # short-circuit knowledge for booleans
        if op == "BitAnd" and (a is False or b is False):
            return False
        if op == "BitOr" and (a is True or b is True):
            return True
        return UNK
    try:
        if op in ("Eq", "Ne", "Lt", "Le", "Gt", "Ge"):
            return {"Eq": a == b, "Ne": a != b, "Lt": a < b, "Le": a <= b, "Gt": a > b, "Ge": a >= b}[op]
        base = op.replace("WithOverflow", "").replace("Unchecked", "")
        if base in ("Add", "Sub", "Mul"):
            r = {"Add": a + b, "Sub": a - b, "Mul": a * b}[base]
            if op.endswith("WithOverflow"):
                return (r, not (-2 ** 63 <= r <= 2 ** 64 - 1))
            return r
        if base == "BitAnd":
            return (a and b) if isinstance(a, bool) else a & b
        if base == "BitOr":
            return (a or b) if isinstance(a, bool) else a | b
        if base == "BitXor":
            return (a != b) if isinstance(a, bool) else a ^ b
    except TypeError:
        return UNK
    return UNK


def _step_stmt(env, s):
    if s["k"] != "assign":
        return
    dst = s["dst"]
    if dst["p"]:
        return
    l = dst["l"]
    rv = s["rv"]
    k = rv["k"]
    v = UNK
    if k == "use":
        v = _operand(env, rv["op"])
    elif k == "binop":
        v = _binop(rv["op"], _operand(env, rv["a"]), _operand(env, rv["b"]))
    elif k == "unop":
        a = _operand(env, rv["a"])
        if a is not UNK:
            if rv["op"] == "Not":
                v = (not a) if isinstance(a, bool) else ~a
            elif rv["op"] == "Neg":
                v = -a
    elif k == "cast" and rv["kind"] == "IntToInt":
        v = _operand(env, rv["op"])
    elif k == "ref":
        # references are transparent for scalar / fieldless-enum values
        p = rv["place"]
        if not p["p"] and p["l"] in env:
            v = env[p["l"]]
        elif len(p["p"]) == 1 and p["p"][0][0] == "deref" and p["l"] in env:
            v = env[p["l"]]
    elif k == "discr":
        pl = rv["place"]
        base = env.get(pl["l"], UNK) if not pl["p"] or (len(pl["p"]) == 1 and pl["p"][0][0] == "deref") else UNK
        if isinstance(base, tuple) and base and base[0] == "enum" and _PROG[0] is not None:
            names = _PROG[0].enums.get(base[1]) or {}
            idx = [d for d, n in names.items() if n == base[2]]
            own = (_PROG[0].enum_discrs(base[1]) or {}).get(base[2])
            if own is not None:
                v = own
            elif len(idx) == 1:
                v = idx[0]
            elif base[1] in _CORE_DISCR and base[2] in _CORE_DISCR[base[1]]:
                v = _CORE_DISCR[base[1]][base[2]]
        elif isinstance(base, tuple) and base and base[0] == "enum" and base[1] in _CORE_DISCR and base[2] in _CORE_DISCR[base[1]]:
            v = _CORE_DISCR[base[1]][base[2]]
    elif k == "aggr" and rv.get("kind") == "adt" and not rv["ops"]:
        v = ("enum", rv["adt"], rv["variant"])
    elif k == "aggr" and rv.get("kind") == "adt" and rv.get("adt") in _CORE_DISCR and rv.get("variant") in _CORE_DISCR[rv["adt"]]:
        # `Err(e)` / `Ok(v)` / `Some(x)`: which variant it is is known even when the payload is not
        v = ("enum", rv["adt"], rv["variant"])
    elif k == "aggr" and rv.get("kind") == "adt" and rv.get("adt") in ("core::ops::range::Range", "core::ops::range::RangeInclusive"):
        ops = [_operand(env, o) for o in rv["ops"]]
        if len(ops) >= 2 and ops[0] is not UNK and ops[1] is not UNK:
            v = ("range" if rv["adt"].endswith("::Range") else "range-incl", ops[0], ops[1])
    if v is UNK:
        env.pop(l, None)
    else:
        env[l] = v


def return_values(fn, atoms=None, params=None, call_values=None):
    """set of values the return place can hold at `return` under the assumption (UNK included as 'unknown')"""
    vals = set()

    def on_return(env):
        v = env.get(0, UNK)
        vals.add("unknown" if v is UNK else v)
    walk(fn, 0, atoms=atoms, params=params, call_values=call_values, on_return=on_return)
    return vals


def _always_err(prog, name):
    from .prov import always_err_fn
    try:
        return always_err_fn(prog, name)
    except Exception:
        return False


def walk(fn, start, atoms=None, sinks=(), params=None, stop=(), max_states=20000, call_values=None, on_return=None):
    """returns (set of reached sinks, undecided: True if some switch operand was unknown)"""
    atoms = atoms or {}
    _PROG[0] = fn.prog
    sinks = set(sinks)
    stop = set(stop)
    env0 = dict(params or {})
    reached = set()
    undecided = [False]
    seen = set()
    stack = [(start, env0)]
    n = 0
    while stack:
        bb, env = stack.pop()
        key = (bb, tuple(sorted((str(k), str(v)) for k, v in env.items())))
        if key in seen:
            continue
        seen.add(key)
        n += 1
        if n > max_states:
            undecided[0] = True
            break
        if bb in sinks:
            reached.add(bb)
        if bb in stop and bb != start:
            continue
        blk = fn.blocks[bb]
        env = dict(env)
        for s in blk["stmts"]:
            _step_stmt(env, s)
        t = blk["term"]
        k = t["k"]
        if k == "call":
            dl = t["dest"]["l"] if not t["dest"]["p"] else None
            if dl is not None:
                if bb in atoms:
                    env[dl] = atoms[bb]
                else:
                    v = UNK
                    if True:
                        name = callee_path(t)
                        if name == "core::ops::try_trait::FromResidual::from_residual" or (
                                name and fn.prog is not None and name in fn.prog.fns and _always_err(fn.prog, name)):
                            # the early return of a `?` / an always-failing helper: the failure variant of its type
                            ty = fn.local_ty(dl) or ""
                            if ty.startswith("core::result::Result<"):
                                v = ("enum", "core::result::Result", "Err")
                            elif ty.startswith("core::option::Option<"):
                                v = ("enum", "core::option::Option", "None")
                        fnc = (call_values.get(name) if call_values else None) or STD_VALUES.get(name)
                        if fnc and v is UNK:
                            args = [_operand(env, a) for a in t["args"]]
                            if all(a is not UNK for a in args):
                                try:
                                    v = fnc(*args)
                                except (KeyError, TypeError, IndexError):
                                    v = UNK
                    if v is UNK:
                        env.pop(dl, None)
                    else:
                        env[dl] = v
            if t.get("target") is not None:
                stack.append((t["target"], env))
        elif k == "switch":
            v = _operand(env, t["op"])
            if v is UNK:
                undecided[0] = True
                for s in fn.succs(bb):
                    stack.append((s, env))
            else:
                iv = int(v) if isinstance(v, bool) else v
                tgt = t["otherwise"]
                for val, b in t["targets"]:
                    if val == iv:
                        tgt = b
                stack.append((tgt, env))
        elif k == "assert":
            stack.append((t["target"], env))
        elif k in ("goto", "drop"):
            stack.append((t["target"], env))
        elif k == "return" and on_return is not None:
            on_return(env)
    return reached, undecided[0]
