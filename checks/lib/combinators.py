"""Reduction of std Option / Result combinator calls on provenance terms (DESIGN 3.12).

`x.map(f).ok_or(e)`, `r.map_err(g)`, `o.map_or(d, f)`, `o.unwrap_or(d)`, `o.and_then(f)` ... say the same thing as a
`match`, so a rule must not care which one the source uses.  reduce(prog, t) turns a term into a list of cases

    [(extra conditions, value term)]

where every value is either a constructor (`Some(v)`, `None`, `Ok(v)`, `Err(e)`) or an opaque term, and the
conditions have the form (subject term, 'variant', frozenset({'Some'})) - the same triples path conditions use,
understood by guards.cond_variants.  The meaning of each combinator is its documented contract (trusted base); a
function argument must be an enum constructor or a single-expression closure (codec.apply_fn), otherwise the term is
left alone.
"""
from .prov import is_call, subterms

OPT = "core::option::Option::<T>::"
OPT_RES = "core::option::Option::<core::result::Result<T, E>>::"
RES = "core::result::Result::<T, E>::"
OPTION = "core::option::Option"
RESULT = "core::result::Result"


def some(v):
    return ("aggr", OPTION, "Some", (("0", v),))


NONE = ("aggr", OPTION, "None", ())


def ok(v):
    return ("aggr", RESULT, "Ok", (("0", v),))


def err(e):
    return ("aggr", RESULT, "Err", (("0", e),))


def payload(t, variant):
    # the payload of a value that says itself which variant it is: `(phi{Some(x) | None} as Some).0` is x
    if t[0] == "phi":
        same = [x for x in t[1] if _is_ctor_of(x, variant)]
        other = [x for x in t[1] if not _is_ctor_of(x, variant) and not _is_other_ctor(x, variant)]
        if len(same) == 1 and not other and same[0][3]:
            return same[0][3][0][1]
        if not same and len(other) == 1:
            # `phi{v.pop() | None}` seen as Some: the literal None arm is not that value
            return payload(other[0], variant)
    elif _is_ctor_of(t, variant) and t[3]:
        return t[3][0][1]
    if variant == "Ok":
        return ("tryok", t)        # the same value `t?` denotes
    return ("field", ("variant", t, variant), "0")


def _is_ctor_of(t, variant):
    return t[0] == "aggr" and t[1] in (OPTION, RESULT) and t[2] == variant


def _is_other_ctor(t, variant):
    if variant in ("Ok", "Some") and t[0] == "call" and t[1] == "core::ops::try_trait::FromResidual::from_residual":
        return True     # the early return of a `?` inside an inlined helper: an Err / None, whatever it carries
    return t[0] == "aggr" and t[1] in (OPTION, RESULT) and t[2] != variant


def _ctor(t):
    """(adt, variant, payload or None) if t is a literal Option / Result constructor"""
    if t[0] == "aggr" and t[1] in (OPTION, RESULT):
        return t[1], t[2], (t[3][0][1] if t[3] else None)
    return None


def _apply(prog, f, args):
    from .codec import apply_fn
    return apply_fn(prog, f, args)


# combinator -> (type of the receiver, function(prog, variant, payload, other args) -> result term or None)
def _rules():
    R = {}

    def opt(name):
        def deco(fn):
            R[OPT + name] = (OPTION, fn)
            return fn
        return deco

    def res(name):
        def deco(fn):
            R[RES + name] = (RESULT, fn)
            return fn
        return deco

    @opt("map")
    def _(prog, var, p, a):
        if var == "None":
            return NONE
        v = _apply(prog, a[0], [p])
        return some(v) if v else None

    @opt("ok_or")
    def _(prog, var, p, a):
        return ok(p) if var == "Some" else err(a[0])

    @opt("ok_or_else")
    def _(prog, var, p, a):
        if var == "Some":
            return ok(p)
        e = _apply(prog, a[0], [])
        return err(e) if e else None

    @opt("map_or")
    def _(prog, var, p, a):
        return a[0] if var == "None" else _apply(prog, a[1], [p])

    @opt("map_or_else")
    def _(prog, var, p, a):
        return _apply(prog, a[0], []) if var == "None" else _apply(prog, a[1], [p])

    @opt("unwrap_or")
    def _(prog, var, p, a):
        return p if var == "Some" else a[0]

    @opt("unwrap_or_default")
    def _(prog, var, p, a):
        return p if var == "Some" else ("call", "core::default::Default::default", ())

    @opt("unwrap_or_else")
    def _(prog, var, p, a):
        return p if var == "Some" else _apply(prog, a[0], [])

    @opt("and_then")
    def _(prog, var, p, a):
        return NONE if var == "None" else _apply(prog, a[0], [p])

    @opt("transpose")
    def _(prog, var, p, a):
        # Option<Result<T, E>> -> Result<Option<T>, E>
        if var == "None":
            return ok(NONE)
        return ("call", RES + "map", (p, ("fn", OPTION + "::Some", OPTION + "::Some")))

    @opt("or")
    def _(prog, var, p, a):
        return some(p) if var == "Some" else a[0]

    @opt("filter")
    def _(prog, var, p, a):
        # `o.filter(pred)`: Some(x) stays iff pred(&x) - two cases under the predicate's value
        if var == "None":
            return NONE
        c = _apply(prog, a[0], [("ref", p, False)])
        if c is None:
            return None
        return ("cases", (((c, "eq", 1),), some(p)), (((c, "eq", 0),), NONE))

    @res("map")
    def _(prog, var, p, a):
        if var == "Err":
            return err(p)
        v = _apply(prog, a[0], [p])
        return ok(v) if v else None

    @res("map_err")
    def _(prog, var, p, a):
        if var == "Ok":
            return ok(p)
        e = _apply(prog, a[0], [p])
        return err(e) if e else None

    @res("and_then")
    def _(prog, var, p, a):
        return err(p) if var == "Err" else _apply(prog, a[0], [p])

    @res("ok")
    def _(prog, var, p, a):
        return some(p) if var == "Ok" else NONE

    @res("unwrap_or")
    def _(prog, var, p, a):
        return p if var == "Ok" else a[0]

    @res("or_else")
    def _(prog, var, p, a):
        return ok(p) if var == "Ok" else _apply(prog, a[0], [p])
    return R


RULES = _rules()
RULES[OPT_RES + "transpose"] = RULES[OPT + "transpose"]
VARIANTS = {OPTION: ("Some", "None"), RESULT: ("Ok", "Err")}


def is_combinator(t):
    return is_call(t) and t[1] in RULES and len(t[2]) >= 1


def reduce(prog, t, depth=0):
    """[(conds, value)]; a term that is not a combinator call reduces to itself with no conditions"""
    if not is_combinator(t) or depth > 6:
        return [((), t)]
    adt, rule = RULES[t[1]]
    recv, rest = t[2][0], list(t[2][1:])
    out = []
    for c0, v0 in reduce(prog, recv, depth + 1):
        k = _ctor(v0)
        if k and k[0] == adt:
            splits = [((), k[1], k[2])]
        else:
            splits = [(((v0, "variant", frozenset([var])),), var, payload(v0, var) if var not in ("None",) else None)
                      for var in VARIANTS[adt]]
        for c1, var, p in splits:
            try:
                r = rule(prog, var, p, rest)
            except (IndexError, TypeError):
                r = None
            if r is None:
                return [((), t)]     # a function argument we cannot look into: leave the whole term alone
            alts = [((), r)] if r[0] != "cases" else list(r[1:])
            for ca, ra in alts:
                for c2, v2 in reduce(prog, ra, depth + 1):
                    out.append((tuple(c0) + tuple(c1) + tuple(ca) + tuple(c2), v2))
    return out


def has_combinator(t):
    return any(is_combinator(s) for s in subterms(t))
