"""Sequence values (DESIGN 3.14): what are the elements of this Vec, in which order, as a function of what?

Many rules ask the same question in different places: the `crit` list is the entry's array decoded element by
element; the KDF context's trailing byte strings are slots 4.. of the input in wire order; the extras of an encoder
are the `rest` list in list order; `try_as_array_then_convert(f)` is `f` over the array.  The source can say this with
a `for` loop and `push`, with `extend`, with `into_iter().map(f).collect()`, with `split_off` + a reversed loop + a
final `reverse()`, ... - and a rule that recognises one spelling raises a false alarm on the others.

This module computes a SEQUENCE TERM for a Vec-valued local at a program point:

    ('empty',)                         no elements
    ('lit', (t1, .., tn))              exactly these values
    ('elems', T, lo, hi)               the elements lo..hi (hi None = end) of the collection denoted by term T
    ('map', F, S)                      F applied to every element of S in order; F is a term over the hole ('x',)
                                       (a `?` inside F aborts the whole function on the first failing element)
    ('rev', S)                         S reversed
    ('cat', (S1, .., Sn))              concatenation
    ('unknown', why)                   anything else

from the Vec's root definition (Vec::new, vec![..], collect(), split_off(), a helper's result, a field / parameter)
and the operations applied to it up to that point (push outside loops, push inside a loop that advances one
iterator once per iteration, extend, reverse).  Terms are normalised (rev pushed inwards, cat flattened), so
`for i in (4..a.len()).rev() { v.push(f(a.remove(i))?) }; v.reverse()` and `a.split_off(4).into_iter().map(f).collect()`
both come out as ('map', f, ('elems', a, 4, None)).
"""
from .facts import callee_path
from .prov import Prov, is_call, subterms, show
from .guards import conditions
from . import veclen as VL

INTO_ITER = "core::iter::traits::collect::IntoIterator::into_iter"
ITER_NEXT = "core::iter::traits::iterator::Iterator::next"
ITER_REV = "core::iter::traits::iterator::Iterator::rev"
ITER_MAP = "core::iter::traits::iterator::Iterator::map"
ITER_COLLECT = "core::iter::traits::iterator::Iterator::collect"
FROM_ITER = "core::iter::traits::collect::FromIterator::from_iter"
ITER_BYREF = ("core::iter::traits::iterator::Iterator::by_ref", "core::iter::traits::iterator::Iterator::cloned",
              "core::iter::traits::iterator::Iterator::copied")
SLICE_ITER = ("core::slice::<impl [T]>::iter", "alloc::vec::Vec::<T, A>::iter")
EXTEND = "core::iter::traits::collect::Extend::extend"
SET_INSERT = "alloc::collections::btree::set::BTreeSet::<T, A>::insert"
VEC_WITH_CAPACITY = "alloc::vec::Vec::<T>::with_capacity"
SPLIT_OFF = "alloc::vec::Vec::<T, A>::split_off"
DRAIN = "alloc::vec::Vec::<T, A>::drain"
BOX_VEC = "alloc::boxed::box_assume_init_into_vec_unsafe"
ITER_CHAIN = "core::iter::traits::iterator::Iterator::chain"
ITER_ONCE = "core::iter::sources::once::once"
ITER_EMPTY = "core::iter::sources::empty::empty"
OPTION = "core::option::Option"
TRY_ARRAY = "<ciborium::value::Value as util::ValueTryAs>::try_as_array"
TRY_ARRAY_CONVERT = "<ciborium::value::Value as util::ValueTryAs>::try_as_array_then_convert"
TO_ARRAY = "util::to_cbor_array"
TRY_BRANCH = "core::ops::try_trait::Try::branch"
X = ("x",)
NEVER = (("never",), "eq", 1)      # a condition that is statically false
CAPACITY_ONLY = {"alloc::vec::Vec::<T, A>::reserve", "alloc::vec::Vec::<T, A>::reserve_exact", "alloc::vec::Vec::<T, A>::shrink_to_fit",
                 "alloc::vec::Vec::<T, A>::shrink_to"}


def unknown(why):
    return ("unknown", why)


def is_unknown(s):
    return any(isinstance(x, tuple) and x and x[0] == "unknown" for x in _walk(s))


def _walk(s):
    yield s
    if s[0] == "map":
        yield from _walk(s[2])
    elif s[0] == "rev":
        yield from _walk(s[1])
    elif s[0] == "opt":
        yield from _walk(s[2])
    elif s[0] == "cat":
        for x in s[1]:
            yield from _walk(x)


def subst_hole(t, x, by=X):
    """replace every occurrence of subterm x in t"""
    if t == x:
        return by
    if not isinstance(t, tuple) or not t:
        return t
    k = t[0]
    if k == "call":
        return ("call", t[1], tuple(subst_hole(a, x, by) for a in t[2])) + tuple(t[3:])
    if k == "aggr":
        return ("aggr", t[1], t[2], tuple((f, subst_hole(v, x, by)) for f, v in t[3]))
    if k in ("tuple", "array"):
        return (k, tuple(subst_hole(v, x, by) for v in t[1]))
    if k in ("field", "variant"):
        return (k, subst_hole(t[1], x, by), t[2])
    if k in ("deref", "tryok", "discr"):
        r = subst_hole(t[1], x, by)
        if k == "deref" and r[0] == "ref":
            return r[1]         # `*&a` is a
        return (k, r)
    if k == "ref":
        return (k, subst_hole(t[1], x, by)) + tuple(t[2:])
    if k == "cast":
        return (k, t[1], subst_hole(t[2], x, by), t[3])
    if k == "phi":
        from .prov import mk_phi
        return mk_phi([subst_hole(v, x, by) for v in t[1]])
    return t


def strip_sites_f(t):
    """sequence terms keep the call sites of the terms inside them (rules need them to resolve generic callees);
    use strip_seq() before comparing with a site-free expectation"""
    return t


def strip_seq(s):
    from .prov import strip_sites
    k = s[0]
    if k == "lit":
        return ("lit", tuple(strip_sites(x) for x in s[1]))
    if k == "elems":
        return ("elems", strip_sites(s[1]), s[2], s[3])
    if k == "map":
        return ("map", strip_sites(s[1]), strip_seq(s[2]))
    if k == "rev":
        return ("rev", strip_seq(s[1]))
    if k == "opt":
        return ("opt", tuple((strip_sites(c[0]), c[1], c[2]) for c in s[1]), strip_seq(s[2]))
    if k == "cat":
        return ("cat", tuple(strip_seq(x) for x in s[1]))
    return s


def normalize(s):
    k = s[0]
    if k == "rev":
        inner = normalize(s[1])
        if inner[0] == "rev":
            return inner[1]
        if inner[0] == "map":
            return ("map", inner[1], normalize(("rev", inner[2])))
        if inner[0] == "lit":
            return ("lit", tuple(reversed(inner[1])))
        if inner[0] == "empty":
            return inner
        if inner[0] == "cat":
            return normalize(("cat", tuple(("rev", x) for x in reversed(inner[1]))))
        if inner[0] == "opt":
            return ("opt", inner[1], normalize(("rev", inner[2])))
        return ("rev", inner)
    if k == "map":
        inner = normalize(s[2])
        if inner[0] == "empty":
            return inner
        if inner[0] == "map":
            return ("map", subst_hole(s[1], X, inner[1]), inner[2])     # f . g
        if inner[0] == "lit":
            return ("lit", tuple(subst_hole(s[1], X, v) for v in inner[1]))
        return ("map", s[1], inner)
    if k == "opt":
        inner = normalize(s[2])
        if inner[0] == "empty":
            return inner
        if NEVER in s[1]:
            return ("empty",)
        if not s[1]:
            return inner
        return ("opt", tuple(s[1]), inner)
    if k == "cat":
        parts = []
        for x in s[1]:
            x = normalize(x)
            if x[0] == "empty":
                continue
            if x[0] == "cat":
                parts.extend(x[1])
            elif x[0] == "lit" and parts and parts[-1][0] == "lit":
                parts[-1] = ("lit", parts[-1][1] + x[1])
            else:
                parts.append(x)
        if not parts:
            return ("empty",)
        if len(parts) == 1:
            return parts[0]
        return ("cat", tuple(parts))
    return s


def show_seq(s):
    k = s[0]
    if k == "empty":
        return "[]"
    if k == "lit":
        return "[%s]" % ", ".join(show(x)[:60] for x in s[1])
    if k == "elems":
        rng = "" if (s[2] == 0 and s[3] is None) else "[%s..%s]" % (s[2], "" if s[3] is None else s[3])
        return "elems(%s)%s" % (show(s[1])[:80], rng)
    if k == "map":
        return "map(x -> %s, %s)" % (show(s[1])[:100], show_seq(s[2]))
    if k == "rev":
        return "rev(%s)" % show_seq(s[1])
    if k == "opt":
        return "(%s if %s)" % (show_seq(s[2]), " && ".join("%s %s %s" % (show(c[0])[:50], c[1], sorted(c[2]) if isinstance(c[2], (set, frozenset)) else c[2]) for c in s[1]))
    if k == "cat":
        return " ++ ".join(show_seq(x) for x in s[1])
    return "?(%s)" % (s[1],)


class Seq:
    def __init__(self, fn, pv=None, vl=None):
        self.fn = fn
        self.prog = fn.prog
        self.pv = pv or Prov(fn)
        self._vl = vl
        self._loops = dict(fn.cfg.loops())
        self.origins = {}     # literal element term -> (operand, (bb, idx)) it was read from (for rules that need its definitions)

    @property
    def vl(self):
        if self._vl is None:
            self._vl = VL.VecLen(self.fn)
        return self._vl

    # ---- iterators ------------------------------------------------------------------------------------------
    def of_iter(self, it, depth=0, at=None):
        """sequence an iterator value term yields"""
        from .codec import apply_fn
        while it[0] in ("ref", "deref"):
            it = it[1]
        if depth > 10:
            return unknown("iterator chain too deep")
        if is_call(it, INTO_ITER) or (is_call(it) and it[1] in SLICE_ITER):
            src = it[2][0]
            through_ref = False
            while src[0] in ("ref", "deref") or (src[0] == "cast" and src[1] == "PointerCoercion"):
                through_ref = through_ref or src[0] == "ref"
                src = src[1] if src[0] != "cast" else src[2]
            if src[0] == "array":
                # `[a, b].iter()` / `(&[a, b]).into_iter()` yield references to exactly these values, `[a, b].into_iter()` the values
                byref = it[1] in SLICE_ITER or through_ref
                return ("lit", tuple(("ref", x, False) if byref else x for x in src[1]))
            return self.of_value(it[2][0], depth + 1, at)
        if is_call(it) and it[1] in ITER_BYREF:
            return self.of_iter(it[2][0], depth + 1, at)
        if is_call(it, ITER_REV):
            return ("rev", self.of_iter(it[2][0], depth + 1, at))
        if is_call(it, ITER_MAP) and len(it[2]) == 2:
            f = apply_fn(self.prog, it[2][1], [X])
            if f is None and it[2][1][0] == "fn":
                f = ("call", it[2][1][2], (X,), ("<fn-item>", it[2][1][1]))    # a named function used as the mapper
            if f is None and it[2][1][0] == "param":
                f = ("call", "<apply>", (it[2][1], X))      # a caller-supplied function: `f(x)`, whatever f is
            if f is None:
                return unknown("mapper %s" % show(it[2][1])[:60])
            return ("map", strip_sites_f(f), self.of_iter(it[2][0], depth + 1, at))
        if is_call(it, ITER_ONCE) and len(it[2]) == 1:
            site = it[3] if len(it) > 3 else None
            if site and site[0] == self.fn.key:
                self.origins.setdefault(it[2][0], (self.fn.blocks[site[1]]["term"]["args"][0], (site[1], "term")))
            return ("lit", (it[2][0],))
        if is_call(it, ITER_EMPTY):
            return ("empty",)
        if is_call(it, ITER_CHAIN) and len(it[2]) == 2:
            second = None
            site = it[3] if len(it) > 3 else None
            if site and site[0] == self.fn.key:
                second = self._option_operand(self.fn.blocks[site[1]]["term"]["args"][1], site[1])
            if second is None:
                second = self.of_iter(it[2][1], depth + 1, at)
            return ("cat", (self.of_iter(it[2][0], depth + 1, at), second))
        if is_call(it, DRAIN) or is_call(it, SPLIT_OFF):
            return self.of_value(it, depth + 1, at)
        o = self._option_term(it)
        if o is not None:
            return o
        # an Option used as a 0/1-element iterator, a Vec value, ...
        return self.of_value(it, depth + 1, at)

    # ---- an Option used as a 0/1-element collection ---------------------------------------------------------------
    def _option_term(self, t):
        """sequence of an Option-valued TERM (Some(x) -> [x], None -> [], combinators by cases), or None if t is not
        visibly an Option"""
        from . import combinators as cb
        while t[0] in ("ref", "deref"):
            t = t[1]
        if t[0] == "aggr" and t[1] == OPTION:
            return ("lit", (t[3][0][1],)) if t[2] == "Some" and t[3] else ("empty",)
        if cb.is_combinator(t) and cb.RULES[t[1]][0] == OPTION or (is_call(t) and t[1] in (cb.RES + "ok",)):
            cases = cb.reduce(self.prog, t)
            if len(cases) == 1 and cases[0][1] == t:
                return None
            parts = []
            for conds, v in cases:
                k = cb._ctor(v)
                if not k or k[0] != OPTION:
                    return None
                if k[1] == "Some":
                    parts.append(("opt", tuple(conds), ("lit", (k[2],))))
            return ("cat", tuple(parts)) if parts else ("empty",)
        if t[0] == "phi" and all(isinstance(x, tuple) and x[0] == "aggr" and x[1] == OPTION for x in t[1]):
            somes = [x for x in t[1] if x[2] == "Some"]
            if len(somes) == 1:
                # which path built the Some is not visible in a term: conditions unknown
                return ("opt", ((somes[0], "some-arm", ()),), ("lit", (somes[0][3][0][1],)))
        return None

    def _option_operand(self, op, bb):
        """like _option_term for an OPERAND of Option type: the definitions of the local, each with the decisions that
        select it (relative to the operand's use)"""
        if op["k"] not in ("copy", "move") or op["place"]["p"]:
            return None
        ty = self.fn.local_ty(op["place"]["l"])
        if not ty.startswith(OPTION + "<"):
            return None
        from .codec import arms
        base = conditions(self.fn, self.pv, bb)
        parts = []
        for term, dbb in arms(self.pv, op, bb, "term"):
            extra = tuple(c for c in conditions(self.fn, self.pv, dbb) if c not in base
                          and not (c[0][0] == "discr" and is_call(c[0][1], TRY_BRANCH)))
            s = self._option_term(term)
            if s is None:
                return None
            parts.append(("opt", extra, s))
        return normalize(("cat", tuple(parts)))

    # ---- values ---------------------------------------------------------------------------------------------
    def of_value(self, t, depth=0, at=None):
        """sequence denoted by a collection-valued provenance term"""
        while t[0] in ("ref", "deref"):
            t = t[1]
        if depth > 10:
            return unknown("too deep")
        if t[0] == "tryok":
            inner = t[1]
            if is_call(inner, ITER_COLLECT) or is_call(inner, FROM_ITER):
                return self._lift_try(self.of_iter(inner[2][0], depth + 1, at))
            if is_call(inner, TRY_ARRAY_CONVERT) and len(inner[2]) == 2:
                return self._convert(inner, depth)
            if is_call(inner, TO_ARRAY) and len(inner[2]) == 1:
                return ("map", ("tryok", ("call", "common::AsCborValue::to_cbor_value", (X,))), self.of_value(inner[2][0], depth + 1, at))
            if is_call(inner, TRY_ARRAY):
                return ("elems", strip_sites_f(t), 0, None)
            return ("elems", strip_sites_f(t), 0, None)
        if is_call(t, ITER_COLLECT) or is_call(t, FROM_ITER):
            return self.of_iter(t[2][0], depth + 1, at)
        if is_call(t) and (t[1] in (INTO_ITER, ITER_REV, ITER_MAP) or t[1] in ITER_BYREF or t[1] in SLICE_ITER):
            return self.of_iter(t, depth + 1, at)    # an iterator used where a collection is expected (`for x in it.rev()`)
        if is_call(t) and t[1] in (VL.VEC_NEW, VEC_WITH_CAPACITY, BOX_VEC):
            # a vector created in this function: its creation says nothing about what was pushed since - follow the local
            site = t[3] if len(t) > 3 else None
            if site and site[0] == self.fn.key and at is not None:
                dest = self.fn.blocks[site[1]]["term"]["dest"]
                if not dest["p"]:
                    return self.of_local(dest["l"], at[0], at[1], depth + 1)
            return unknown("a vector built in this function, seen only through its creation")
        if is_call(t) and t[1] in (SPLIT_OFF, DRAIN) and len(t) > 3 and t[3] and t[3][0] == self.fn.key:
            return self._split(t)
        if t[0] in ("phi", "loop", "undef"):
            return unknown("several definitions")
        return ("elems", strip_sites_f(t), 0, None)

    def _lift_try(self, s):
        """collect::<Result<Vec<_>, _>>() of a sequence of Results: the Ok payloads (first Err aborts)"""
        from .prov import mk_tryok
        s = normalize(s)
        if s[0] == "map":
            return ("map", mk_tryok(self.prog, s[1]), s[2])
        return ("map", ("tryok", X), s)

    def _convert(self, call, depth):
        from .codec import apply_fn
        v, f = call[2]
        body = apply_fn(self.prog, f, [X])
        if body is None and f[0] == "fn":
            body = ("call", f[2], (X,), ("<fn-item>", f[1]))
        if body is None:
            return unknown("converter %s" % show(f)[:60])
        return ("map", ("tryok", strip_sites_f(body)), ("elems", ("field", ("variant", strip_sites_f(v), "Array"), "0"), 0, None))

    def _split(self, t):
        """v.split_off(k) / v.drain(k..): elements k.. of v as it was at that point"""
        bb = t[3][1]
        term = self.fn.blocks[bb]["term"]
        lv = self.pv._borrowed_lvalue(term["args"][0], bb)
        k = None
        a1 = self.pv.operand_term(term["args"][1], bb, "term")
        if a1[0] == "const" and isinstance(a1[1], int):
            k = a1[1]
        elif a1[0] == "aggr" and a1[1] in ("core::ops::range::RangeFrom",) and a1[3] and a1[3][0][1][0] == "const":
            k = a1[3][0][1][1]
        if lv[0] != "local" or k is None:
            return unknown("split point / vector of %s" % t[1].split("::")[-1])
        base = self.of_local(lv[1], bb, "term")
        return _slice(base, k, None)

    # ---- locals ---------------------------------------------------------------------------------------------
    def of_operand(self, op, bb, idx):
        if op["k"] in ("copy", "move") and not op["place"]["p"]:
            return self.of_local(op["place"]["l"], bb, idx)
        return self.of_value(self.pv.operand_term(op, bb, idx), 0, (bb, idx))

    def of_local(self, l, bb, idx, depth=0):
        """sequence held by Vec local l just before (bb, idx)"""
        fn, pv, cfg = self.fn, self.pv, self.fn.cfg
        if depth > 8:
            return unknown("alias chain")
        # root definition through plain moves; remember the aliases
        aliases = [l]
        cur = (l, bb, idx)
        root = None
        for _ in range(10):
            ds = list(pv.reaching(cur[0], cur[1], cur[2]))
            if len(ds) > 1 and -1 in ds and not (1 <= cur[0] <= fn.arg_count):
                ds = [d for d in ds if d != -1]      # not yet initialised on some other path: the value, if any, is this one
            if len(ds) != 1:
                return unknown("several definitions of the vector")
            if ds[0] == -1:
                if 1 <= cur[0] <= fn.arg_count:
                    root = ("param", cur[0] - 1, None)
                    break
                return unknown("vector not initialised")
            dl, dbb, didx, payload = pv._defs[ds[0]]
            if didx != "term" and payload["k"] == "use" and payload["op"]["k"] in ("copy", "move") and not payload["op"]["place"]["p"]:
                cur = (payload["op"]["place"]["l"], dbb, didx)
                aliases.append(cur[0])
                continue
            root = ("def", ds[0], dbb)
            break
        if root is None:
            return unknown("alias chain")
        if root[0] == "param":
            base = ("elems", ("param", root[1]), 0, None)
            root_bb = 0
        else:
            dl, dbb, didx, payload = pv._defs[root[1]]
            root_bb = dbb
            if didx == "term":
                name = callee_path(payload)
                if name == BOX_VEC:
                    base = self._vec_literal(payload, dbb)
                elif name in (VL.VEC_NEW, VEC_WITH_CAPACITY):
                    base = ("empty",)
                else:
                    base = self.of_value(pv.call_term(dbb), depth + 1, (dbb, "term"))
            else:
                base = self.of_value(pv.def_term(root[1]), depth + 1, (dbb, didx))
        # operations on the vector between its root and the point of interest, in program (RPO) order
        order = {b: i for i, b in enumerate(cfg.rpo)}
        here = order.get(bb, 10 ** 6)
        names = {("local", a, fn.local_name(a)) for a in aliases}
        ops = []
        for e in pv.effects():
            if e["kind"] != "call" or e["argi"] != 0:
                continue
            place = e["place"]
            if place[0] == "deref" and is_call(place[1], VL.DEREF_MUT) and place[1][3] and place[1][3][0] == fn.key:
                # `v.reverse()` is `<[T]>::reverse(&mut *Vec::deref_mut(&mut v))`: the slice view of the vector
                dbb = place[1][3][1]
                place = pv._borrowed_lvalue(fn.blocks[dbb]["term"]["args"][0], dbb)
            if place not in names:
                continue
            if e["callee"] in VL.READ_ONLY:
                continue
            if not (cfg.dominates(root_bb, e["bb"]) or root_bb == e["bb"]):
                continue
            pos = order.get(e["bb"], 10 ** 6)
            if pos > here or (pos == here and e["bb"] == bb and idx == "term"):
                # an operation in the same block as a use at the terminator IS the use itself (or later)
                if not (pos < here):
                    continue
            ops.append((pos, e))
        ops.sort(key=lambda x: x[0])
        cur = base
        for _, e in ops:
            cur = self._apply(cur, e, root_bb)
            if cur[0] == "unknown":
                return cur
        return normalize(cur)

    def contribution(self, effects, ref_bb):
        """what a group of effects on ONE vector place (e.g. the arm of a dispatch that fills `result.crit`) appends to it:
        the sequence obtained by applying them, in program order, to the empty sequence.  Decisions between ref_bb and
        the effects (the dispatch itself) are the caller's business; decisions inside inner loops still count."""
        order = {b: i for i, b in enumerate(self.fn.cfg.rpo)}
        cur = ("empty",)
        for e in sorted(effects, key=lambda e: order.get(e["bb"], 10 ** 6)):
            if e["kind"] != "call":
                return unknown("assignment")
            cur = self._apply(cur, e, ref_bb, strict=False)
            if cur[0] == "unknown":
                return cur
        return normalize(cur)

    def _vec_literal(self, call, bb):
        pv = self.pv
        boxt = pv.operand_term(call["args"][0], bb, "term")
        for e in pv.effects():
            if e["kind"] == "assign" and e["value"][0] == "array":
                base = e["place"]
                while base[0] == "field":
                    base = base[1]
                if base == ("deref", boxt) or base == boxt or (base[0] == "deref" and base[1] == boxt):
                    st = self.fn.blocks[e["bb"]]["stmts"][e["idx"]]
                    for x, o in zip(e["value"][1], st["rv"]["ops"]):
                        self.origins.setdefault(x, (o, (e["bb"], e["idx"])))
                    return ("lit", tuple(e["value"][1]))
        return unknown("vec![..] literal not found")

    def _apply(self, cur, e, root_bb, strict=True):
        fn, pv, cfg = self.fn, self.pv, self.fn.cfg
        name = e["callee"]
        t = fn.blocks[e["bb"]]["term"]
        loops_e = [h for h in cfg.in_loop(e["bb"]) if root_bb not in self._loops[h]]
        if name in (VL.VEC_PUSH, SET_INSERT):
            # (an insert into a set is a push for the purpose of "which elements, derived how"; order is the consumer's call)
            v = pv.operand_term(t["args"][1], e["bb"], "term")
            if not loops_e:
                extra = self._extra_conds(e["bb"], root_bb) if strict else ()
                self.origins.setdefault(v, (t["args"][1], (e["bb"], "term")))
                return ("cat", (cur, ("opt", extra, ("lit", (v,)))))
            if len(loops_e) > 1:
                return unknown("push in a nested loop")
            return ("cat", (cur, self._loop_push(loops_e[0], e["bb"], v)))
        if name == EXTEND:
            if loops_e:
                return unknown("extend in a loop")
            extra = self._extra_conds(e["bb"], root_bb) if strict else ()
            src = pv.operand_term(t["args"][1], e["bb"], "term")
            if src[0] == "array":
                return ("cat", (cur, ("opt", extra, ("lit", tuple(src[1])))))
            o = self._option_operand(t["args"][1], e["bb"])
            if o is None:
                o = self.of_iter(src, 0, (e["bb"], "term"))
            return ("cat", (cur, ("opt", extra, o)))
        if name == VL.VEC_REVERSE or name == "core::slice::<impl [T]>::reverse":
            if loops_e:
                return unknown("reverse in a loop")
            return ("rev", cur)
        if name in (VL.DEREF_MUT,) or name in CAPACITY_ONLY:
            return cur          # changes the allocation, not the elements
        if name == SPLIT_OFF:
            a1 = pv.operand_term(t["args"][1], e["bb"], "term")
            if a1[0] == "const" and isinstance(a1[1], int) and not loops_e:
                return _slice(cur, 0, a1[1])
            return unknown("split_off")
        return unknown("operation %s on the vector" % (name or "?").split("::")[-1])

    def _extra_conds(self, bb, ref_bb):
        """decisions taken between ref_bb and bb, `?` success edges excluded; a decision on a literal (`if let Some(s) = None`
        after a constant argument reached an inlined helper) is evaluated: true ones are dropped, a false one makes the
        whole condition ('never',)"""
        base = conditions(self.fn, self.pv, ref_bb)
        out = []
        for c in conditions(self.fn, self.pv, bb):
            if c in base or (c[0][0] == "discr" and is_call(c[0][1], TRY_BRANCH)):
                continue
            s = self._static(c)
            if s is True:
                continue
            if s is False:
                return (NEVER,)
            out.append(c)
        return tuple(out)

    def _static(self, c):
        subj, op, val = c
        if subj[0] != "const_variant":
            return None
        names = self.prog.enums.get(subj[1]) or {}
        d = [k for k, n in names.items() if n == subj[2]]
        if len(d) != 1:
            return None
        d = d[0]
        if op == "eq":
            return d == val
        if op == "in":
            return d in val
        if op == "ne":
            return d not in val
        return None

    def _conditional(self, bb, ref_bb, header=None):
        """does reaching bb from ref_bb depend on a decision other than a `?` succeeding (and, inside a loop, the
        iterator yielding an element)?  Decisions already taken when ref_bb was reached do not count."""
        base = conditions(self.fn, self.pv, ref_bb)
        body = self._loops.get(header) if header is not None else None
        for c in conditions(self.fn, self.pv, bb):
            if c in base:
                continue
            subj = c[0]
            if subj[0] == "discr" and is_call(subj[1], TRY_BRANCH):
                continue
            if body is not None and subj[0] == "discr" and is_call(subj[1], ITER_NEXT) and subj[1][3] and subj[1][3][1] in body:
                continue
            return True
        return False

    def _other_sides_fail(self, push_bb, header):
        """every decision between the loop header and the push has, on its other sides, only failure: no success exit of the
        function and no further iteration is reachable from them (`match f(x) { Ok(v) => out.push(v), Err(_) => return Err(..) }`
        is `out.push(f(x)?)` with its own error).  Failure-following reachability (DESIGN 3.18)."""
        from .guards import reach_tracking_failures, outcomes
        fn, pv = self.fn, self.pv
        body = self._loops[header]
        oks = {o["bb"] for o in outcomes(fn, pv) if o["kind"] in ("ok", "value", "call", "some")}
        chain = fn.cfg.dom_chain(push_bb)
        for i in range(len(chain) - 1):
            child, d = chain[i], chain[i + 1]
            if d == header or d not in body:
                break
            t = fn.blocks[d]["term"]
            if t["k"] != "switch":
                continue
            subj = pv.operand_term(t["op"], d, "term")
            if subj[0] == "discr" and (is_call(subj[1], TRY_BRANCH) or is_call(subj[1], ITER_NEXT)):
                continue
            for s2 in set(fn.cfg.succ[d]):
                if s2 == child or fn.cfg.dominates(s2, push_bb):
                    continue
                seen = reach_tracking_failures(fn, s2, {push_bb})
                if seen & oks or header in seen:
                    return False
        return True

    def _loop_push(self, header, push_bb, v):
        """contribution of `push(v)` executed in loop `header`: map(F, S) if the loop advances one iterator over S once per
        iteration and pushes exactly once per iteration"""
        fn, pv = self.fn, self.pv
        body = self._loops[header]
        nexts = [(bb, t) for bb, t in fn.calls() if bb in body and callee_path(t) == ITER_NEXT and fn.cfg.in_loop(bb) and fn.cfg.in_loop(bb)[-1] == header]
        if len(nexts) != 1:
            return unknown("loop does not advance exactly one iterator")
        nbb, nt = nexts[0]
        if not fn.cfg.dominates(nbb, push_bb):
            return unknown("push not dominated by the iterator step")
        if self._conditional(push_bb, header, header) and not self._other_sides_fail(push_bb, header):
            return unknown("push under a condition inside the loop")
        # the back edge must be reachable only through the push (exactly once per iteration)
        latches = [p for p in fn.cfg.pred[header] if p in body]
        from .guards import back_edges_taken
        if set(back_edges_taken(fn, header, {push_bb}, header)) & set(latches):
            return unknown("an iteration can skip the push")
        nterm = pv.call_term(nbb)
        x = ("field", ("variant", nterm, "Some"), "0")
        recv = pv.operand_term(nt["args"][0], nbb, "term")
        it = recv[1] if recv[0] == "ref" else recv
        # index-driven reverse tail drain: the element is v.remove(i) with i from (K..len).rev()
        drain = None
        for s in subterms(v):
            if is_call(s, VL.VEC_REMOVE) and len(s) > 3 and s[3] and s[3][1] in self.vl.drains:
                drain = (s, self.vl.drains[s[3][1]])
        if drain is not None:
            s, d = drain
            rterm = fn.blocks[s[3][1]]["term"]
            lv = pv._borrowed_lvalue(rterm["args"][0], s[3][1])
            if lv[0] != "local":
                return unknown("drained vector")
            src = self._source_before_loop(lv[1], header)
            F = strip_sites_f(subst_hole(v, s))
            return ("map", F, ("rev", _slice(src, d["K"], None)))
        S = self.of_iter(it, 0, (nbb, "term"))
        if not any(s == x for s in subterms(v)):
            return unknown("pushed value does not depend on the loop element")
        F = strip_sites_f(subst_hole(v, x))
        if any(is_call(s, ITER_NEXT) for s in subterms(F)):
            return unknown("pushed value uses the iterator beyond the current element")
        return ("map", F, S)

    def _source_before_loop(self, l, header):
        """sequence of local l on entry to the loop"""
        preds = [p for p in self.fn.cfg.pred[header] if p not in self._loops[header]]
        if len(preds) != 1:
            return unknown("loop entry")
        return self.of_local(l, preds[0], "term")


def _slice(s, lo, hi):
    s = normalize(s)
    if s[0] == "elems":
        nlo = s[2] + lo
        nhi = s[3] if hi is None else (s[2] + hi if s[3] is None else min(s[3], s[2] + hi))
        return ("elems", s[1], nlo, nhi)
    if s[0] == "lit":
        return ("lit", s[1][lo:hi])
    if s[0] == "empty":
        return s
    return unknown("slice of %s" % s[0])
