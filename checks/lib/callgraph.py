"""Crate-local call graph (DESIGN 3.3).

Nodes: keys of crate-local functions and closures.  Edges:
  * calls whose callee resolves to a crate-local function;
  * calls of a crate-local trait's method that stay generic (`T::from_i64`, `Self::from_cbor_value`
    in a default method): class-hierarchy expansion to every impl of that method in the crate and
    to the trait's own default body;
  * function items and closures mentioned as values (`.map(f)`, `try_as_array_then_convert(
    CoseRecipient::from_cbor_value)`): edge from the mentioning function ("may call").
Each edge remembers the call sites (bb) that create it.
"""
from .facts import callee_path


def _operands_of_block(b):
    for s in b["stmts"]:
        if s["k"] != "assign":
            continue
        rv = s["rv"]
        if "op" in rv and isinstance(rv["op"], dict):
            yield rv["op"], rv
        for key in ("a", "b"):
            if key in rv and isinstance(rv[key], dict):
                yield rv[key], rv
        for o in rv.get("ops", []) or []:
            yield o, rv
    t = b["term"]
    if t["k"] == "call":
        yield t["func"], None
        for a in t["args"]:
            yield a, None


class CallGraph:
    def __init__(self, prog):
        self.prog = prog
        self.edges = {}       # caller -> {callee -> [(kind, bb)]}
        self.ext_calls = {}   # caller -> [(callee path, bb)] for non-local callees
        self.trait_methods = {}
        for f in prog.fns.values():
            if f.impl_trait and f.kind == "AssocFn":
                self.trait_methods.setdefault((f.impl_trait, f.name), []).append(f.key)
        self.inst_def = {}    # instance node -> key of the generic definition it instantiates
        for f in prog.real_fns():
            self._scan(f)
        self._scan_instances()

    def _add(self, a, b, kind, bb):
        self.edges.setdefault(a, {}).setdefault(b, []).append((kind, bb))

    def cha_targets(self, trait, name):
        out = list(self.trait_methods.get((trait, name), []))
        dflt = "%s::%s" % (trait, name)
        if dflt in self.prog.fns and self.prog.fns[dflt].blocks:
            out.append(dflt)
        return out

    def _scan(self, f):
        fns = self.prog.fns
        for bi, b in enumerate(f.blocks):
            if b["cleanup"]:
                continue
            t = b["term"]
            if t["k"] == "call":
                c = t.get("callee")
                if c is None:
                    self.ext_calls.setdefault(f.key, []).append(("<indirect>", bi))
                else:
                    r = c.get("resolved")
                    if r and r.get("local") and r.get("instance") and r["instance"] in self.prog.instances and r["path"] in fns:
                        # monomorphic instance of a crate-local generic / default method: its own node
                        self.inst_def[r["instance"]] = r["path"]
                        self._add(f.key, r["instance"], "call", bi)
                    elif r and r.get("local") and r["path"] in fns:
                        self._add(f.key, r["path"], "call", bi)
                    elif c.get("local") and c.get("trait") in self.prog.traits and not (r and r.get("local")):
                        for tgt in self.cha_targets(c["trait"], c["name"]):
                            self._add(f.key, tgt, "cha", bi)
                    elif c.get("local") and c["path"] in fns:
                        self._add(f.key, c["path"], "call", bi)
                    else:
                        self.ext_calls.setdefault(f.key, []).append((callee_path(t), bi))
            for op, rv in _operands_of_block(b):
                if op.get("k") != "const":
                    continue
                if "fn" in op and op is not t.get("func"):
                    fr = op["fn"]
                    r = fr.get("resolved")
                    if r and r.get("local") and r["path"] in fns:
                        self._add(f.key, r["path"], "fnref", bi)
                    elif fr.get("local") and fr.get("trait") in self.prog.traits:
                        for tgt in self.cha_targets(fr["trait"], fr["name"]):
                            self._add(f.key, tgt, "fnref-cha", bi)
                    elif fr.get("local") and fr["path"] in fns:
                        self._add(f.key, fr["path"], "fnref", bi)
                if "closure" in op and op["closure"] in fns:
                    self._add(f.key, op["closure"], "closure", bi)
            for s in b["stmts"]:
                if s["k"] == "assign" and s["rv"]["k"] == "aggr" and s["rv"].get("kind") == "closure":
                    if s["rv"]["closure"] in fns:
                        self._add(f.key, s["rv"]["closure"], "closure", bi)

    def _scan_instances(self):
        fns = self.prog.fns
        for key, inst in self.prog.instances.items():
            self.inst_def.setdefault(key, inst["def"])
            for bbs, c in inst.get("calls", {}).items():
                bb = int(bbs)
                if c.get("instance") and c["instance"] in self.prog.instances:
                    self.inst_def.setdefault(c["instance"], c.get("rpath"))
                    self._add(key, c["instance"], "call", bb)
                elif c.get("rlocal") and c.get("rpath") in fns:
                    self._add(key, c["rpath"], "call", bb)
                elif "rpath" not in c and c.get("path"):
                    tr, _, name = c["path"].rpartition("::")
                    if tr in self.prog.traits:
                        for tgt in self.cha_targets(tr, name):
                            self._add(key, tgt, "cha", bb)
            for c in inst.get("fnrefs", []):
                if "closure" in c and c["closure"] in fns:
                    self._add(key, c["closure"], "closure", -1)
                elif c.get("instance") and c["instance"] in self.prog.instances:
                    self._add(key, c["instance"], "fnref", -1)
                elif c.get("rlocal") and c.get("rpath") in fns:
                    self._add(key, c["rpath"], "fnref", -1)

    def def_of(self, node):
        """key in prog.fns of the body a node executes"""
        return self.inst_def.get(node, node)

    def succ(self, a):
        return list(self.edges.get(a, {}).keys())

    def reachable(self, roots, stop=()):
        """nodes reachable from roots; the callees of a node in `stop` (compared by definition) are not followed"""
        seen = set()
        st = list(roots)
        while st:
            x = st.pop()
            if x in seen:
                continue
            seen.add(x)
            if stop and self.def_of(x) in stop:
                continue
            st.extend(self.succ(x))
        return seen

    def path(self, src, dst_pred):
        """shortest call path from src to a node satisfying dst_pred (list of keys) or None"""
        from collections import deque
        q = deque([src])
        prev = {src: None}
        while q:
            x = q.popleft()
            if dst_pred(x) and x != src:
                out = []
                while x is not None:
                    out.append(x)
                    x = prev[x]
                return list(reversed(out))
            for s in self.succ(x):
                if s not in prev:
                    prev[s] = x
                    q.append(s)
        return None

    def sccs(self, nodes=None):
        """Tarjan; returns list of SCCs (lists) that are non-trivial (size>1 or self-loop)"""
        nodes = set(nodes) if nodes is not None else (set(self.prog.fns.keys()) | set(self.inst_def))
        index = {}
        low = {}
        onst = set()
        stack = []
        out = []
        counter = [0]
        for root in sorted(nodes):
            if root in index:
                continue
            work = [(root, iter([s for s in self.succ(root) if s in nodes]))]
            index[root] = low[root] = counter[0]
            counter[0] += 1
            stack.append(root)
            onst.add(root)
            while work:
                v, it = work[-1]
                adv = False
                for w in it:
                    if w not in index:
                        index[w] = low[w] = counter[0]
                        counter[0] += 1
                        stack.append(w)
                        onst.add(w)
                        work.append((w, iter([s for s in self.succ(w) if s in nodes])))
                        adv = True
                        break
                    elif w in onst:
                        low[v] = min(low[v], index[w])
                if adv:
                    continue
                work.pop()
                if work:
                    u = work[-1][0]
                    low[u] = min(low[u], low[v])
                if low[v] == index[v]:
                    comp = []
                    while True:
                        w = stack.pop()
                        onst.discard(w)
                        comp.append(w)
                        if w == v:
                            break
                    if len(comp) > 1 or v in self.succ(v):
                        out.append(sorted(comp))
        return out
