"""Loading and indexing of the fact file written by driver/ (coset-mirfacts)."""
import json
import os
import re


class FactsError(Exception):
    pass


class Fn:
    def __init__(self, key, d, prog):
        self.key = key
        self.d = d
        self.prog = prog
        self.path = d["path"]
        self.kind = d["kind"]
        self.span = d.get("span", "?")
        self.blocks = d.get("blocks", [])
        self.locals = d.get("locals", [])
        self.arg_count = d.get("arg_count", 0)
        self.name = d.get("name") or key.rsplit("::", 1)[-1]
        self.is_pub = d.get("pub", False)
        self.doc = d.get("doc", "")
        self.doc_panics = d.get("doc_panics", False)
        self.generic = d.get("generic", False)
        self.impl_self_ty = d.get("impl_self_ty")
        self.impl_self_adt = d.get("impl_self_adt")
        self.impl_trait = d.get("impl_trait")
        self.trait_default_of = d.get("trait_default_of")
        self.closure_of = d.get("closure_of")
        self._cfg = None

    def __repr__(self):
        return "Fn(%s)" % self.key

    @property
    def file(self):
        return self.span.rsplit(":", 1)[0]

    def where(self, bb=None):
        if bb is None:
            return self.span
        t = self.blocks[bb]["term"]
        return "%s:%s" % (t.get("file", self.file), t.get("line", "?"))

    def local_name(self, l):
        return self.locals[l].get("name")

    def local_ty(self, l):
        return self.locals[l]["ty"]

    def calls(self):
        """yield (bb index, terminator) for every call in a non-cleanup block"""
        for i, b in enumerate(self.blocks):
            if b["cleanup"]:
                continue
            t = b["term"]
            if t["k"] == "call":
                yield i, t

    def succs(self, i):
        t = self.blocks[i]["term"]
        k = t["k"]
        if k == "goto":
            return [t["target"]]
        if k == "switch":
            out = []
            for _, b in t["targets"]:
                if b not in out:
                    out.append(b)
            if t["otherwise"] not in out:
                out.append(t["otherwise"])
            return out
        if k in ("call", "drop", "assert"):
            return [t["target"]] if t.get("target") is not None else []
        return []

    @property
    def cfg(self):
        if self._cfg is None:
            from . import cfg
            self._cfg = cfg.CFG(self)
        return self._cfg


# with the `std` feature the crate is not no_std and `panic!("literal")` (2018 edition) expands to std's entry point
ALIASES = {"std::panicking::begin_panic": "core::panicking::panic"}


def callee_path(t, resolved=True):
    """Path of the function a call terminator invokes (resolved impl if known)."""
    c = t.get("callee")
    if not c:
        return None
    r = c.get("resolved")
    if resolved and r and r.get("local"):
        return r["path"]
    return ALIASES.get(c["path"], c["path"])


def callee_full(t, resolved=True):
    c = t.get("callee")
    if not c:
        return None
    if resolved and c.get("resolved"):
        return c["resolved"]["full"]
    return c["full"]


# crate-internal functions that rules and spec tables refer to by name: never treated as anonymous helpers
KNOWN_INTERNAL = {
    "common::read_to_value", "util::cbor_type_error", "util::to_cbor_array",
    "<ciborium::value::Value as util::ValueTryAs>::try_as_integer", "<ciborium::value::Value as util::ValueTryAs>::try_as_bytes",
    "<ciborium::value::Value as util::ValueTryAs>::try_as_nonempty_bytes", "<ciborium::value::Value as util::ValueTryAs>::try_as_array",
    "<ciborium::value::Value as util::ValueTryAs>::try_as_array_then_convert", "<ciborium::value::Value as util::ValueTryAs>::try_as_map",
    "<ciborium::value::Value as util::ValueTryAs>::try_as_tag", "<ciborium::value::Value as util::ValueTryAs>::try_as_string",
    "header::Header::from_cbor_value_depth", "header::ProtectedHeader::from_cbor_bstr_depth",
    "sign::CoseSignature::from_cbor_value_depth",
}


# even the 'all' view keeps these as calls: the rules recognise them by name
BYTE_API = {"from_slice", "to_vec", "from_tagged_slice", "to_tagged_vec"}
NEVER_INLINE = {
    "sign::sig_structure_data", "mac::mac_structure_data", "encrypt::enc_structure_data", "util::cbor_type_error",
    "common::read_to_value", "header::ProtectedHeader::cbor_bstr", "header::ProtectedHeader::from_cbor_bstr",
    "header::ProtectedHeader::from_cbor_bstr_depth", "header::Header::is_empty", "header::ProtectedHeader::is_empty",
    "header::Header::from_cbor_value_depth", "sign::CoseSignature::from_cbor_value_depth",
}


def _normalise_idioms(d):
    """`T::try_from(x)` is `x.try_into()` (TryInto is the blanket impl over TryFrom): one spelling for the rules.  The callee record
    of such a call is rewritten to the try_into form (source type first, target second); `full` keeps the original text."""
    if d.get("_idioms_normalised"):
        return
    d["_idioms_normalised"] = True
    for f in d["fns"].values():
        bodies = [f] + list(f.get("promoted") or [])
        for body in bodies:
            for b in body.get("blocks") or []:
                t = b["term"]
                c = t.get("callee") if t.get("k") == "call" else None
                if c and c.get("path") == "core::convert::TryFrom::try_from" and len(c.get("args") or []) == 2 and len(t.get("args") or []) == 1:
                    tgt, src = c["args"]
                    c.update({"path": "core::convert::TryInto::try_into", "name": "try_into", "args": [src, tgt],
                              "trait": "core::convert::TryInto", "self_ty": src, "was_try_from": True})


def _relocate_moved_items(text, d):
    """items of the pinned tree that were moved to another module: filed under their pinned path again (textual substitution
    on the fact file, like the flattening of private nested modules); None if nothing moved"""
    import re
    from spec.pinned_items import PINNED
    cur = {
        "fns": {k for k, f in d["fns"].items() if f.get("kind") == "Fn" and "{" not in k and not k.startswith("<")},
        "adts": set(d["adts"]),
        "traits": set(d["traits"]),
        "consts": {k for k, f in d["fns"].items() if f.get("kind") in ("Const", "Static") and "{" not in k and not k.startswith("<")},
    }
    subs = []
    for kind, paths in PINNED.items():
        pinned = set(paths)
        for P in paths:
            if P in cur[kind]:
                continue
            name = P.rsplit("::", 1)[-1]
            cands = [q for q in cur[kind] if q.rsplit("::", 1)[-1] == name and q not in pinned
                     and not q.startswith(("core::", "alloc::", "ciborium::", "std::"))]
            if len(cands) == 1:
                subs.append((cands[0], P))
    if not subs:
        return None
    out = text
    for q, P in sorted(subs, key=lambda x: -len(x[0])):
        out = re.sub(r"(?<![A-Za-z0-9_:])" + re.escape(q) + r"(?![A-Za-z0-9_])", P, out)
    try:
        d2 = json.loads(out)
    except ValueError:
        return None
    if not all(len(d2[k]) == len(d[k]) for k in ("fns", "adts", "traits", "instances")):
        return None         # a substitution made two items collide: leave the facts as they are
    d2.setdefault("meta", {})["relocated_items"] = [list(x) for x in subs]
    return json.dumps(d2)


def _single_impl_traits(d):
    """A crate-private trait with exactly one impl (util::ValueTryAs for Value): a provided method of the trait that the impl does
    not override IS that impl's method (`Self` can only be the one type).  Its body is filed under the impl's name and calls of
    trait methods made on `Self` inside provided bodies are resolved to the impl - so moving a method from the impl block into the
    trait (or back) changes nothing for the rules."""
    if d.get("_single_impl_done"):
        return
    d["_single_impl_done"] = True
    by_trait = {}
    for imp in d.get("impls", []):
        if imp.get("trait") in d.get("traits", {}):
            by_trait.setdefault(imp["trait"], []).append(imp)
    alias = {}
    for tr, imps in by_trait.items():
        if len(imps) != 1:
            continue
        vis = [f.get("vis", "") for k, f in d["fns"].items() if f.get("impl_trait") == tr or f.get("trait_default_of") == tr]
        if not vis or not all(v.startswith("Restricted(") for v in vis):
            continue            # a public trait can be implemented elsewhere
        imp = imps[0]
        sty = imp["self_ty"]
        own = {i["name"] for i in imp["items"] if i["kind"] == "Fn"}
        for item in d["traits"][tr].get("items", []):
            if item.get("kind") != "Fn":
                continue
            m = item["name"]
            tkey, ikey = "%s::%s" % (tr, m), "<%s as %s>::%s" % (sty, tr, m)
            if m in own and ikey in d["fns"]:
                alias[tkey] = ikey
            elif item.get("has_default") and tkey in d["fns"] and ikey not in d["fns"]:
                f = d["fns"].pop(tkey)
                f.update({"path": ikey, "impl_self_ty": sty, "impl_self_adt": sty, "impl_trait": tr, "was_trait_default": tr})
                f.pop("trait_default_of", None)
                d["fns"][ikey] = f
                alias[tkey] = ikey
    if not alias:
        return
    for f in d["fns"].values():
        for body in [f] + list(f.get("promoted") or []):
            for b in body.get("blocks") or []:
                t = b["term"]
                c = t.get("callee") if t.get("k") == "call" else None
                if c and c.get("path") in alias:
                    r = c.get("resolved") or {}
                    if not r or r.get("path") == c["path"]:
                        c["resolved"] = {"path": alias[c["path"]], "args": [], "full": alias[c["path"]], "local": True, "kind": "Item"}


class Program:
    def __init__(self, path, expect_nonce=None, inline=True, data=None, flatten=True):
        if data is not None:
            self.d = data
        else:
            if not os.path.exists(path):
                raise FactsError("fact file %s missing (driver did not run)" % path)
            with open(path) as f:
                text = f.read()
            self.d = json.loads(text)
            # a private NESTED module (`mod protected;` inside src/header/, items re-exported by the parent) is an implementation
            # detail of its parent: its items are analysed under the parent's path, which is what the spec tables and the
            # public API name.  Flattening is skipped for a module whose items would collide with the parent's.
            self.flattened_modules = []
            for m in sorted((m["path"] for m in (self.d.get("mods", []) if flatten else []) if not m["pub"] and m["path"].count("::") >= 1),
                            key=lambda s: -s.count("::")):
                parent = m.rsplit("::", 1)[0]
                flat = text.replace(m + "::", parent + "::")
                d2 = json.loads(flat)
                if all(len(d2[k]) == len(self.d[k]) for k in ("fns", "adts", "traits", "instances")):
                    text, self.d = flat, d2
                    self.flattened_modules.append(m)
            if flatten:
                text2 = _relocate_moved_items(text, self.d)
                if text2 is not None:
                    text, self.d = text2, json.loads(text2)
        self.meta = self.d["meta"]
        if expect_nonce is not None and self.meta.get("nonce") != expect_nonce:
            raise FactsError("stale fact file: nonce %r != expected %r" % (self.meta.get("nonce"), expect_nonce))
        self.path = path
        _normalise_idioms(self.d)
        _single_impl_traits(self.d)
        self.fns = {k: Fn(k, v, self) for k, v in self.d["fns"].items()}
        self.adts = self.d["adts"]
        self.traits = self.d["traits"]
        self.impls = self.d["impls"]
        self.instances = self.d["instances"]
        self.enums = {k: {int(d): n for d, n in v} for k, v in self.d.get("enums", {}).items()}
        self.no_inline = _spec_functions() | KNOWN_INTERNAL
        self._helper_memo = {}
        self.fully_inlined = set()
        self.inline_mode = inline
        self._views = {}
        if inline:
            from . import inline as _inline
            _inline.inline_program(self)

    def view(self, mode):
        """the same program with another inlining policy: 'all' = every crate-local free function / inherent method
        (public ones too) is inlined into its callers, for rules about the NET effect of a public function"""
        if mode == self.inline_mode:
            return self
        if mode not in self._views:
            self._views[mode] = Program(self.path, inline=mode, data=self.d)
        return self._views[mode]

    # ---- crate-private helper functions -----------------------------------------------------------------
    def is_private_helper(self, key):
        """a module-private free function / inherent method that no spec table names: rules look THROUGH such
        functions (they are an implementation detail a refactoring may introduce or remove at will)"""
        f = self.fns.get(key)
        if f is None or f.kind not in ("Fn", "AssocFn") or not f.d.get("blocks"):
            return False
        if f.trait_default_of:
            # a provided method of a crate-local trait that no impl overrides and that is not one of the byte-level anchors:
            # `from_tagged_slice` delegating to a new `from_tagged_cbor_value` default is the same function split in two
            # (net-effect view only)
            if self.inline_mode != "all" or key in NEVER_INLINE or key.split("::")[-1] in BYTE_API:
                return False
            name = key.split("::")[-1]
            for imp in self.impls:
                if imp.get("trait") == f.trait_default_of and any(i["kind"] == "Fn" and i["name"] == name for i in imp["items"]):
                    return False
            return True
        if f.impl_trait == "core::convert::From" and f.d.get("impl_self_ty") != "common::CoseError" and self.inline_mode != "none" \
                and not f.d.get("generic") and key not in NEVER_INLINE:
            # a crate-local conversion (`impl From<Header> for ProtectedHeader`, `impl From<Label> for Value`) called where rustc
            # resolved the call to it: the literal / match it contains, written at the call site (the error conversions of
            # CoseError are known to the rules by name and stay calls)
            return True
        if f.impl_trait:
            # a method of a crate-PRIVATE trait (util::ValueTryAs) that the rules do not know by name is a helper like any
            # other private function: `value.try_as_bytes_or_null()?` added next to try_as_bytes()
            return (not f.is_pub and f.impl_trait in self.traits and key not in KNOWN_INTERNAL
                    and f.d.get("vis", "").startswith("Restricted(") and self.inline_mode != "none")
        if self.inline_mode == "all":
            return key not in NEVER_INLINE
        if key in self.no_inline:
            return False
        return not f.is_pub and f.d.get("vis", "").startswith("Restricted(")

    # ---- lookup helpers -------------------------------------------------
    def fn(self, key):
        f = self.fns.get(key)
        if f is None:
            raise FactsError("anchor function %r not found in the crate" % key)
        return f

    def find_fns(self, pred):
        return [f for f in self.fns.values() if pred(f)]

    def real_fns(self):
        """functions and closures with bodies (no const items)"""
        return [f for f in self.fns.values() if f.kind in ("Fn", "AssocFn", "Closure") and f.blocks]

    def const_items(self):
        return [f for f in self.fns.values() if f.kind in ("Const", "AssocConst")]

    def impls_of(self, trait):
        return [i for i in self.impls if i.get("trait") == trait]

    def method_of(self, self_adt, name, trait=None):
        """find method `name` defined in an impl block for ADT path self_adt"""
        out = []
        for f in self.fns.values():
            if f.name == name and f.impl_self_adt == self_adt and f.kind == "AssocFn":
                if trait is None and f.impl_trait is None:
                    out.append(f)
                elif trait is not None and f.impl_trait == trait:
                    out.append(f)
        return out

    def trait_method(self, trait, self_ty, name):
        """the function implementing `name` of `trait` for the type printed as self_ty"""
        for f in self.fns.values():
            if f.name == name and f.impl_trait == trait and f.impl_self_ty == self_ty and f.kind == "AssocFn":
                return f
        raise FactsError("anchor <%s as %s>::%s not found in the crate" % (self_ty, trait, name))

    def enum_discrs(self, adt):
        a = self.adts.get(adt)
        if not a or a["kind"] != "enum":
            return None
        return {v["name"]: v.get("discr") for v in a["variants"]}

    def struct_fields(self, adt):
        a = self.adts.get(adt)
        if not a or a["kind"] != "struct":
            return None
        return [f["name"] for f in a["variants"][0]["fields"]]


def short(s, n=160):
    s = str(s)
    return s if len(s) <= n else s[: n - 3] + "..."


def _spec_functions():
    """(historical) crate-private functions that rules name: none any more - rules anchor on public API and on
    KNOWN_INTERNAL; everything else that is not `pub` is a helper and is inlined"""
    return set()
