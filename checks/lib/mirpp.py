"""Pretty printer for the JSON MIR facts (debugging / --explain)."""


def place(p):
    s = "_%d" % p["l"]
    for e in p["p"]:
        k = e[0]
        if k == "deref":
            s = "(*%s)" % s
        elif k == "field":
            s = "%s.%s" % (s, e[2])
        elif k == "downcast":
            s = "(%s as %s)" % (s, e[1])
        elif k == "index":
            s = "%s[_%d]" % (s, e[1])
        else:
            s = "%s.<%s>" % (s, k)
    return s


def operand(o):
    k = o["k"]
    if k in ("copy", "move"):
        return ("move " if k == "move" else "") + place(o["place"])
    if k == "const":
        if "fn" in o:
            return "fn<%s>" % o["fn"]["full"]
        if "def" in o and "val" not in o:
            return "const %s" % o["def"]
        if "val" in o:
            return "const %r" % (o["val"],)
        return "const<%s>" % o["ty"]
    return "<%s>" % k


def rvalue(r):
    k = r["k"]
    if k == "use":
        return operand(r["op"])
    if k == "ref":
        return ("&mut " if r["mut"] else "&") + place(r["place"])
    if k == "cast":
        return "%s as %s (%s)" % (operand(r["op"]), r["ty"], r["kind"])
    if k == "binop":
        return "%s(%s, %s)" % (r["op"], operand(r["a"]), operand(r["b"]))
    if k == "unop":
        return "%s(%s)" % (r["op"], operand(r["a"]))
    if k == "discr":
        return "discriminant(%s)" % place(r["place"])
    if k == "aggr":
        ops = [operand(o) for o in r["ops"]]
        if r["kind"] == "adt":
            fs = r["fields"]
            return "%s::%s{%s}" % (r["adt"], r["variant"], ", ".join("%s: %s" % (f, o) for f, o in zip(fs, ops)))
        if r["kind"] == "closure":
            return "closure<%s>(%s)" % (r["closure"], ", ".join(ops))
        return "%s[%s]" % (r["kind"], ", ".join(ops))
    if k == "rawptr":
        return "&raw %s" % place(r["place"])
    return "<%s %s>" % (k, r.get("dbg", ""))


def term(t):
    k = t["k"]
    if k == "goto":
        return "goto bb%d" % t["target"]
    if k == "switch":
        return "switchInt(%s) -> [%s, otherwise: bb%d]" % (
            operand(t["op"]), ", ".join("%s: bb%d" % (v, b) for v, b in t["targets"]), t["otherwise"])
    if k == "call":
        c = t.get("callee")
        name = c["full"] if c else "<indirect %s>" % operand(t["func"])
        if c and c.get("resolved") and c["resolved"]["full"] != c["full"]:
            name += " => " + c["resolved"]["full"]
        tgt = "bb%d" % t["target"] if t["target"] is not None else "!"
        return "%s = %s(%s) -> %s%s" % (place(t["dest"]), name, ", ".join(operand(a) for a in t["args"]), tgt,
                                        (" unwind bb%d" % t["unwind"]) if t.get("unwind") is not None else "")
    if k == "assert":
        return "assert(%s == %s, %s) -> bb%d" % (operand(t["cond"]), t["expected"], t["kind"], t["target"])
    if k == "drop":
        return "drop(%s) -> bb%d" % (place(t["place"]), t["target"])
    return k


def fn(f, key=""):
    out = ["fn %s  [%s]" % (key or f["path"], f.get("span"))]
    for i, l in enumerate(f.get("locals", [])):
        out.append("    let _%d: %s%s" % (i, l["ty"], ("  // " + l["name"]) if "name" in l else ""))
    for i, b in enumerate(f.get("blocks", [])):
        out.append("  bb%d%s:" % (i, " (cleanup)" if b["cleanup"] else ""))
        for s in b["stmts"]:
            if s["k"] == "assign":
                out.append("    %s = %s" % (place(s["dst"]), rvalue(s["rv"])))
            else:
                out.append("    <%s>" % s["k"])
        out.append("    %s" % term(b["term"]))
    return "\n".join(out)


if __name__ == "__main__":
    import json, sys
    d = json.load(open(sys.argv[1]))
    pat = sys.argv[2]
    for k, f in d["fns"].items():
        if pat in k:
            print(fn(f, k))
            print()
