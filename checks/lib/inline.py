"""MIR-level inlining of crate-private helper functions (DESIGN 3.11).

A helper is a function that is not part of the crate's public API, is not a trait method, and that no
spec table or rule names (facts.Program.is_private_helper).  Whether a piece of logic lives in such a
function or in its caller is an implementation detail: extracting `fn payload_from_cbor_value(v)` out of
four decoders does not change any property.  So before any rule runs, every direct call of a helper (and
every direct call of a local closure through the Fn* traits) is replaced by a copy of the helper's body:

  * the helper's locals are appended to the caller's locals, its blocks to the caller's blocks;
  * the call block gets `_arg_i' = <operand i>` and a goto to the copied entry block;
  * every `return` of the copy becomes `<call destination> = move _0'` and a goto to the call's target;
  * for a generic helper called at a known instance the resolved callees of that instance are used.

The rules therefore analyse the logic in the context of each caller - path conditions, vector lengths
and provenance flow across the former call boundary exactly as if the code had been written in place.
Helpers are processed bottom-up with a stack check (a recursive helper is left as a call).  The helper
itself stays in the program; `Program.fully_inlined` lists helpers all of whose uses were inlined (rules
that look at every function - the panic ledger - skip their stand-alone body, because each use has
been analysed in context).
"""
import copy

from .facts import callee_path

FN_TRAIT_CALLS = {"core::ops::function::Fn::call", "core::ops::function::FnMut::call_mut",
                  "core::ops::function::FnOnce::call_once"}
MAX_BLOCKS = 4000


def _remap_place(p, lb):
    p["l"] += lb
    for e in p["p"]:
        if e and e[0] == "index" and len(e) > 1 and isinstance(e[1], int):
            e[1] += lb


def _remap_locals(x, lb):
    if isinstance(x, dict):
        if "l" in x and "p" in x and isinstance(x["p"], list) and isinstance(x["l"], int):
            _remap_place(x, lb)
            return
        for k, v in x.items():
            if k in ("callee", "fn"):
                continue
            _remap_locals(v, lb)
    elif isinstance(x, list):
        for v in x:
            _remap_locals(v, lb)


def _remap_targets(t, bb):
    for k in ("target", "unwind", "otherwise"):
        if isinstance(t.get(k), int) and not isinstance(t.get(k), bool):
            t[k] += bb
    if "targets" in t:
        t["targets"] = [[v, b + bb] for v, b in t["targets"]]


def _use(op):
    return {"k": "use", "op": op}


class Inliner:
    def __init__(self, prog):
        self.prog = prog
        self.done = {}
        self.stack = []
        self.inlined_sites = {}     # helper key -> number of inlined call sites
        self.kept_sites = {}        # helper key -> number of direct calls left in place

    # -- which calls are inlined ------------------------------------------------------------------------
    def _target(self, f, t, blocks=None):
        """(callee key, 'fn' | 'closure') if the call terminator t is to be inlined"""
        c = t.get("callee")
        if not c:
            return None
        r = c.get("resolved") or {}
        key = r.get("path") if r.get("local") else (c["path"] if c.get("local") else None)
        if key and self.prog.is_private_helper(key):
            return key, "fn"
        if c["path"] in FN_TRAIT_CALLS and r.get("local") and r.get("path") in self.prog.fns \
                and self.prog.fns[r["path"]].kind == "Closure" and len(t["args"]) == 2:
            return r["path"], "closure"
        if c["path"] in FN_TRAIT_CALLS and len(t["args"]) == 2 and blocks is not None:
            # a generic `F: FnOnce(..)` parameter of an inlined callee: rustc could not resolve the call inside the generic
            # body, but here the value called is a closure built in this very function
            ck = _closure_of_operand(blocks, t["args"][0])
            if ck and ck in self.prog.fns and self.prog.fns[ck].kind == "Closure":
                return ck, "closure"
        return None

    def _apply_instance(self, blocks, inst, n_orig):
        """give the calls of a generic body the callees rustc resolved for the instance `inst` (nested instances included)"""
        for bbs, c in self.prog.instances[inst].get("calls", {}).items():
            j = int(bbs)
            if j < n_orig and blocks[j]["term"]["k"] == "call" and blocks[j]["term"].get("callee") and c.get("rpath"):
                cal = dict(blocks[j]["term"]["callee"])
                cal["resolved"] = {"path": c["rpath"], "full": c.get("rfull"), "local": bool(c.get("rlocal")),
                                   "args": c.get("rargs", []), "kind": "Item", "instance": c.get("instance")}
                blocks[j]["term"]["callee"] = cal

    def body(self, key, inst=None):
        """(locals, blocks) of function `key` with helpers inlined; `inst`: the body as instantiated for that instance (the
        calls inside a generic helper are resolved per instance BEFORE its own helpers are expanded, so that a const-generic
        helper called from a const-generic helper keeps its `N`)"""
        memo = key if inst is None else (key, inst)
        if memo in self.done:
            return self.done[memo]
        f = self.prog.fns[key]
        self.stack.append(key)
        try:
            locals_ = [dict(l) for l in f.d.get("locals", [])]
            blocks = copy.deepcopy(f.d.get("blocks", []))
            if inst is not None:
                self._apply_instance(blocks, inst, len(blocks))
            _desugar_adaptors(self.prog, locals_, blocks)
            i = 0
            while i < len(blocks) and len(blocks) < MAX_BLOCKS:
                b = blocks[i]
                t = b["term"]
                tgt = self._target(f, t, blocks) if (t["k"] == "call" and not b["cleanup"]) else None
                if tgt and tgt[0] not in self.stack and tgt[0] not in b.get("chain", ()) and self.prog.fns[tgt[0]].d.get("blocks"):
                    self._inline_at(f, locals_, blocks, i, tgt)
                    self.inlined_sites[tgt[0]] = self.inlined_sites.get(tgt[0], 0) + 1
                elif tgt:
                    self.kept_sites[tgt[0]] = self.kept_sites.get(tgt[0], 0) + 1
                i += 1
        finally:
            self.stack.pop()
        self.done[memo] = (locals_, blocks)
        return self.done[memo]

    def _inline_at(self, f, locals_, blocks, bi, tgt):
        key, how = tgt
        callee = self.prog.fns[key]
        t = blocks[bi]["term"]
        inst = ((t.get("callee") or {}).get("resolved") or {}).get("instance")
        if not (inst and inst in self.prog.instances and how == "fn"):
            inst = None
        cl, cb = self.body(key, inst)
        cl = [dict(l) for l in cl]
        cb = copy.deepcopy(cb)
        lb, bb = len(locals_), len(blocks)
        chain = tuple(blocks[bi].get("chain", ())) + (key,)
        for blk in cb:
            # a recursive helper is expanded once per call site: the self-call inside the copy stays a call
            blk["chain"] = tuple(blk.get("chain", ())) + chain
        for l in cl:
            l["inl"] = key
        locals_.extend(cl)
        line, cfile = t.get("line"), callee.file
        for blk in cb:
            _remap_locals(blk["stmts"], lb)
            term = blk["term"]
            callee_rec, func = term.get("callee"), term.get("func")
            _remap_locals({k: v for k, v in term.items() if k not in ("callee",)}, lb)
            _remap_targets(term, bb)
            for s in blk["stmts"]:
                s.setdefault("file", cfile)
            term.setdefault("file", cfile)
            term.setdefault("inl", key)
            if term["k"] == "return":
                blk["stmts"].append({"k": "assign", "dst": copy.deepcopy(t["dest"]),
                                     "rv": _use({"k": "move", "place": {"l": lb, "p": []}}),
                                     "line": line, "exp": False, "inl_ret": key})
                if t.get("target") is not None:
                    blk["term"] = {"k": "goto", "target": t["target"], "line": line, "exp": False, "inl": key}
                else:
                    blk["term"] = {"k": "unreachable", "line": line, "exp": False, "inl": key}
        args = t["args"]
        st = blocks[bi]["stmts"]
        if how == "fn":
            for ai, a in enumerate(args):
                st.append({"k": "assign", "dst": {"l": lb + 1 + ai, "p": []}, "rv": _use(a), "line": line, "exp": False,
                           "inl_arg": key})
                # an argument that is a borrow of a local place of the caller made just for this call (`helper(&mut a)`)
                if a["k"] == "move" and not a["place"]["p"]:
                    d = _single_def(blocks, a["place"]["l"])
                    for _ in range(4):
                        # a reborrow `&mut *t` of `t = &mut P` is a borrow of P
                        if d is not None and d["k"] == "ref" and len(d["place"]["p"]) >= 1 and d["place"]["p"][0] and d["place"]["p"][0][0] == "deref":
                            d0 = _single_def(blocks, d["place"]["l"])
                            if d0 is not None and d0["k"] == "ref" and not any(e and e[0] in ("deref", "index") for e in d0["place"]["p"]):
                                d = {"k": "ref", "mut": d.get("mut") and d0.get("mut"),
                                     "place": {"l": d0["place"]["l"], "p": copy.deepcopy(d0["place"]["p"]) + copy.deepcopy(d["place"]["p"][1:])}}
                                continue
                        break
                    if d is not None and d["k"] == "ref" and not any(e and e[0] in ("deref", "index") for e in d["place"]["p"]):
                        P = copy.deepcopy(d["place"])
                        for blk in cb:
                            _rewrite_ref_param(blk["stmts"], lb + 1 + ai, P, bool(d.get("mut")))
                            _rewrite_ref_param({k: v for k, v in blk["term"].items() if k != "callee"}, lb + 1 + ai, P, bool(d.get("mut")))
        else:
            env_ty = (cl[1].get("ty") or "") if len(cl) > 1 else ""
            a0 = args[0]
            caps = _closure_captures(blocks, a0)
            if caps and any(c is not None for c in caps):
                for blk in cb:
                    _rewrite_captured(blk["stmts"], lb + 1, env_ty.startswith("&"), caps)
                    _rewrite_captured({k: v for k, v in blk["term"].items() if k != "callee"}, lb + 1, env_ty.startswith("&"), caps)
            if env_ty.startswith("&") and a0["k"] in ("copy", "move") and not _operand_is_ref(locals_, a0):
                # an Fn / FnMut closure body takes `&self`; called through FnOnce::call_once it is handed the value
                rv0 = {"k": "ref", "mut": env_ty.startswith("&mut"), "fake": False, "place": copy.deepcopy(a0["place"])}
            else:
                rv0 = _use(a0)
            st.append({"k": "assign", "dst": {"l": lb + 1, "p": []}, "rv": rv0, "line": line, "exp": False,
                       "inl_arg": key})
            tup = args[1]
            n = callee.arg_count - 1
            for ai in range(n):
                if tup["k"] in ("move", "copy"):
                    pl = copy.deepcopy(tup["place"])
                    pl["p"].append(["field", ai, str(ai)])
                    op = {"k": tup["k"], "place": pl}
                else:
                    op = tup
                st.append({"k": "assign", "dst": {"l": lb + 2 + ai, "p": []}, "rv": _use(op), "line": line, "exp": False,
                           "inl_arg": key})
        blocks[bi]["term"] = {"k": "goto", "target": bb, "line": line, "exp": False, "inl_call": key}
        blocks.extend(cb)


ITER_NEXT = "core::iter::traits::iterator::Iterator::next"
TRY_FOR_EACH = "core::iter::traits::iterator::Iterator::try_for_each"
FOR_EACH = "core::iter::traits::iterator::Iterator::for_each"


def _std_callee(model, path, name, self_ty=None, trait=None):
    c = {k: v for k, v in model.items() if k not in ("resolved", "args")}
    c.update({"path": path, "full": path, "name": name, "local": False, "never": False, "track_caller": False,
              "args": [self_ty] if self_ty else [], "trait": trait or path.rsplit("::", 1)[0], "self_ty": self_ty})
    return c


BOOL_THEN = "core::bool::<impl bool>::then"


def _desugar_bool_then(prog, locals_, blocks, bi):
    """`cond.then(|| e)` with a closure built here is `if cond { Some(e) } else { None }`"""
    b = blocks[bi]
    t = b["term"]
    ck = _closure_of_operand(blocks, t["args"][1])
    cf = prog.fns.get(ck) if ck else None
    if cf is None or cf.kind != "Closure" or cf.arg_count != 1 or not cf.d.get("blocks"):
        return
    line = t.get("line")
    model = t["callee"]
    ret_ty = cf.d["locals"][0]["ty"]
    dest, target = t["dest"], t["target"]

    def new_local(ty):
        locals_.append({"ty": ty, "name": None, "synthetic": True})
        return len(locals_) - 1

    def pl(l, p=None):
        return {"l": l, "p": p or []}

    def blk(stmts, term):
        term.setdefault("line", line)
        term.setdefault("exp", False)
        for s in stmts:
            s.setdefault("line", line)
            s.setdefault("exp", False)
        blocks.append({"stmts": stmts, "term": term, "cleanup": False})
        return len(blocks) - 1
    l_cl = new_local(cf.d["locals"][1]["ty"].lstrip("&").replace("mut ", "", 1).strip())
    l_r = new_local(ret_ty)
    l_tup = new_local("()")
    n0 = len(blocks)
    none_b, some_b, wrap_b = n0, n0 + 1, n0 + 2
    blk([{"k": "assign", "dst": copy.deepcopy(dest),
          "rv": {"k": "aggr", "kind": "adt", "adt": "core::option::Option", "variant": "None", "variant_idx": 0, "args": [], "fields": [], "ops": []}}],
        {"k": "goto", "target": target})
    callee_cl = _std_callee(model, "core::ops::function::FnOnce::call_once", "call_once", None, "core::ops::function::FnOnce")
    callee_cl["resolved"] = {"path": ck, "full": ck, "local": True, "args": [], "kind": "Item"}
    blk([{"k": "assign", "dst": pl(l_tup), "rv": {"k": "aggr", "kind": "tuple", "ops": []}}],
        {"k": "call", "callee": callee_cl, "func": {"k": "const", "ty": "fn item (synthetic)"},
         "args": [{"k": "move", "place": pl(l_cl)}, {"k": "move", "place": pl(l_tup)}], "dest": pl(l_r), "target": wrap_b, "unwind": None})
    blk([{"k": "assign", "dst": copy.deepcopy(dest),
          "rv": {"k": "aggr", "kind": "adt", "adt": "core::option::Option", "variant": "Some", "variant_idx": 1, "args": [], "fields": ["0"],
                 "ops": [{"k": "move", "place": pl(l_r)}]}}],
        {"k": "goto", "target": target})
    b["stmts"] = b["stmts"] + [{"k": "assign", "dst": pl(l_cl), "rv": {"k": "use", "op": t["args"][1]}, "line": line, "exp": False}]
    b["term"] = {"k": "switch", "op": t["args"][0], "ty": "bool", "targets": [[0, none_b]], "otherwise": some_b, "line": line, "exp": False,
                 "desugared": BOOL_THEN}


def _desugar_adaptors(prog, locals_, blocks):
    """`it.try_for_each(|x| body)` / `it.for_each(|x| body)` with a closure built in this function are the loop they
    abbreviate: `while let Some(x) = it.next() { body(x)? }`.  The call is replaced by that loop (synthetic blocks calling
    `next`, the closure - which the inliner then expands in place - and, for try_for_each, `Try::branch` /
    `from_residual`), so every analysis sees the pushes and early exits of the body where they happen (DESIGN 3.11)."""
    for bi in range(len(blocks)):
        b = blocks[bi]
        t = b["term"]
        if t["k"] != "call" or b["cleanup"] or not t.get("callee") or len(t.get("args", [])) != 2:
            continue
        path = t["callee"]["path"]
        if path == BOOL_THEN and t.get("target") is not None and not t["dest"]["p"]:
            _desugar_bool_then(prog, locals_, blocks, bi)
            continue
        if path not in (TRY_FOR_EACH, FOR_EACH) or t.get("target") is None or t["dest"]["p"]:
            continue
        ck = _closure_of_operand(blocks, t["args"][1])
        cf = prog.fns.get(ck) if ck else None
        if cf is None or cf.kind != "Closure" or cf.arg_count != 2 or not cf.d.get("blocks"):
            continue
        line = t.get("line")
        model = t["callee"]
        item_ty = cf.d["locals"][2]["ty"]
        ret_ty = cf.d["locals"][0]["ty"]
        it_op, cl_op = t["args"]
        dest, target = t["dest"], t["target"]
        by_value = path == FOR_EACH           # for_each consumes the iterator, try_for_each borrows it

        def new_local(ty):
            locals_.append({"ty": ty, "name": None, "synthetic": True})
            return len(locals_) - 1

        def blk(stmts, term):
            term.setdefault("line", line)
            term.setdefault("exp", False)
            for s in stmts:
                s.setdefault("line", line)
                s.setdefault("exp", False)
            blocks.append({"stmts": stmts, "term": term, "cleanup": False})
            return len(blocks) - 1

        def pl(l, p=None):
            return {"l": l, "p": p or []}

        def asg(l, rv):
            return {"k": "assign", "dst": pl(l), "rv": rv}
        l_it = new_local(locals_[it_op["place"]["l"]]["ty"] if it_op["k"] in ("move", "copy") and not it_op["place"]["p"] else "?")
        l_cl = new_local(cf.d["locals"][1]["ty"].lstrip("&").replace("mut ", "", 1).strip())
        l_opt = new_local("core::option::Option<%s>" % item_ty)
        l_d = new_local("isize")
        l_x = new_local(item_ty)
        l_tup = new_local("(%s,)" % item_ty)
        l_clref = new_local(cf.d["locals"][1]["ty"])
        l_r = new_local(ret_ty)
        self_ty = model.get("self_ty")
        # header: opt = next(it)
        if by_value:
            l_itref = new_local("&mut " + (locals_[l_it]["ty"] or "?"))
            hdr_stmts = [asg(l_itref, {"k": "ref", "mut": True, "fake": False, "place": pl(l_it)})]
            next_arg = {"k": "move", "place": pl(l_itref)}
        else:
            hdr_stmts = []
            next_arg = {"k": "copy", "place": pl(l_it)}
        n0 = len(blocks)
        h, sw, none_b, some_b = n0, n0 + 1, n0 + 2, n0 + 3
        after_call = n0 + 4
        next_callee = _std_callee(model, ITER_NEXT, "next", self_ty)
        next_callee["full"] = "<%s as core::iter::traits::iterator::Iterator>::next" % self_ty
        blk(hdr_stmts, {"k": "call", "callee": next_callee, "func": {"k": "const", "ty": "fn item (synthetic)"}, "args": [next_arg],
                        "dest": pl(l_opt), "target": sw, "unwind": None})
        blk([asg(l_d, {"k": "discr", "place": pl(l_opt), "adt": "core::option::Option"})],
            {"k": "switch", "op": {"k": "move", "place": pl(l_d)}, "ty": "isize", "targets": [[0, none_b], [1, some_b]], "otherwise": none_b})
        unit = {"k": "const", "ty": "()"}
        if path == TRY_FOR_EACH:
            done = [{"k": "assign", "dst": copy.deepcopy(dest),
                     "rv": {"k": "aggr", "kind": "adt", "adt": "core::result::Result", "variant": "Ok", "variant_idx": 0,
                            "args": [], "fields": ["0"], "ops": [unit]}}] if ret_ty.startswith("core::result::Result<") else \
                   [{"k": "assign", "dst": copy.deepcopy(dest),
                     "rv": {"k": "aggr", "kind": "adt", "adt": "core::option::Option", "variant": "Some", "variant_idx": 1,
                            "args": [], "fields": ["0"], "ops": [unit]}}]
        else:
            done = [{"k": "assign", "dst": copy.deepcopy(dest), "rv": {"k": "use", "op": unit}}]
        blk(done, {"k": "goto", "target": target})
        callee_cl = _std_callee(model, "core::ops::function::FnMut::call_mut", "call_mut", None, "core::ops::function::FnMut")
        callee_cl["resolved"] = {"path": ck, "full": ck, "local": True, "args": [], "kind": "Item"}
        blk([asg(l_x, {"k": "use", "op": {"k": "move", "place": pl(l_opt, [["downcast", "Some", 1], ["field", 0, "0", item_ty]])}}),
             asg(l_tup, {"k": "aggr", "kind": "tuple", "ops": [{"k": "move", "place": pl(l_x)}]}),
             asg(l_clref, {"k": "ref", "mut": True, "fake": False, "place": pl(l_cl)})],
            {"k": "call", "callee": callee_cl, "func": {"k": "const", "ty": "fn item (synthetic)"}, "args": [{"k": "move", "place": pl(l_clref)}, {"k": "move", "place": pl(l_tup)}],
             "dest": pl(l_r), "target": after_call, "unwind": None})
        if path == TRY_FOR_EACH:
            l_cf = new_local("core::ops::control_flow::ControlFlow<?, ()>")
            l_d2 = new_local("isize")
            l_res = new_local("?residual")
            br, sw2, brk = after_call, after_call + 1, after_call + 2
            blk([], {"k": "call", "callee": _std_callee(model, "core::ops::try_trait::Try::branch", "branch", ret_ty, "core::ops::try_trait::Try"),
                     "func": {"k": "const", "ty": "fn item (synthetic)"}, "args": [{"k": "move", "place": pl(l_r)}], "dest": pl(l_cf), "target": sw2, "unwind": None})
            blk([asg(l_d2, {"k": "discr", "place": pl(l_cf), "adt": "core::ops::control_flow::ControlFlow"})],
                {"k": "switch", "op": {"k": "move", "place": pl(l_d2)}, "ty": "isize", "targets": [[0, h], [1, brk]], "otherwise": h})
            fr = _std_callee(model, "core::ops::try_trait::FromResidual::from_residual", "from_residual", ret_ty,
                             "core::ops::try_trait::FromResidual")
            fr["full"] = "<%s as core::ops::try_trait::FromResidual<?>>::from_residual" % ret_ty
            blk([asg(l_res, {"k": "use", "op": {"k": "move", "place": pl(l_cf, [["downcast", "Break", 1], ["field", 0, "0", "?residual"]])}})],
                {"k": "call", "callee": fr, "func": {"k": "const", "ty": "fn item (synthetic)"}, "args": [{"k": "move", "place": pl(l_res)}], "dest": copy.deepcopy(dest),
                 "target": target, "unwind": None})
        else:
            blk([], {"k": "goto", "target": h})
        b["stmts"] = b["stmts"] + [
            {"k": "assign", "dst": pl(l_it), "rv": {"k": "use", "op": it_op}, "line": line, "exp": False},
            {"k": "assign", "dst": pl(l_cl), "rv": {"k": "use", "op": cl_op}, "line": line, "exp": False}]
        b["term"] = {"k": "goto", "target": h, "line": line, "exp": False, "desugared": path}


def _operand_is_ref(locals_, op):
    p = op["place"]
    return not p["p"] and (locals_[p["l"]].get("ty") or "").startswith("&")


def _single_def(blocks, l):
    defs = []
    for b in blocks:
        for st in b["stmts"]:
            if st["k"] == "assign" and st["dst"]["l"] == l and not st["dst"]["p"]:
                defs.append(st["rv"])
        t = b["term"]
        if t["k"] == "call" and t["dest"]["l"] == l and not t["dest"]["p"]:
            defs.append(None)
    return defs[0] if len(defs) == 1 else None


def _closure_captures(blocks, op, depth=0):
    """what the closure value in `op` captured: a list with, per upvar, ('ref', place) for a borrow of a local place,
    ('val', place) for a moved local place, or None - following plain moves of locals assigned once"""
    if op["k"] not in ("copy", "move") or op["place"]["p"] or depth > 8:
        return None
    rv = _single_def(blocks, op["place"]["l"])
    if rv is None:
        return None
    if rv["k"] == "use":
        return _closure_captures(blocks, rv["op"], depth + 1)
    if rv["k"] == "ref" and not rv["place"]["p"]:
        return _closure_captures(blocks, {"k": "copy", "place": rv["place"]}, depth + 1)
    if rv["k"] != "aggr" or rv.get("kind") != "closure":
        return None
    out = []
    for o in rv.get("ops", []):
        cap = None
        if o["k"] in ("copy", "move") and not o["place"]["p"]:
            d = _single_def(blocks, o["place"]["l"])
            if d is not None and d["k"] == "ref" and not any(e and e[0] == "deref" for e in d["place"]["p"]):
                cap = ("ref", copy.deepcopy(d["place"]), bool(d.get("mut")))
            elif d is None and o["k"] == "move":
                cap = None
        if cap is None and o["k"] == "move" and not any(e and e[0] in ("deref", "index") for e in o["place"]["p"]) and False:
            cap = ("val", copy.deepcopy(o["place"]))
        out.append(cap)
    return out


def _rewrite_captured(x, env_local, env_by_ref, caps):
    """inside an inlined closure body: `(*((*env).i))` / `(*(env.i))` of a by-reference capture of place P is P itself, so that
    the analyses keyed by places (vector lengths, in-place edits) see the captured variable and not an opaque closure field"""
    if isinstance(x, dict):
        if "l" in x and "p" in x and isinstance(x["p"], list) and isinstance(x["l"], int):
            if x["l"] == env_local:
                p = x["p"]
                i = 0
                if env_by_ref:
                    if not (p and p[0] and p[0][0] == "deref"):
                        return
                    i = 1
                if len(p) > i + 1 and p[i] and p[i][0] == "field" and isinstance(p[i][1], int) and p[i][1] < len(caps) \
                        and caps[p[i][1]] is not None and caps[p[i][1]][0] == "ref" and p[i + 1] and p[i + 1][0] == "deref":
                    P = caps[p[i][1]][1]
                    x["l"] = P["l"]
                    x["p"] = copy.deepcopy(P["p"]) + p[i + 2:]
            return
        if x.get("k") == "assign" and isinstance(x.get("rv"), dict) and x["rv"].get("k") == "use" \
                and x["rv"]["op"].get("k") in ("copy", "move") and x["rv"]["op"]["place"]["l"] == env_local:
            # `_t = copy (env.i)`: the captured reference itself, copied out before it is used - a fresh borrow of P
            p = x["rv"]["op"]["place"]["p"]
            i = 1 if env_by_ref else 0
            if (not env_by_ref or (p and p[0] and p[0][0] == "deref")) and len(p) == i + 1 and p[i] and p[i][0] == "field" \
                    and isinstance(p[i][1], int) and p[i][1] < len(caps) and caps[p[i][1]] is not None and caps[p[i][1]][0] == "ref":
                c = caps[p[i][1]]
                x["rv"] = {"k": "ref", "mut": c[2], "fake": False, "place": copy.deepcopy(c[1])}
                _rewrite_captured(x["dst"], env_local, env_by_ref, caps)
                return
        for k, v in x.items():
            if k in ("callee", "fn"):
                continue
            _rewrite_captured(v, env_local, env_by_ref, caps)
    elif isinstance(x, list):
        for v in x:
            _rewrite_captured(v, env_local, env_by_ref, caps)


def _rewrite_ref_param(x, param_local, P, mut):
    """inside an inlined helper body: the parameter is `&mut P` / `&P` of a place of the caller, so `(*param)..` is `P..` itself
    and a copy of the parameter is a fresh borrow of P - the analyses keyed by places (vector lengths, tail drains, in-place
    edits) then see the caller's variable instead of an opaque reference"""
    if isinstance(x, dict):
        if "l" in x and "p" in x and isinstance(x["p"], list) and isinstance(x["l"], int):
            if x["l"] == param_local and x["p"] and x["p"][0] and x["p"][0][0] == "deref":
                x["l"] = P["l"]
                x["p"] = copy.deepcopy(P["p"]) + x["p"][1:]
            return
        if x.get("k") == "assign" and isinstance(x.get("rv"), dict) and x["rv"].get("k") == "use" \
                and x["rv"]["op"].get("k") in ("copy", "move") and x["rv"]["op"]["place"]["l"] == param_local \
                and not x["rv"]["op"]["place"]["p"]:
            x["rv"] = {"k": "ref", "mut": mut, "fake": False, "place": copy.deepcopy(P)}
            _rewrite_ref_param(x["dst"], param_local, P, mut)
            return
        for k, v in x.items():
            if k in ("callee", "fn"):
                continue
            _rewrite_ref_param(v, param_local, P, mut)
    elif isinstance(x, list):
        for v in x:
            _rewrite_ref_param(v, param_local, P, mut)


def _closure_of_operand(blocks, op, depth=0):
    """key of the closure whose value the operand holds, following plain moves / borrows of locals assigned once"""
    if op["k"] not in ("copy", "move") or op["place"]["p"] or depth > 8:
        return None
    l = op["place"]["l"]
    defs = []
    for b in blocks:
        for s in b["stmts"]:
            if s["k"] == "assign" and s["dst"]["l"] == l and not s["dst"]["p"]:
                defs.append(s["rv"])
        t = b["term"]
        if t["k"] == "call" and t["dest"]["l"] == l and not t["dest"]["p"]:
            defs.append(None)
    if len(defs) != 1 or defs[0] is None:
        return None
    rv = defs[0]
    if rv["k"] == "aggr" and rv.get("kind") == "closure":
        return rv["closure"]
    if rv["k"] == "use":
        return _closure_of_operand(blocks, rv["op"], depth + 1)
    if rv["k"] == "ref" and not rv["place"]["p"]:
        return _closure_of_operand(blocks, {"k": "copy", "place": rv["place"]}, depth + 1)
    return None


def inline_program(prog):
    """rewrite the bodies of all functions in place; returns statistics"""
    inl = Inliner(prog)
    keys = [k for k, f in prog.fns.items() if f.kind in ("Fn", "AssocFn", "Closure") and f.d.get("blocks")]
    prog.orig_bodies = {}
    for k in keys:
        inl.body(k)
    changed = 0
    for k in keys:
        f = prog.fns[k]
        locals_, blocks = inl.done[k]
        if len(blocks) != len(f.blocks):
            prog.orig_bodies[k] = (f.locals, f.blocks)
            f.locals, f.blocks = locals_, blocks
            f._cfg = None
            changed += 1
    # helpers all of whose uses are direct calls that were inlined
    refs = {}
    for k, (locals_, blocks) in inl.done.items():
        if isinstance(k, tuple):
            continue        # per-instance copy of a generic helper: its references are those of the generic body
        for b in prog.orig_bodies.get(k, (None, prog.fns[k].blocks))[1]:
            for s in b["stmts"]:
                _count_fnrefs(s, refs)
            t = b["term"]
            if t["k"] == "call":
                for a in t["args"]:
                    _count_fnrefs(a, refs)
    prog.fully_inlined = {k for k, n in inl.inlined_sites.items()
                          if n > 0 and not inl.kept_sites.get(k) and not refs.get(k) and prog.fns[k].kind != "Closure"}
    # closures built and called in place (the desugared `cond.then(|| ..)`, a local `let emit = |..| ..;` called directly): every
    # call was expanded where the closure was made and the value is handed to nobody else - analysed in the caller's context too
    for k, n in inl.inlined_sites.items():
        f = prog.fns[k]
        if f.kind != "Closure" or n <= 0 or inl.kept_sites.get(k) or not f.closure_of or f.closure_of not in prog.fns:
            continue
        creator = prog.fns[f.closure_of]
        holders = set()
        for b in creator.blocks:
            for st in b["stmts"]:
                if st["k"] == "assign" and st["rv"]["k"] == "aggr" and st["rv"].get("kind") == "closure" and st["rv"].get("closure") == k \
                        and not st["dst"]["p"]:
                    holders.add(st["dst"]["l"])
        grew = True
        while grew:
            grew = False
            for b in creator.blocks:
                for st in b["stmts"]:
                    if st["k"] == "assign" and not st["dst"]["p"] and st["dst"]["l"] not in holders:
                        rv = st["rv"]
                        src = rv["op"]["place"] if rv["k"] == "use" and rv["op"].get("k") in ("copy", "move") else (rv["place"] if rv["k"] == "ref" else None)
                        if src is not None and src["l"] in holders:
                            holders.add(st["dst"]["l"])
                            grew = True
        escapes = False
        for b in creator.blocks:
            t = b["term"]
            if t["k"] == "call":
                for a in t["args"]:
                    if a.get("k") in ("copy", "move") and a["place"]["l"] in holders:
                        escapes = True
        if holders and not escapes:
            prog.fully_inlined.add(k)
    prog.inline_stats = {"functions_changed": changed, "sites": dict(inl.inlined_sites), "kept": dict(inl.kept_sites)}
    return prog.inline_stats


def _count_fnrefs(x, refs):
    if isinstance(x, dict):
        if "fn" in x and isinstance(x["fn"], dict):
            r = x["fn"].get("resolved") or {}
            p = r.get("path") if r.get("local") else x["fn"].get("path")
            refs[p] = refs.get(p, 0) + 1
        for v in x.values():
            _count_fnrefs(v, refs)
    elif isinstance(x, list):
        for v in x:
            _count_fnrefs(v, refs)
