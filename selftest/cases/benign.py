"""Behaviour-preserving refactorings written by independent sub-agents (one per source module, 4-8 refactorings each,
see selftest/benign/<module>.NOTES.md).  No check of any property may fire on them."""
ALL = ["C%02d" % i for i in range(1, 21)]
CASES = [
    {"id": "benign-%s" % m, "props": ALL, "expect": "quiet", "patches": [("selftest/benign/%s.diff" % m, False)],
     "note": "independent benign refactoring of src/%s/mod.rs" % m}
    for m in ("util", "iana", "key", "mac", "sign", "cwt", "common", "header", "encrypt", "context")
] + [
    {"id": "benign2-%s" % m, "props": ALL, "expect": "quiet", "patches": [("selftest/benign/%s.diff" % m, False)], "note": what}
    for m, what in (("w1", "clippy-style clean-ups across the crate"), ("w2", "reduce-duplication helpers (pub(crate) util functions)"),
                    ("w3", "additive API (new constructors, accessors, conversions)"), ("w4", "decoder restructuring (array destructuring, iterators)"),
                    ("w5", "encoder restructuring (closures, iterator chains)"), ("w6", "builder macros / iana macro / guards rewritten"),
                    ("w7", "sign/verify/decrypt flows (create via try_create, shared private producers)"),
                    ("w8", "common/util rewritten (label ordering by key, helper fns)"))
] + [
    {"id": "benign3-%s" % m, "props": ALL, "expect": "quiet", "patches": [("selftest/benign/%s.diff" % m, False)], "note": what}
    for m, what in (("m1", "clippy pedantic fixes in header/common"), ("m2", "error-handling tidy-up, new private ValueTryAs method"),
                    ("m3", "#[must_use]/#[inline]/const/doc comments"), ("m4", "renames, import order, into_iter, T::default()"),
                    ("m5", "two new IANA algorithm values"), ("m6", "From/Display impls for Label"),
                    ("m7", "ClaimsSet decoder simplified"), ("m8", "PartyInfo encoder with a helper closure"),
                    ("m9", "bstr/nil helpers in util"), ("m10", "builder tidy-up"))
]
