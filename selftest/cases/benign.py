"""Behaviour-preserving refactorings written by independent sub-agents (one per source module, 4-8 refactorings each,
see selftest/benign/<module>.NOTES.md).  No check of any property may fire on them."""
ALL = ["C%02d" % i for i in range(1, 21)]
CASES = [
    {"id": "benign-%s" % m, "props": ALL, "expect": "quiet", "patches": [("selftest/benign/%s.diff" % m, False)],
     "note": "independent benign refactoring of src/%s/mod.rs" % m}
    for m in ("util", "iana", "key", "mac", "sign", "cwt", "common", "header", "encrypt", "context")
]
