"""Behaviour-preserving refactorings written by independent sub-agents (one per source module, 4-8 refactorings each,
see selftest/benign/<module>.NOTES.md).  No check of any property may fire on them."""
ALL = ["C%02d" % i for i in range(1, 21)]
# behaviour-preserving patches on which a check still raises an alarm (DESIGN 11.6): listed on every run, not failures
LIMITS = {"w5", "v6", "u3", "q1", "t4", "y3", "y8", "z1"}
CASES = [
    {"id": "benign-%s" % m, "props": ALL, "expect": "quiet", "patches": [("selftest/benign/%s.diff" % m, False)],
     "note": "independent benign refactoring of src/%s/mod.rs" % m}
    for m in ("util", "iana", "key", "mac", "sign", "cwt", "common", "header", "encrypt", "context")
] + [
    {"id": "benign2-%s" % m, "props": ALL, "expect": "limit" if m in LIMITS else "quiet", "patches": [("selftest/benign/%s.diff" % m, False)], "note": what}
    for m, what in (("w1", "clippy-style clean-ups across the crate"), ("w2", "reduce-duplication helpers (pub(crate) util functions)"),
                    ("w3", "additive API (new constructors, accessors, conversions)"), ("w4", "decoder restructuring (array destructuring, iterators)"),
                    ("w5", "encoder restructuring (closures, iterator chains)"), ("w6", "builder macros / iana macro / guards rewritten"),
                    ("w7", "sign/verify/decrypt flows (create via try_create, shared private producers)"),
                    ("w8", "common/util rewritten (label ordering by key, helper fns)"))
] + [
    {"id": "benign3-%s" % m, "props": ALL, "expect": "quiet", "patches": [("selftest/benign/%s.diff" % m, False)], "note": what}
    for m, what in (("m1", "clippy pedantic fixes in header/common"), ("m2", "error-handling tidy-up, new private ValueTryAs method"),
                    ("m3", "#[must_use]/#[inline]/const/doc comments"), ("m4", "renames, import order, into_iter, T::default()"),
                    ("m5", "two new IANA algorithm values"), ("m6", "From/Display impls for Label"),
                    ("m7", "ClaimsSet decoder simplified"), ("m8", "PartyInfo encoder with a helper closure"),
                    ("m9", "bstr/nil helpers in util"), ("m10", "builder tidy-up"))
] + [
    {"id": "benign4-%s" % m, "props": ALL, "expect": "limit" if m in LIMITS else "quiet", "patches": [("selftest/benign/%s.diff" % m, False)], "note": what}
    for m, what in (("v1", "error handling modernised (let-else, explicit match, transpose, helper extraction)"),
                    ("v2", "loops restructured (try_for_each, collect + extend, early continue, &mut out-param helper)"),
                    ("v3", "locals / ownership clean-ups in encoders and structure builders"),
                    ("v4", "header/mod.rs readability refactor (decode helpers, push_unique, match on first())"),
                    ("v5", "cwt / context / key refactor (const patterns, bstr_or_nil, split_off, extend)"),
                    ("v6b", "performance tweaks without the duplicated cbor_bstr (with_capacity, reserve, then_with, as_deref)"),
                    ("v6", "v6b plus a second, borrowing implementation of cbor_bstr / sig_structure_data"))
] + [
    {"id": "benign5-%s" % m, "props": ALL, "expect": "limit" if m in LIMITS else "quiet", "patches": [("selftest/benign/%s.diff" % m, False)], "note": what}
    for m, what in (("u1", "sign / mac / encrypt: const-generic array_items::<N>, payload / ciphertext helpers, shared aad producers"),
                    ("u2", "common / util / iana: label decoders through Label::from_cbor_value, cmp helpers, is_private macro"),
                    ("u3", "whole-crate modernisation (let-else, transpose, bool::then, drain, <[T; 1]>::try_from, const patterns)"),
                    ("u4", "de-duplication through shared crate-private helpers (try_as_array_of_len, take_trailing, unique_label, structure_data, infallible)"))
] + [
    {"id": "benign6-%s" % m, "props": ALL, "expect": "quiet", "patches": [("selftest/benign/%s.diff" % m, False)], "note": what}
    for m, what in (("n1", "additive public API (CoseKeySet::iter/len/is_empty, FromIterator, new_okp_pub_key, ClaimsSet::is_empty, From<Header>)"),
                    ("n2", "error / panic message strings reworded"),
                    ("n3", "four new IANA elliptic-curve values"),
                    ("n4", "module split: header/protected.rs, sign/builder.rs, key/set.rs behind pub use re-exports"),
                    ("n5", "docs and attributes (#[must_use], #[inline], const fn, Hash derives)"),
                    ("n6", "local renames and import hygiene across nine modules"))
] + [
    {"id": "benign7-%s" % m, "props": ALL, "expect": "limit" if m in LIMITS else "quiet", "patches": [("selftest/benign/%s.diff" % m, False)], "note": what}
    for m, what in (("q1", "twelve debug_assert!s that can never fail (C01 cannot prove most of them: documented limit)"),
                    ("q2", "additive read-only accessors and trait impls (get, param, AsRef, Display, IntoIterator)"),
                    ("q3", "items reordered / regrouped within files, two impl blocks merged"),
                    ("q4", "Self:: paths, dropped turbofish and annotations, function values instead of closures"))
] + [
    {"id": "benign8-%s" % m, "props": ALL, "expect": "quiet", "patches": [("selftest/benign/%s.diff" % m, False)], "note": what}
    for m, what in (("r1", "iana: table-driven from_i64 (const ALL + find) with an early return, shared private-use predicate, 21 new registry entries"),
                    ("r2", "common: Ord impls through helpers / a borrowed sort key, label codecs through a shared narrowing helper, named intermediates"),
                    ("r3", "util: extractors generated by a macro as `match`, explicit loop in the convert helper, builder macros rebinding self"),
                    ("r4", "sign / mac / encrypt: creating methods with locals and a spelled-out `?`, as_slice / as_deref views, matches! context guards"))
] + [
    {"id": "benign9-%s" % m, "props": ALL, "expect": "limit" if m in LIMITS else "quiet", "patches": [("selftest/benign/%s.diff" % m, False)], "note": what}
    for m, what in (("t1", "header: guard clauses, collect, a local fn for the content-type checks, `match first()`, an `emit` closure, one push of an if/else value"),
                    ("t2", "key: `.map(Self)`, fn-pointer comparator, try_for_each, `== KeyType::default()`, an add_entry helper, shared constructors"),
                    ("t3", "cwt: `i64::try_from(i).map(..).map_err(CoseError::from)`, `Value::from`, constant patterns, generic push_claim(.., encode), const range"),
                    ("t4", "sign / mac: slots taken by five pop()s in a let-else, swap_remove of the last index, `into_iter().rev()` + next(): documented limit"),
                    ("t5", "encrypt / context: `match a.len()`, try_into destructuring, `<[Value; 3]>::try_from`, `pop()` + `map().transpose()`, split_off, extend"),
                    ("t6", "common / util: extractor moved into the private trait as a provided method, new try_as_tagged extractor, write_value helper"),
                    ("t7", "pedantic clean-ups across nine modules: Self, or-patterns, function paths for closures, assert! guards, as_deref, combinators"),
                    ("t8", "additive API across ten modules: From / AsRef / FromIterator impls, bulk builder methods; macro and encoder re-expressed through them"))
] + [
    {"id": "benign9-good-%s" % m, "props": ALL, "expect": "quiet", "patches": [("selftest/benign/g9-%s.diff" % m, False)], "note": what}
    for m, what in (("C01", "round-9 pair C01-o without its slip: try_as_array_of_len(range, want) in all eleven array decoders"),
                    ("C11", "round-9 pair C11-o without its slip: Header::len(), is_empty() = len() == 0, with_capacity(len())"),
                    ("C14", "round-9 pair C14-o without its slip: from_tagged_cbor_value / to_tagged_cbor_value defaults the byte-level ones delegate to"),
                    ("C15", "round-9 pair C15-o without its slip: named int_to_i64 / int_to_u64 narrowing helpers"))
] + [
    {"id": "benign10-%s" % m[1:], "props": ALL, "expect": "limit" if m in LIMITS else "quiet", "patches": [("selftest/benign/%s.diff" % m, False)], "note": what}
    for m, what in (("xv1", "EXTRACT FUNCTION across eight modules: decoder arms into helpers that return the collection, a `&mut Vec` out-parameter helper for the KDF tail, check_kty_present"),
                    ("xv2", "INLINE FUNCTION: context text() matches, two builders' macros expanded by hand, try_as_array_then_convert written out as a loop with an explicit match"),
                    ("xv3", "LOOPS <-> ITERATORS: to_cbor_array as a loop, try_for_each, extend(map(..)), drain(4..).rev()"),
                    ("xv4", "MATCH <-> COMBINATORS: map_or, (len == n).then(..).transpose()?, unwrap_or_default, filter(..).ok_or(..), guards"),
                    ("xv5", "OWNERSHIP: destructured self in encoders and cbor_bstr, as_deref views, Vec -> [T; N] destructuring, drain"),
                    ("xv6", "NAMES AND CONSTANTS: named array lengths, const ranges, type aliases, label constants, reordered items"),
                    ("xv7", "UNIFORM ERROR HANDLING through a private ensure(cond, err)? helper in every decoder"),
                    ("xv8", "API HYGIENE: must_use, const fn, derives, pub(crate) to_cbor_array, # Panics / # Errors docs"))
] + [
    {"id": "benign11-%s" % m, "props": ALL, "expect": "limit" if m in LIMITS else "quiet", "patches": [("selftest/benign/%s.diff" % m, False)], "note": what}
    for m, what in (("y1", "readability of ten decoders: guard clauses, an early return Ok(..) in from_cbor_bstr, named intermediates, shadowing removed"),
                    ("y2", "fewer allocations in nine encoders: with_capacity, extend, a pre-sized loop in to_cbor_array"),
                    ("y3", "generic private helpers (nil_or(value, f), take_optional_slot(&mut a, idx, f), push_optional_entry<K, V>, note_label): documented limit"),
                    ("y4", "seven array decoders consume a.into_iter() with next() after the length check"),
                    ("y5", "error construction: arity_error(want), bytes_or_nil, note_map_key, nesting_error with ok_or_else, expectation-string constants"),
                    ("y6", "builders: shared reserved-label guard, a builder_push! macro, macro <-> hand-written setters, delegation, shared EC2 constructor"),
                    ("y7", "code moved between modules: context enums into private submodules, builder macros, read_to_value to util, to_cbor_array to common, CborOrdering to key"),
                    ("y8", "private signatures changed: try_as_tag unboxed, try_as_map returns IntoIter, CoseSignature::from_cbor_value_depth(value) -> from_cbor_array_depth(items): documented limit"))
] + [
    {"id": "benign12-%s" % m, "props": ALL, "expect": "limit" if m in LIMITS else "quiet", "patches": [("selftest/benign/%s.diff" % m, False)], "note": what}
    for m, what in (("z1", "creating methods of the builders: direct field assignment, inlined temporaries, private aad() helpers, `cipher(..).map(|ct| self.ciphertext(ct))` (that last spelling is a documented limit)"),
                    ("z2", "encoders: to_cbor_array as an explicit loop, recipients_to_cbor, counter_signatures_to_cbor"),
                    ("z3", "ProtectedHeader::from_header private constructor: in the setter macro, `.map(Self::from_header)`, struct-update syntax in the wire constructor, cbor_bstr as a match"),
                    ("z4", "comparators: cmp_int / cmp_text helpers shared by the three label types, or-patterns, then_with, canonicalize picks a fn pointer"),
                    ("z5", "hand-written PartialEq / Clone / Default that do what the derive does (CoseSign1, CoseMac0, CoseEncrypt0)"),
                    ("z6", "depth budget through a private descend(depth)? helper; the signature array decoded with map().collect()"))
] + [
    {"id": "benign10-good-%s" % m, "props": ALL, "expect": "quiet", "patches": [("selftest/benign/g10-%s.diff" % m, False)],
     "note": "round-10 pair %s-p without its slip (a small behaviour-preserving commit, see seeded/%s-p/NOTES.md)" % (m, m)}
    for m in ("C01", "C03", "C05", "C06", "C07", "C09", "C11", "C12", "C13", "C15", "C16", "C17", "C18", "C19", "C20")
]
