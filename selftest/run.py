#!/usr/bin/env python3
"""Self-test of the checkers (DESIGN section 8).

Each case in cases/*.py (a list CASES of dicts) describes a small edit of coset:
  id, prop (or props), edits=[(file, old, new)], expect='fire'|'quiet'|'limit' (documented false alarm), rule (optional: a rule name that
  must be among the failed obligations), note.
The edit is applied to a scratch copy of /repo (outside /repo and /verif, removed afterwards), the same
driver analyses the copy, and the verdict is compared with `expect`.

usage: selftest/run.py [--prop C13] [--id name] [--tests] [-j N] [--keep]
  --tests   additionally run coset's test suite on the mutant (must pass for 'fire' cases: the
            mutants are meant to be invisible to the tests)
"""
import argparse
import glob
import importlib.util
import json
import os
import shutil
import subprocess
import sys
import tempfile
from concurrent.futures import ThreadPoolExecutor

HERE = os.path.dirname(os.path.abspath(__file__))
VERIF = os.path.dirname(HERE)


def load_cases():
    cases = []
    for p in sorted(glob.glob(os.path.join(HERE, "cases", "*.py"))):
        spec = importlib.util.spec_from_file_location(os.path.basename(p)[:-3], p)
        m = importlib.util.module_from_spec(spec)
        spec.loader.exec_module(m)
        cases.extend(m.CASES)
    return cases


def make_scratch(repo=None):
    repo = repo or os.environ.get("SELFTEST_REPO", "/repo")   # a pristine export of HEAD while /repo is being patched by a seed evaluation
    d = tempfile.mkdtemp(prefix="coset-selftest-")
    for name in ("Cargo.toml", "Cargo.lock", "src", "examples"):
        s = os.path.join(repo, name)
        if os.path.isdir(s):
            shutil.copytree(s, os.path.join(d, name))
        elif os.path.exists(s):
            shutil.copy(s, os.path.join(d, name))
    return d


def apply_edits(d, edits):
    for e in edits:
        f, old, new = e[0], e[1], e[2]
        count = e[3] if len(e) > 3 else 1
        p = os.path.join(d, f)
        t = open(p).read()
        n = t.count(old)
        if n < 1 or (count != "all" and n != count):
            raise RuntimeError("edit does not apply: %r occurs %d times in %s (expected %s)" % (old[:60], n, f, count))
        t = t.replace(old, new)
        open(p, "w").write(t)


def run_case(case, args):
    props = case.get("props") or [case["prop"]]
    d = make_scratch()
    res = {"id": case["id"], "expect": case["expect"], "props": props, "ok": True, "msgs": []}
    try:
        try:
            for pf, rev in case.get("patches", []):
                r = subprocess.run(["patch", "-p1", "-s"] + (["-R"] if rev else []) + ["-i", os.path.join(VERIF, pf)], cwd=d,
                                   stdout=subprocess.PIPE, stderr=subprocess.STDOUT, text=True)
                if r.returncode != 0:
                    raise RuntimeError("patch %s does not apply: %s" % (pf, r.stdout[-300:]))
            apply_edits(d, case.get("edits", []))
        except RuntimeError as e:
            res["ok"] = False
            res["msgs"].append(str(e))
            return res
        for prop in props:
            out = os.path.join(d, "out")
            r = subprocess.run([os.path.join(VERIF, "check"), prop, "--repo", d, "--no-evidence", "--json", "--out", args.out],
                               stdout=subprocess.PIPE, stderr=subprocess.STDOUT, text=True)
            fired = "VIOLATION property=" in r.stdout
            if "cannot analyse" in r.stdout:
                res["ok"] = False
                res["msgs"].append("%s: mutant does not compile / analyse:\n%s" % (prop, r.stdout[-1500:]))
                continue
            if case["expect"] == "fire":
                if not fired:
                    res["ok"] = False
                    res["msgs"].append("%s: expected a violation, checker stayed quiet" % prop)
                elif case.get("rule"):
                    want = case["rule"] if isinstance(case["rule"], (list, tuple)) else [case["rule"]]
                    hit = [l for l in r.stdout.splitlines() if "FAILED" in l and any((" %s " % w) in l for w in want)]
                    if not hit:
                        res["ok"] = False
                        res["msgs"].append("%s: fired, but not rule %s:\n%s" % (prop, want, "\n".join(
                            l for l in r.stdout.splitlines() if "FAILED" in l)))
                if fired and case.get("names"):
                    if case["names"] not in r.stdout:
                        res["ok"] = False
                        res["msgs"].append("%s: report does not name %r" % (prop, case["names"]))
            elif case["expect"] == "limit":
                # a documented limit of the analyses (DESIGN 11.6): behaviour-preserving code on which some check still raises an
                # alarm.  Listed on every run, never hidden; it does not fail the self-test, and it is reported when it goes away.
                if fired or r.returncode != 0:
                    res.setdefault("limit_fired", []).append(prop)
            else:
                if fired or r.returncode != 0:
                    res["ok"] = False
                    res["msgs"].append("%s: expected silence, got:\n%s" % (prop, "\n".join(
                        l for l in r.stdout.splitlines() if not l.startswith(" ") and not l.startswith("[") and not l.startswith("{"))[-1500:]))
            if args.verbose:
                res["msgs"].append(r.stdout[-3000:])
        if args.tests:
            tgt = os.path.join(args.out, "target-selftest-tests")
            env = dict(os.environ, CARGO_TARGET_DIR=tgt, CARGO_NET_OFFLINE="true")
            r = subprocess.run(["cargo", "test", "--offline", "--lib", "-q"], cwd=d, env=env,
                               stdout=subprocess.PIPE, stderr=subprocess.STDOUT, text=True)
            passed = r.returncode == 0
            res["tests_pass"] = passed
            if case["expect"] == "fire" and not passed and not case.get("tests_may_fail"):
                res["ok"] = False
                res["msgs"].append("mutant is visible to the test suite:\n" + r.stdout[-800:])
    finally:
        if not args.keep:
            shutil.rmtree(d, ignore_errors=True)
        else:
            res["msgs"].append("kept " + d)
    return res


def main():
    ap = argparse.ArgumentParser()
    ap.add_argument("--prop")
    ap.add_argument("--id")
    ap.add_argument("--tests", action="store_true")
    ap.add_argument("-j", type=int, default=8)
    ap.add_argument("--keep", action="store_true")
    ap.add_argument("--verbose", "-v", action="store_true")
    ap.add_argument("--out", default=os.path.join(VERIF, "out", "selftest"))
    ap.add_argument("--json", default=None)
    args = ap.parse_args()
    os.makedirs(args.out, exist_ok=True)
    cases = load_cases()
    if args.prop:
        cases = [c for c in cases if args.prop in (c.get("props") or [c["prop"]])]
    if args.id:
        cases = [c for c in cases if args.id in c["id"]]
    j = 1 if args.tests else args.j
    with ThreadPoolExecutor(max_workers=j) as ex:
        results = list(ex.map(lambda c: run_case(c, args), cases))
    bad = 0
    for r in results:
        if r["expect"] == "limit" and r["ok"]:
            lf = r.get("limit_fired", [])
            print("%-4s %-5s %-60s %s" % ("LIM" if lf else "ok", r["expect"], r["id"],
                                          ("known false alarm of " + ",".join(lf)) if lf else "no check fires any more: make it a `quiet` case"))
            continue
        print("%-4s %-5s %-60s %s" % ("ok" if r["ok"] else "BAD", r["expect"], r["id"], ",".join(r["props"])))
        if not r["ok"] or args.verbose:
            for m in r["msgs"]:
                print("      " + m.replace("\n", "\n      "))
        bad += 0 if r["ok"] else 1
    print("%d cases, %d bad" % (len(results), bad))
    if args.json:
        json.dump(results, open(args.json, "w"), indent=1)
    sys.exit(1 if bad else 0)


if __name__ == "__main__":
    main()
