// coset-mirfacts: a rustc driver that dumps "the resolved program" of the crate being
// compiled (MIR bodies with resolved callees, ADTs with evaluated discriminants, impls,
// constants, doc attributes) as one JSON document.  It performs NO analysis itself; all
// rules live in /verif/checks (python).  See DESIGN.md section 2.
//
// Invoked by cargo as RUSTC_WORKSPACE_WRAPPER (argv[1] is the real rustc and is dropped).
// Environment:
//   MIRFACTS_OUT    directory to write <crate>.json into (required to dump anything)
//   MIRFACTS_NONCE  copied into meta.nonce (the runner refuses stale files)
//   MIRFACTS_CRATES comma separated crate names to dump (default: coset)
#![feature(rustc_private)]
#![allow(clippy::all)]
extern crate rustc_abi;
extern crate rustc_driver;
extern crate rustc_hir;
extern crate rustc_interface;
extern crate rustc_middle;
extern crate rustc_span;

mod json;
use json::J;

use rustc_driver::Compilation;
use rustc_hir::def::DefKind;
use rustc_hir::def_id::{DefId, LOCAL_CRATE};
use rustc_middle::middle::codegen_fn_attrs::CodegenFnAttrFlags;
use rustc_middle::mir::{
    self, AggregateKind, BorrowKind, Const, ConstValue, Operand, Place, ProjectionElem, Rvalue,
    StatementKind, TerminatorKind, UnwindAction,
};
use rustc_middle::ty::print::{with_no_trimmed_paths, with_no_visible_paths};
use rustc_middle::ty::{self, EarlyBinder, GenericArgsRef, Ty, TyCtxt, TypeVisitableExt};
use rustc_span::Span;
use std::collections::{BTreeMap, BTreeSet, VecDeque};

struct Cb;

fn s(x: impl Into<String>) -> J {
    J::Str(x.into())
}

fn path_of(tcx: TyCtxt<'_>, did: DefId) -> String {
    with_no_visible_paths!(with_no_trimmed_paths!(tcx.def_path_str(did)))
}

fn ty_str(ty: Ty<'_>) -> String {
    with_no_visible_paths!(with_no_trimmed_paths!(ty.to_string()))
}

fn span_str(tcx: TyCtxt<'_>, sp: Span) -> String {
    let sm = tcx.sess.source_map();
    let lo = sm.lookup_char_pos(sp.lo());
    let name = with_no_trimmed_paths!(format!("{}", lo.file.name.prefer_local_unconditionally()));
    format!("{}:{}", name, lo.line)
}

fn line_of(tcx: TyCtxt<'_>, sp: Span) -> i64 {
    tcx.sess.source_map().lookup_char_pos(sp.lo()).line as i64
}

fn adt_path_of_ty<'tcx>(tcx: TyCtxt<'tcx>, ty: Ty<'tcx>) -> Option<String> {
    let mut t = ty;
    loop {
        match t.kind() {
            ty::Ref(_, inner, _) => t = *inner,
            ty::Adt(def, _) => return Some(path_of(tcx, def.did())),
            _ => return None,
        }
    }
}

struct Dumper<'tcx> {
    tcx: TyCtxt<'tcx>,
    // instance work-list: (def, args) -> key
    inst_seen: BTreeSet<String>,
    inst_queue: VecDeque<(DefId, GenericArgsRef<'tcx>)>,
    // every enum (of any crate) whose discriminant is read or that is constructed: path -> [(discr, variant)]
    enums: BTreeMap<String, Vec<(i128, String)>>,
}

impl<'tcx> Dumper<'tcx> {
    fn note_enum(&mut self, ty: Ty<'tcx>) {
        let tcx = self.tcx;
        let mut t = ty;
        while let ty::Ref(_, inner, _) = t.kind() {
            t = *inner;
        }
        if let ty::Adt(def, _) = t.kind() {
            if def.is_enum() {
                let p = path_of(tcx, def.did());
                if !self.enums.contains_key(&p) {
                    let v: Vec<(i128, String)> = def
                        .discriminants(tcx)
                        .map(|(vi, d)| {
                            let sz = d.ty.primitive_size(tcx);
                            let val = if d.ty.is_signed() { sz.sign_extend(d.val) as i128 } else { d.val as i128 };
                            (val, def.variant(vi).name.to_string())
                        })
                        .collect();
                    self.enums.insert(p, v);
                }
            }
        }
    }

    fn generic_args(&self, args: GenericArgsRef<'tcx>) -> J {
        J::Arr(
            args.iter()
                .filter_map(|a| match a.kind() {
                    ty::GenericArgKind::Type(t) => Some(s(ty_str(t))),
                    ty::GenericArgKind::Const(c) => Some(s(format!("{:?}", c))),
                    ty::GenericArgKind::Lifetime(_) => None,
                })
                .collect(),
        )
    }

    fn inst_key(&self, did: DefId, args: GenericArgsRef<'tcx>) -> String {
        with_no_visible_paths!(with_no_trimmed_paths!(self.tcx.def_path_str_with_args(did, args)))
    }

    fn place(&self, body: &mir::Body<'tcx>, p: &Place<'tcx>) -> J {
        let tcx = self.tcx;
        let mut proj = Vec::new();
        for (base, elem) in p.iter_projections() {
            let bty = base.ty(&body.local_decls, tcx);
            let e = match elem {
                ProjectionElem::Deref => J::Arr(vec![s("deref")]),
                ProjectionElem::Field(f, fty) => {
                    let idx = f.as_usize();
                    let name = match bty.ty.kind() {
                        ty::Adt(def, _) => {
                            let v = match bty.variant_index {
                                Some(v) => def.variant(v),
                                None => {
                                    if def.is_enum() {
                                        // field of enum without downcast: should not happen
                                        def.variant(rustc_abi::VariantIdx::from_usize(0))
                                    } else {
                                        def.non_enum_variant()
                                    }
                                }
                            };
                            v.fields.get(f).map(|fd| fd.name.to_string()).unwrap_or(idx.to_string())
                        }
                        _ => idx.to_string(),
                    };
                    J::Arr(vec![s("field"), J::Int(idx as i128), s(name), s(ty_str(fty))])
                }
                ProjectionElem::Downcast(sym, v) => {
                    let name = match sym {
                        Some(sy) => sy.to_string(),
                        None => match bty.ty.kind() {
                            ty::Adt(def, _) => def.variant(v).name.to_string(),
                            _ => v.as_usize().to_string(),
                        },
                    };
                    J::Arr(vec![s("downcast"), s(name), J::Int(v.as_usize() as i128)])
                }
                ProjectionElem::Index(l) => J::Arr(vec![s("index"), J::Int(l.as_usize() as i128)]),
                ProjectionElem::ConstantIndex { offset, min_length, from_end } => J::Arr(vec![
                    s("constindex"),
                    J::Int(offset as i128),
                    J::Int(min_length as i128),
                    J::Bool(from_end),
                ]),
                ProjectionElem::Subslice { from, to, from_end } => {
                    J::Arr(vec![s("subslice"), J::Int(from as i128), J::Int(to as i128), J::Bool(from_end)])
                }
                ProjectionElem::OpaqueCast(_) => J::Arr(vec![s("opaquecast")]),
                ProjectionElem::UnwrapUnsafeBinder(_) => J::Arr(vec![s("unwrapbinder")]),
            };
            proj.push(e);
        }
        J::obj(vec![("l", J::Int(p.local.as_usize() as i128)), ("p", J::Arr(proj))])
    }

    fn fn_ref(&mut self, owner: DefId, did: DefId, args: GenericArgsRef<'tcx>) -> J {
        let tcx = self.tcx;
        let mut o: Vec<(&str, J)> = Vec::new();
        o.push(("path", s(path_of(tcx, did))));
        o.push(("args", self.generic_args(args)));
        o.push(("full", s(self.inst_key(did, args))));
        o.push(("crate", s(tcx.crate_name(did.krate).to_string())));
        o.push(("local", J::Bool(did.is_local())));
        let dk = tcx.def_kind(did);
        o.push(("defkind", s(format!("{:?}", dk))));
        if matches!(dk, DefKind::Fn | DefKind::AssocFn | DefKind::Ctor(..)) {
            let tc = tcx.codegen_fn_attrs(did).flags.contains(CodegenFnAttrFlags::TRACK_CALLER);
            o.push(("track_caller", J::Bool(tc)));
            let never = tcx.fn_sig(did).skip_binder().output().skip_binder().is_never();
            o.push(("never", J::Bool(never)));
            // functions whose arithmetic panics on overflow exactly when the CALLER is built with overflow checks
            // (i64::abs, pow, Neg::neg on integers, ...)
            let ioc = tcx.get_all_attrs(did).iter().any(|a| a.has_name(rustc_span::sym::rustc_inherit_overflow_checks));
            o.push(("inherit_overflow_checks", J::Bool(ioc)));
        }
        if let Some(tr) = tcx.trait_of_assoc(did) {
            o.push(("trait", s(path_of(tcx, tr))));
            if let Some(st) = args.types().next() {
                o.push(("self_ty", s(ty_str(st))));
            }
        } else if let Some(im) = tcx.impl_of_assoc(did) {
            o.push(("impl_self_ty", s(ty_str(tcx.type_of(im).skip_binder()))));
            if let Some(tr) = tcx.impl_opt_trait_ref(im) {
                o.push(("impl_trait", s(path_of(tcx, tr.skip_binder().def_id))));
            }
        }
        o.push(("name", s(tcx.item_name(did).to_string())));
        // resolution
        let generic_owner = tcx.generics_of(owner).requires_monomorphization(tcx);
        let env = ty::TypingEnv::post_analysis(tcx, owner);
        let _ = generic_owner;
        if matches!(dk, DefKind::Fn | DefKind::AssocFn) {
            match ty::Instance::try_resolve(tcx, env, did, args) {
                Ok(Some(inst)) => {
                    let rd = inst.def_id();
                    let mut r: Vec<(&str, J)> = Vec::new();
                    r.push(("path", s(path_of(tcx, rd))));
                    r.push(("args", self.generic_args(inst.args)));
                    r.push(("full", s(self.inst_key(rd, inst.args))));
                    r.push(("local", J::Bool(rd.is_local())));
                    r.push(("kind", s(format!("{:?}", inst.def).split('(').next().unwrap_or("").to_string())));
                    if let ty::InstanceKind::Item(_) = inst.def {
                        if rd.is_local() && tcx.is_mir_available(rd) && !inst.args.has_non_region_param() {
                            if inst.args.non_erasable_generics().next().is_some() {
                                self.enqueue(rd, inst.args);
                                r.push(("instance", s(self.inst_key(rd, inst.args))));
                            }
                        }
                    }
                    o.push(("resolved", J::obj(r)));
                }
                _ => {
                    o.push(("resolved", J::Null));
                }
            }
        }
        J::obj(o)
    }

    fn enqueue(&mut self, did: DefId, args: GenericArgsRef<'tcx>) {
        let k = self.inst_key(did, args);
        if self.inst_seen.len() < 4000 && self.inst_seen.insert(k) {
            self.inst_queue.push_back((did, args));
        }
    }

    fn scalar_of_const(&self, owner: DefId, c: &Const<'tcx>) -> Option<J> {
        let tcx = self.tcx;
        let ty = c.ty();
        let env = ty::TypingEnv::post_analysis(tcx, owner);
        match ty.kind() {
            ty::Bool | ty::Char | ty::Int(_) | ty::Uint(_) => {}
            _ => return None,
        }
        if c.has_non_region_param() {
            return None;
        }
        let si = c.try_eval_scalar_int(tcx, env)?;
        Some(match ty.kind() {
            ty::Bool => J::Bool(si.try_to_bool().ok()?),
            ty::Char => s(char::from_u32(si.to_u32()).map(|c| c.to_string()).unwrap_or_default()),
            ty::Int(_) => J::Int(si.to_int(si.size())),
            ty::Uint(_) => J::Int(si.to_uint(si.size()) as i128),
            _ => return None,
        })
    }

    fn constant(&mut self, owner: DefId, c: &Const<'tcx>) -> J {
        let tcx = self.tcx;
        let ty = c.ty();
        let mut o: Vec<(&str, J)> = vec![("k", s("const")), ("ty", s(ty_str(ty)))];
        if let Some(v) = self.scalar_of_const(owner, c) {
            o.push(("val", v));
        }
        match ty.kind() {
            ty::FnDef(did, args) => {
                o.push(("fn", self.fn_ref(owner, *did, args)));
            }
            ty::Ref(_, inner, _) if inner.is_str() => {
                if !c.has_non_region_param() {
                    let env = ty::TypingEnv::post_analysis(tcx, owner);
                    if let Ok(cv) = c.eval(tcx, env, rustc_span::DUMMY_SP) {
                        if let ConstValue::Slice { .. } = cv {
                            if let Some(b) = cv.try_get_slice_bytes_for_diagnostics(tcx) {
                                o.push(("val", s(String::from_utf8_lossy(b).to_string())));
                            }
                        }
                    }
                }
            }
            ty::Closure(did, _) => {
                o.push(("closure", s(path_of(tcx, *did))));
            }
            _ => {}
        }
        if let Const::Unevaluated(uv, _) = c {
            o.push(("def", s(path_of(tcx, uv.def))));
            if let Some(p) = uv.promoted {
                o.push(("promoted", J::Int(p.as_usize() as i128)));
            }
        }
        if let Const::Ty(_, tc) = c {
            if let ty::ConstKind::Unevaluated(uv) = tc.kind() {
                o.push(("def", s(path_of(tcx, uv.def))));
            }
        }
        if let Some(a) = adt_path_of_ty(tcx, ty) {
            o.push(("adt", s(a)));
        }
        J::obj(o)
    }

    fn operand(&mut self, owner: DefId, body: &mir::Body<'tcx>, op: &Operand<'tcx>) -> J {
        match op {
            Operand::Copy(p) => J::obj(vec![("k", s("copy")), ("place", self.place(body, p))]),
            Operand::Move(p) => J::obj(vec![("k", s("move")), ("place", self.place(body, p))]),
            Operand::Constant(c) => self.constant(owner, &c.const_),
            Operand::RuntimeChecks(rc) => J::obj(vec![("k", s("runtimechecks")), ("dbg", s(format!("{:?}", rc)))]),
        }
    }

    fn rvalue(&mut self, owner: DefId, body: &mir::Body<'tcx>, rv: &Rvalue<'tcx>) -> J {
        let tcx = self.tcx;
        match rv {
            Rvalue::Use(op, _) => J::obj(vec![("k", s("use")), ("op", self.operand(owner, body, op))]),
            Rvalue::CopyForDeref(p) => J::obj(vec![
                ("k", s("use")),
                ("op", J::obj(vec![("k", s("copy")), ("place", self.place(body, p))])),
            ]),
            Rvalue::Ref(_, bk, p) => J::obj(vec![
                ("k", s("ref")),
                ("mut", J::Bool(matches!(bk, BorrowKind::Mut { .. }))),
                ("fake", J::Bool(matches!(bk, BorrowKind::Fake(_)))),
                ("place", self.place(body, p)),
            ]),
            Rvalue::RawPtr(k, p) => {
                J::obj(vec![("k", s("rawptr")), ("kind", s(format!("{:?}", k))), ("place", self.place(body, p))])
            }
            Rvalue::Cast(kind, op, ty) => {
                let from = op.ty(&body.local_decls, tcx);
                let mut o = vec![
                    ("k", s("cast")),
                    ("kind", s(format!("{:?}", kind).split('(').next().unwrap_or("").to_string())),
                    ("kind_full", s(format!("{:?}", kind))),
                    ("op", self.operand(owner, body, op)),
                    ("ty", s(ty_str(*ty))),
                    ("from_ty", s(ty_str(from))),
                ];
                if let Some(a) = adt_path_of_ty(tcx, from) {
                    o.push(("from_adt", s(a)));
                }
                J::obj(o)
            }
            Rvalue::BinaryOp(op, ab) => J::obj(vec![
                ("k", s("binop")),
                ("op", s(format!("{:?}", op))),
                ("a", self.operand(owner, body, &ab.0)),
                ("b", self.operand(owner, body, &ab.1)),
            ]),
            Rvalue::UnaryOp(op, a) => J::obj(vec![
                ("k", s("unop")),
                ("op", s(format!("{:?}", op))),
                ("a", self.operand(owner, body, a)),
            ]),
            Rvalue::Discriminant(p) => {
                let pty = p.ty(&body.local_decls, tcx).ty;
                self.note_enum(pty);
                let mut o = vec![("k", s("discr")), ("place", self.place(body, p))];
                if let Some(a) = adt_path_of_ty(tcx, pty) {
                    o.push(("adt", s(a)));
                }
                J::obj(o)
            }
            Rvalue::Aggregate(kind, ops) => {
                let mut o: Vec<(&str, J)> = vec![("k", s("aggr"))];
                match &**kind {
                    AggregateKind::Array(t) => {
                        o.push(("kind", s("array")));
                        o.push(("elem_ty", s(ty_str(*t))));
                    }
                    AggregateKind::Tuple => o.push(("kind", s("tuple"))),
                    AggregateKind::Adt(did, vidx, args, _, active) => {
                        let def = tcx.adt_def(*did);
                        let v = def.variant(*vidx);
                        if def.is_enum() {
                            self.note_enum(tcx.type_of(*did).skip_binder());
                        }
                        o.push(("kind", s("adt")));
                        o.push(("adt", s(path_of(tcx, *did))));
                        o.push(("variant", s(v.name.to_string())));
                        o.push(("variant_idx", J::Int(vidx.as_usize() as i128)));
                        o.push(("args", self.generic_args(args)));
                        let names: Vec<J> = if let Some(a) = active {
                            vec![s(v.fields[*a].name.to_string())]
                        } else {
                            v.fields.iter().map(|f| s(f.name.to_string())).collect()
                        };
                        o.push(("fields", J::Arr(names)));
                    }
                    AggregateKind::Closure(did, _) => {
                        o.push(("kind", s("closure")));
                        o.push(("closure", s(path_of(tcx, *did))));
                    }
                    other => {
                        o.push(("kind", s("other")));
                        o.push(("dbg", s(format!("{:?}", other))));
                    }
                }
                let opsj: Vec<J> = ops.iter().map(|x| self.operand(owner, body, x)).collect();
                o.push(("ops", J::Arr(opsj)));
                J::obj(o)
            }
            Rvalue::Repeat(op, n) => J::obj(vec![
                ("k", s("repeat")),
                ("op", self.operand(owner, body, op)),
                ("n", s(format!("{:?}", n))),
            ]),
            other => J::obj(vec![("k", s("other")), ("dbg", s(format!("{:?}", other)))]),
        }
    }

    fn body(&mut self, owner: DefId, body: &mir::Body<'tcx>) -> Vec<(&'static str, J)> {
        let tcx = self.tcx;
        let mut names: BTreeMap<usize, String> = BTreeMap::new();
        for vdi in &body.var_debug_info {
            if let mir::VarDebugInfoContents::Place(p) = &vdi.value {
                if p.projection.is_empty() {
                    names.entry(p.local.as_usize()).or_insert(vdi.name.to_string());
                }
            }
        }
        let locals: Vec<J> = body
            .local_decls
            .iter_enumerated()
            .map(|(l, d)| {
                let mut o = vec![("ty", s(ty_str(d.ty)))];
                if let Some(n) = names.get(&l.as_usize()) {
                    o.push(("name", s(n.clone())));
                }
                if let Some(a) = adt_path_of_ty(tcx, d.ty) {
                    o.push(("adt", s(a)));
                }
                o.push(("mut", J::Bool(d.mutability.is_mut())));
                J::obj(o)
            })
            .collect();
        let mut blocks = Vec::new();
        for (_bb, data) in body.basic_blocks.iter_enumerated() {
            let mut stmts = Vec::new();
            for st in &data.statements {
                let line = line_of(tcx, st.source_info.span);
                let exp = st.source_info.span.from_expansion();
                match &st.kind {
                    StatementKind::Assign(b) => {
                        let (p, rv) = &**b;
                        stmts.push(J::obj(vec![
                            ("k", s("assign")),
                            ("dst", self.place(body, p)),
                            ("rv", self.rvalue(owner, body, rv)),
                            ("line", J::Int(line as i128)),
                            ("exp", J::Bool(exp)),
                        ]));
                    }
                    StatementKind::SetDiscriminant { place, variant_index } => {
                        stmts.push(J::obj(vec![
                            ("k", s("setdiscr")),
                            ("dst", self.place(body, place)),
                            ("variant_idx", J::Int(variant_index.as_usize() as i128)),
                            ("line", J::Int(line as i128)),
                        ]));
                    }
                    StatementKind::Intrinsic(i) => {
                        stmts.push(J::obj(vec![("k", s("intrinsic")), ("dbg", s(format!("{:?}", i)))]));
                    }
                    _ => {}
                }
            }
            let term = data.terminator();
            let tline = line_of(tcx, term.source_info.span);
            let texp = term.source_info.span.from_expansion();
            let unwind_of = |u: &UnwindAction| -> J {
                match u {
                    UnwindAction::Cleanup(b) => J::Int(b.as_usize() as i128),
                    _ => J::Null,
                }
            };
            let mut t: Vec<(&str, J)> = Vec::new();
            match &term.kind {
                TerminatorKind::Goto { target } => {
                    t.push(("k", s("goto")));
                    t.push(("target", J::Int(target.as_usize() as i128)));
                }
                TerminatorKind::SwitchInt { discr, targets } => {
                    t.push(("k", s("switch")));
                    t.push(("op", self.operand(owner, body, discr)));
                    let dty = discr.ty(&body.local_decls, tcx);
                    t.push(("ty", s(ty_str(dty))));
                    let signed = dty.is_signed();
                    let bits: u32 = match dty.kind() {
                        ty::Int(i) => i.bit_width().unwrap_or(64) as u32,
                        ty::Uint(i) => i.bit_width().unwrap_or(64) as u32,
                        ty::Bool => 8,
                        ty::Char => 32,
                        _ => 128,
                    };
                    let mut arr = Vec::new();
                    for (v, b) in targets.iter() {
                        let vv: i128 = if signed && bits < 128 {
                            let shift = 128 - bits;
                            ((v as i128) << shift) >> shift
                        } else {
                            v as i128
                        };
                        arr.push(J::Arr(vec![J::Int(vv), J::Int(b.as_usize() as i128)]));
                    }
                    t.push(("targets", J::Arr(arr)));
                    t.push(("otherwise", J::Int(targets.otherwise().as_usize() as i128)));
                }
                TerminatorKind::Return => t.push(("k", s("return"))),
                TerminatorKind::Unreachable => t.push(("k", s("unreachable"))),
                TerminatorKind::UnwindResume => t.push(("k", s("resume"))),
                TerminatorKind::UnwindTerminate(_) => t.push(("k", s("terminate"))),
                TerminatorKind::Drop { place, target, unwind, .. } => {
                    t.push(("k", s("drop")));
                    t.push(("place", self.place(body, place)));
                    t.push(("target", J::Int(target.as_usize() as i128)));
                    t.push(("unwind", unwind_of(unwind)));
                }
                TerminatorKind::Call { func, args, destination, target, unwind, .. } => {
                    t.push(("k", s("call")));
                    let fty = func.ty(&body.local_decls, tcx);
                    match fty.kind() {
                        ty::FnDef(did, gargs) => {
                            t.push(("callee", self.fn_ref(owner, *did, gargs)));
                        }
                        _ => {
                            t.push(("callee", J::Null));
                            t.push(("func_ty", s(ty_str(fty))));
                        }
                    }
                    t.push(("func", self.operand(owner, body, func)));
                    let a: Vec<J> = args.iter().map(|x| self.operand(owner, body, &x.node)).collect();
                    t.push(("args", J::Arr(a)));
                    t.push(("dest", self.place(body, destination)));
                    t.push(("target", target.map(|b| J::Int(b.as_usize() as i128)).unwrap_or(J::Null)));
                    t.push(("unwind", unwind_of(unwind)));
                }
                TerminatorKind::Assert { cond, expected, msg, target, unwind } => {
                    t.push(("k", s("assert")));
                    t.push(("cond", self.operand(owner, body, cond)));
                    t.push(("expected", J::Bool(*expected)));
                    let (kind, ops): (String, Vec<J>) = match &**msg {
                        mir::AssertKind::Overflow(op, a, b) => (
                            format!("Overflow({:?})", op),
                            vec![self.operand(owner, body, a), self.operand(owner, body, b)],
                        ),
                        mir::AssertKind::BoundsCheck { len, index } => (
                            "BoundsCheck".to_string(),
                            vec![self.operand(owner, body, len), self.operand(owner, body, index)],
                        ),
                        mir::AssertKind::OverflowNeg(a) => ("OverflowNeg".to_string(), vec![self.operand(owner, body, a)]),
                        mir::AssertKind::DivisionByZero(a) => {
                            ("DivisionByZero".to_string(), vec![self.operand(owner, body, a)])
                        }
                        mir::AssertKind::RemainderByZero(a) => {
                            ("RemainderByZero".to_string(), vec![self.operand(owner, body, a)])
                        }
                        other => (format!("{:?}", other).split('(').next().unwrap_or("").to_string(), vec![]),
                    };
                    t.push(("kind", s(kind)));
                    t.push(("ops", J::Arr(ops)));
                    t.push(("target", J::Int(target.as_usize() as i128)));
                    t.push(("unwind", unwind_of(unwind)));
                }
                TerminatorKind::FalseEdge { real_target, .. } => {
                    t.push(("k", s("goto")));
                    t.push(("target", J::Int(real_target.as_usize() as i128)));
                }
                TerminatorKind::FalseUnwind { real_target, .. } => {
                    t.push(("k", s("goto")));
                    t.push(("target", J::Int(real_target.as_usize() as i128)));
                }
                other => {
                    t.push(("k", s("other")));
                    t.push(("dbg", s(format!("{:?}", other))));
                }
            }
            t.push(("line", J::Int(tline as i128)));
            t.push(("exp", J::Bool(texp)));
            blocks.push(J::obj(vec![
                ("stmts", J::Arr(stmts)),
                ("term", J::obj(t)),
                ("cleanup", J::Bool(data.is_cleanup)),
            ]));
        }
        vec![
            ("arg_count", J::Int(body.arg_count as i128)),
            ("locals", J::Arr(locals)),
            ("blocks", J::Arr(blocks)),
        ]
    }

    fn docs(&self, did: DefId) -> String {
        let mut docs = String::new();
        for a in self.tcx.get_all_attrs(did) {
            if let Some((sy, _)) = a.doc_str_and_fragment_kind() {
                docs.push_str(sy.as_str());
                docs.push('\n');
            }
        }
        docs
    }

    fn fn_header(&self, did: DefId) -> Vec<(&'static str, J)> {
        let tcx = self.tcx;
        let kind = tcx.def_kind(did);
        let mut o: Vec<(&'static str, J)> = Vec::new();
        o.push(("path", s(path_of(tcx, did))));
        o.push(("kind", s(format!("{:?}", kind).split(|c| c == '(' || c == ' ').next().unwrap_or("").to_string())));
        o.push(("span", s(span_str(tcx, tcx.def_span(did)))));
        o.push(("from_expansion", J::Bool(tcx.def_span(did).from_expansion())));
        if matches!(kind, DefKind::Fn | DefKind::AssocFn) {
            o.push(("vis", s(format!("{:?}", tcx.visibility(did)))));
            o.push(("pub", J::Bool(tcx.visibility(did).is_public())));
            let d = self.docs(did);
            o.push(("doc_panics", J::Bool(d.contains("# Panics"))));
            o.push(("doc", s(d)));
            o.push(("name", s(tcx.item_name(did).to_string())));
            let sig = tcx.fn_sig(did).skip_binder().skip_binder();
            o.push(("inputs", J::Arr(sig.inputs().iter().map(|t| s(ty_str(*t))).collect())));
            o.push(("output", s(ty_str(sig.output()))));
        }
        o.push(("generic", J::Bool(tcx.generics_of(did).requires_monomorphization(tcx))));
        if let Some(tr) = tcx.trait_of_assoc(did) {
            o.push(("trait_default_of", s(path_of(tcx, tr))));
        }
        if let Some(im) = tcx.impl_of_assoc(did) {
            o.push(("impl_self_ty", s(ty_str(tcx.type_of(im).skip_binder()))));
            if let Some(a) = adt_path_of_ty(tcx, tcx.type_of(im).skip_binder()) {
                o.push(("impl_self_adt", s(a)));
            }
            if let Some(tr) = tcx.impl_opt_trait_ref(im) {
                o.push(("impl_trait", s(path_of(tcx, tr.skip_binder().def_id))));
            }
        }
        if tcx.is_closure_like(did) {
            let parent = tcx.typeck_root_def_id(did);
            o.push(("closure_of", s(path_of(tcx, parent))));
        }
        o
    }

    fn instance_calls(&mut self, did: DefId, args: GenericArgsRef<'tcx>) -> J {
        let tcx = self.tcx;
        let body = tcx.optimized_mir(did);
        let env = ty::TypingEnv::fully_monomorphized();
        let mut calls: Vec<(String, J)> = Vec::new();
        let mut fnrefs: Vec<J> = Vec::new();
        let resolve = |this: &mut Self, fty: Ty<'tcx>| -> Option<J> {
            let fty = tcx.instantiate_and_normalize_erasing_regions(args, env, EarlyBinder::bind(fty));
            if let ty::FnDef(cd, a2) = fty.kind() {
                let mut o: Vec<(&str, J)> = vec![("path", s(path_of(tcx, *cd))), ("full", s(this.inst_key(*cd, a2)))];
                if let Ok(Some(inst)) = ty::Instance::try_resolve(tcx, env, *cd, a2) {
                    let rd = inst.def_id();
                    o.push(("rpath", s(path_of(tcx, rd))));
                    o.push(("rfull", s(this.inst_key(rd, inst.args))));
                    o.push(("rlocal", J::Bool(rd.is_local())));
                    o.push(("rargs", this.generic_args(inst.args)));
                    if let ty::InstanceKind::Item(_) = inst.def {
                        if rd.is_local() && tcx.is_mir_available(rd) && inst.args.non_erasable_generics().next().is_some() {
                            this.enqueue(rd, inst.args);
                            o.push(("instance", s(this.inst_key(rd, inst.args))));
                        }
                    }
                }
                Some(J::obj(o))
            } else if let ty::Closure(cd, _) = fty.kind() {
                Some(J::obj(vec![("closure", s(path_of(tcx, *cd)))]))
            } else {
                None
            }
        };
        for (bb, data) in body.basic_blocks.iter_enumerated() {
            // fn items / closures mentioned as values
            for st in &data.statements {
                if let StatementKind::Assign(b) = &st.kind {
                    let mut ops: Vec<&Operand<'tcx>> = Vec::new();
                    match &b.1 {
                        Rvalue::Use(op, _) => ops.push(op),
                        Rvalue::Aggregate(k, xs) => {
                            if let AggregateKind::Closure(cd, _) = &**k {
                                fnrefs.push(J::obj(vec![("closure", s(path_of(tcx, *cd)))]));
                            }
                            for x in xs.iter() {
                                ops.push(x);
                            }
                        }
                        Rvalue::Cast(_, op, _) => ops.push(op),
                        _ => {}
                    }
                    for op in ops {
                        if let Operand::Constant(c) = op {
                            if let Some(j) = resolve(self, c.const_.ty()) {
                                fnrefs.push(j);
                            }
                        }
                    }
                }
            }
            if let TerminatorKind::Call { func, args: cargs, .. } = &data.terminator().kind {
                let fty = func.ty(&body.local_decls, tcx);
                if let Some(j) = resolve(self, fty) {
                    calls.push((format!("{}", bb.as_usize()), j));
                }
                for a in cargs.iter() {
                    if let Operand::Constant(c) = &a.node {
                        if let Some(j) = resolve(self, c.const_.ty()) {
                            fnrefs.push(j);
                        }
                    }
                }
            }
        }
        J::obj(vec![
            ("def", s(path_of(tcx, did))),
            ("args", self.generic_args(args)),
            ("calls", J::Obj(calls)),
            ("fnrefs", J::Arr(fnrefs)),
        ])
    }

    fn run(&mut self, out_dir: &str, nonce: &str) {
        let tcx = self.tcx;
        let crate_name = tcx.crate_name(LOCAL_CRATE).to_string();
        let mut fns: Vec<(String, J)> = Vec::new();
        let mut seen_keys: BTreeSet<String> = BTreeSet::new();
        for ldid in tcx.hir_body_owners() {
            let did = ldid.to_def_id();
            let kind = tcx.def_kind(did);
            let is_fn = matches!(kind, DefKind::Fn | DefKind::AssocFn | DefKind::Closure);
            let is_const = matches!(kind, DefKind::Const { .. } | DefKind::AssocConst { .. });
            if !is_fn && !is_const {
                continue;
            }
            let mut key = path_of(tcx, did);
            while !seen_keys.insert(key.clone()) {
                key.push('\'');
            }
            let mut o = self.fn_header(did);
            if is_fn {
                if tcx.is_mir_available(did) {
                    let body = tcx.optimized_mir(did);
                    o.extend(self.body(did, body));
                    let proms = tcx.promoted_mir(did);
                    let mut pj = Vec::new();
                    for pb in proms.iter() {
                        pj.push(J::obj(self.body(did, pb)));
                    }
                    o.push(("promoted", J::Arr(pj)));
                }
            } else {
                let body = tcx.mir_for_ctfe(did);
                o.extend(self.body(did, body));
                // promoted bodies of a const item (`const ALL: &[Self] = &[Self::A, ..]`: the array is promoted #0)
                let proms = tcx.promoted_mir(did);
                let mut pj = Vec::new();
                for pb in proms.iter() {
                    pj.push(J::obj(self.body(did, pb)));
                }
                o.push(("promoted", J::Arr(pj)));
                o.push(("const_ty", s(ty_str(tcx.type_of(did).skip_binder()))));
                if !tcx.generics_of(did).requires_monomorphization(tcx) {
                    if let Ok(cv) = tcx.const_eval_poly(did) {
                        if let Some(si) = cv.try_to_scalar_int() {
                            let t = tcx.type_of(did).skip_binder();
                            let v = match t.kind() {
                                ty::Int(_) => Some(J::Int(si.to_int(si.size()))),
                                ty::Uint(_) => Some(J::Int(si.to_uint(si.size()) as i128)),
                                ty::Bool => si.try_to_bool().ok().map(J::Bool),
                                _ => None,
                            };
                            if let Some(v) = v {
                                o.push(("const_val", v));
                            }
                        }
                    }
                }
            }
            fns.push((key, J::obj(o)));
        }

        // ADTs, traits, impls
        let mut adts: Vec<(String, J)> = Vec::new();
        let mut traits: Vec<(String, J)> = Vec::new();
        let mut impls: Vec<J> = Vec::new();
        let mut statics: Vec<J> = Vec::new();
        let mut mods: Vec<J> = Vec::new();
        for ldid in tcx.hir_crate_items(()).definitions() {
            let did = ldid.to_def_id();
            match tcx.def_kind(did) {
                DefKind::Mod => {
                    // modules with their visibility: a private nested module is an implementation detail of its parent
                    // (items moved into `header/protected.rs` and re-exported keep their public path)
                    mods.push(J::obj(vec![
                        ("path", s(path_of(tcx, did))),
                        ("pub", J::Bool(tcx.visibility(did).is_public())),
                    ]));
                }
                DefKind::Static { .. } => {
                    statics.push(J::obj(vec![
                        ("path", s(path_of(tcx, did))),
                        ("ty", s(ty_str(tcx.type_of(did).skip_binder()))),
                        ("mutable", J::Bool(tcx.is_mutable_static(did))),
                    ]));
                }
                DefKind::Struct | DefKind::Enum => {
                    let def = tcx.adt_def(did);
                    let mut variants = Vec::new();
                    let discrs: BTreeMap<usize, i128> = if def.is_enum() {
                        def.discriminants(tcx)
                            .map(|(v, d)| {
                                let sz = d.ty.primitive_size(tcx);
                                let val = if d.ty.is_signed() { sz.sign_extend(d.val) as i128 } else { d.val as i128 };
                                (v.as_usize(), val)
                            })
                            .collect()
                    } else {
                        BTreeMap::new()
                    };
                    for (vi, v) in def.variants().iter_enumerated() {
                        let fields: Vec<J> = v
                            .fields
                            .iter()
                            .map(|f| {
                                J::obj(vec![
                                    ("name", s(f.name.to_string())),
                                    ("ty", s(ty_str(tcx.type_of(f.did).skip_binder()))),
                                    ("pub", J::Bool(f.vis.is_public())),
                                ])
                            })
                            .collect();
                        let mut vo = vec![("name", s(v.name.to_string())), ("fields", J::Arr(fields))];
                        if let Some(d) = discrs.get(&vi.as_usize()) {
                            vo.push(("discr", J::Int(*d)));
                        }
                        variants.push(J::obj(vo));
                    }
                    adts.push((
                        path_of(tcx, did),
                        J::obj(vec![
                            ("kind", s(if def.is_enum() { "enum" } else { "struct" })),
                            ("pub", J::Bool(tcx.visibility(did).is_public())),
                            ("span", s(span_str(tcx, tcx.def_span(did)))),
                            ("variants", J::Arr(variants)),
                        ]),
                    ));
                }
                DefKind::Trait => {
                    let items: Vec<J> = tcx
                        .associated_items(did)
                        .in_definition_order()
                        .filter_map(|it| {
                            let name = it.opt_name()?.to_string();
                            Some(J::obj(vec![
                                ("name", s(name)),
                                ("kind", s(format!("{:?}", it.kind).split(|c| c == ' ' || c == '{').next().unwrap_or("").to_string())),
                                ("has_default", J::Bool(it.defaultness(tcx).has_value())),
                            ]))
                        })
                        .collect();
                    traits.push((path_of(tcx, did), J::obj(vec![("items", J::Arr(items))])));
                }
                DefKind::Impl { of_trait } => {
                    let self_ty = tcx.type_of(did).skip_binder();
                    let mut o: Vec<(&str, J)> = vec![("self_ty", s(ty_str(self_ty)))];
                    if let Some(a) = adt_path_of_ty(tcx, self_ty) {
                        o.push(("self_adt", s(a)));
                    }
                    if of_trait {
                        let tr = tcx.impl_trait_ref(did).skip_binder();
                        o.push(("trait", s(path_of(tcx, tr.def_id))));
                        o.push(("trait_local", J::Bool(tr.def_id.is_local())));
                    } else {
                        o.push(("trait", J::Null));
                    }
                    o.push(("span", s(span_str(tcx, tcx.def_span(did)))));
                    o.push(("from_expansion", J::Bool(tcx.def_span(did).from_expansion())));
                    let mut items = Vec::new();
                    let mut consts: Vec<(String, J)> = Vec::new();
                    for it in tcx.associated_items(did).in_definition_order() {
                        let Some(name) = it.opt_name() else { continue };
                        items.push(J::obj(vec![
                            ("name", s(name.to_string())),
                            ("kind", s(format!("{:?}", it.kind).split(|c| c == ' ' || c == '{').next().unwrap_or("").to_string())),
                            ("path", s(path_of(tcx, it.def_id))),
                        ]));
                        if let ty::AssocKind::Const { .. } = it.kind {
                            if !tcx.generics_of(it.def_id).requires_monomorphization(tcx) {
                                if let Ok(cv) = tcx.const_eval_poly(it.def_id) {
                                    if let Some(si) = cv.try_to_scalar_int() {
                                        let t = tcx.type_of(it.def_id).skip_binder();
                                        let v = match t.kind() {
                                            ty::Int(_) => Some(J::Int(si.to_int(si.size()))),
                                            ty::Uint(_) => Some(J::Int(si.to_uint(si.size()) as i128)),
                                            _ => None,
                                        };
                                        if let Some(v) = v {
                                            consts.push((name.to_string(), v));
                                        }
                                    }
                                }
                            }
                        }
                    }
                    o.push(("items", J::Arr(items)));
                    o.push(("consts", J::Obj(consts)));
                    impls.push(J::obj(o));
                }
                _ => {}
            }
        }

        // instances
        let mut instances: Vec<(String, J)> = Vec::new();
        while let Some((did, args)) = self.inst_queue.pop_front() {
            let k = self.inst_key(did, args);
            let j = self.instance_calls(did, args);
            instances.push((k, j));
        }

        let cfgs: Vec<J> = std::env::args().filter(|a| a.starts_with("feature=")).map(|a| s(a)).collect();
        let meta = J::obj(vec![
            ("crate", s(crate_name.clone())),
            ("nonce", s(nonce)),
            ("rustc", s(option_env!("CFG_VERSION").unwrap_or("unknown"))),
            ("features", J::Arr(cfgs)),
            ("is_test", J::Bool(tcx.sess.is_test_crate())),
        ]);
        let doc = J::obj(vec![
            ("meta", meta),
            ("fns", J::Obj(fns)),
            ("adts", J::Obj(adts)),
            ("traits", J::Obj(traits)),
            ("impls", J::Arr(impls)),
            ("instances", J::Obj(instances)),
            ("statics", J::Arr(statics)),
            ("mods", J::Arr(mods)),
            (
                "enums",
                J::Obj(
                    self.enums
                        .iter()
                        .map(|(k, v)| {
                            (k.clone(), J::Arr(v.iter().map(|(d, n)| J::Arr(vec![J::Int(*d), s(n.clone())])).collect()))
                        })
                        .collect(),
                ),
            ),
        ]);
        let mut out = String::new();
        doc.write(&mut out);
        let suffix = if tcx.sess.is_test_crate() { ".test" } else { "" };
        let path = format!("{}/{}{}.json", out_dir, crate_name, suffix);
        let tmp = format!("{}.tmp.{}", path, std::process::id());
        std::fs::write(&tmp, out).expect("write facts");
        std::fs::rename(&tmp, &path).expect("rename facts");
    }
}

impl rustc_driver::Callbacks for Cb {
    fn after_analysis<'tcx>(&mut self, _c: &rustc_interface::interface::Compiler, tcx: TyCtxt<'tcx>) -> Compilation {
        let Ok(out_dir) = std::env::var("MIRFACTS_OUT") else { return Compilation::Continue };
        let crates = std::env::var("MIRFACTS_CRATES").unwrap_or_else(|_| "coset".to_string());
        let name = tcx.crate_name(LOCAL_CRATE).to_string();
        if !crates.split(',').any(|c| c == name) {
            return Compilation::Continue;
        }
        if tcx.dcx().has_errors().is_some() {
            return Compilation::Continue;
        }
        let nonce = std::env::var("MIRFACTS_NONCE").unwrap_or_default();
        let mut d = Dumper { tcx, inst_seen: BTreeSet::new(), inst_queue: VecDeque::new(), enums: BTreeMap::new() };
        d.run(&out_dir, &nonce);
        Compilation::Continue
    }
}

fn main() {
    let mut args: Vec<String> = std::env::args().collect();
    // As RUSTC_WORKSPACE_WRAPPER / RUSTC_WRAPPER: argv[1] is the path of the real rustc.
    if args.len() > 1 && (args[1].ends_with("rustc") || args[1].contains("/rustc")) {
        args.remove(1);
    }
    rustc_driver::run_compiler(&args, &mut Cb);
}
