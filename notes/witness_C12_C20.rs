use coset::{CborSerializable, CborOrdering, CoseKey, Header, Label, cbor::value::Value, iana, Algorithm};
fn main() {
    // C20: key {1: 4(Symmetric), 0: h'01', -1: h'02'}
    let data = hex::decode("a3010400410120 4102".replace(' ', "")).unwrap();
    let mut k = CoseKey::from_slice(&data).unwrap();
    k.canonicalize(CborOrdering::Lexicographic);
    println!("canon lex : {}", hex::encode(k.clone().to_vec().unwrap()));
    k.canonicalize(CborOrdering::LengthFirstLexicographic);
    println!("canon len : {}", hex::encode(k.to_vec().unwrap()));
    // C12 encode: typed alg + extra label 1
    let h = Header { alg: Some(Algorithm::Assigned(iana::Algorithm::ES256)), rest: vec![(Label::Int(1), Value::Null)], ..Default::default() };
    let r = h.to_vec();
    println!("header dup typed/extra: {:?}", r.map(hex::encode));
}
