use coset::CborSerializable;
fn head(major: u8, n: usize, out: &mut Vec<u8>) {
    let m = major << 5;
    if n < 24 { out.push(m | n as u8) }
    else if n < 256 { out.push(m | 24); out.push(n as u8) }
    else if n < 65536 { out.push(m | 25); out.extend_from_slice(&(n as u16).to_be_bytes()) }
    else { out.push(m | 26); out.extend_from_slice(&(n as u32).to_be_bytes()) }
}
fn main() {
    let depth: usize = std::env::args().nth(1).unwrap().parse().unwrap();
    // innermost header: empty map
    let mut hdr: Vec<u8> = vec![0xa0];
    for _ in 0..depth {
        // header map {7: [ bstr(hdr), {}, h'' ]}
        let mut h = vec![0xa1, 0x07, 0x83];
        head(2, hdr.len(), &mut h);
        h.extend_from_slice(&hdr);
        h.push(0xa0);
        h.push(0x40);
        hdr = h;
    }
    println!("input bytes: {}", hdr.len());
    let r = coset::Header::from_slice(&hdr);
    println!("decoded ok={}", r.is_ok());
    if let Ok(h) = r { let c = h.clone(); println!("eq={}", c == h); }
}
