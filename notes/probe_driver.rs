#![feature(rustc_private)]
extern crate rustc_driver;
extern crate rustc_hir;
extern crate rustc_interface;
extern crate rustc_middle;
extern crate rustc_span;

use rustc_driver::Compilation;
use rustc_hir::def::DefKind;
use rustc_middle::mir::TerminatorKind;
use rustc_middle::ty::{self, TyCtxt, EarlyBinder};

struct Cb;
impl rustc_driver::Callbacks for Cb {
    fn after_analysis<'tcx>(&mut self, _c: &rustc_interface::interface::Compiler, tcx: TyCtxt<'tcx>) -> Compilation {
        // (a) doc attrs
        for ldid in tcx.hir_body_owners() {
            let did = ldid.to_def_id();
            let kind = tcx.def_kind(did);
            if matches!(kind, DefKind::AssocFn | DefKind::Fn) {
                let name = tcx.def_path_str(did);
                if name.contains("verify_detached_signature") || name.contains("HeaderBuilder::value") {
                    let mut docs = String::new();
                    for a in tcx.get_all_attrs(did) {
                        if let Some((s, _)) = a.doc_str_and_fragment_kind() { docs.push_str(s.as_str()); docs.push('\n'); }
                    }
                    eprintln!("DOC {} has_panics={} vis={:?}", name, docs.contains("# Panics"), tcx.visibility(did));
                }
            }
            // (b) const bodies
            if matches!(kind, DefKind::Const { .. }) {
                let name = tcx.def_path_str(did);
                if name.ends_with("::ISS") || name.ends_with("header::ALG") {
                    let body = tcx.mir_for_ctfe(did);
                    eprintln!("CONST {} blocks={} ty={:?}", name, body.basic_blocks.len(), tcx.type_of(did).skip_binder());
                    for bb in body.basic_blocks.iter() { for st in &bb.statements { eprintln!("   {:?}", st); } }
                }
            }
        }
        // (c) instantiate default method from_slice with Self=Header, resolve inner calls
        for ldid in tcx.hir_body_owners() {
            let did = ldid.to_def_id();
            if tcx.def_path_str(did) != "header::ProtectedHeader::from_cbor_bstr" { continue; }
            let body = tcx.optimized_mir(did);
            let env = ty::TypingEnv::post_analysis(tcx, did);
            for bb in body.basic_blocks.iter() {
                if let Some(t) = &bb.terminator { if let TerminatorKind::Call { func, .. } = &t.kind {
                    if let ty::FnDef(cd, args) = func.ty(&body.local_decls, tcx).kind() {
                        let inst = ty::Instance::try_resolve(tcx, env, *cd, args).ok().flatten();
                        eprintln!("CALL {} args={:?} -> {:?}", tcx.def_path_str(*cd), args, inst.map(|i| (tcx.def_path_str(i.def_id()), i.args)));
                        if let Some(i) = inst { if tcx.def_path_str(i.def_id()).ends_with("from_slice") {
                            let ib = tcx.optimized_mir(i.def_id());
                            for bb2 in ib.basic_blocks.iter() { if let Some(t2) = &bb2.terminator { if let TerminatorKind::Call { func: f2, .. } = &t2.kind {
                                let fty = f2.ty(&ib.local_decls, tcx);
                                let fty = tcx.instantiate_and_normalize_erasing_regions(i.args, ty::TypingEnv::fully_monomorphized(), EarlyBinder::bind(fty));
                                if let ty::FnDef(cd2, a2) = fty.kind() {
                                    let r = ty::Instance::try_resolve(tcx, ty::TypingEnv::fully_monomorphized(), *cd2, a2).ok().flatten();
                                    eprintln!("   INNER {} -> {:?}", tcx.def_path_str(*cd2), r.map(|x| tcx.def_path_str_with_args(x.def_id(), x.args)));
                                }
                            }}}
                        }}
                    }
                }}
            }
        }
        Compilation::Continue
    }
}
fn main() {
    let mut args: Vec<String> = std::env::args().collect();
    args.remove(1);
    rustc_driver::run_compiler(&args, &mut Cb);
}
