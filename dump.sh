#!/bin/bash
# usage: dump.sh <repo-dir> <out-dir> [cargo feature args...]
# Runs the fact dumper over the coset working tree in <repo-dir>; writes <out-dir>/coset.json
set -e
REPO=$1; OUT=$2; shift 2
NONCE=${MIRFACTS_NONCE:-$(date +%s%N)}
TGT=${MIRFACTS_TARGET:-/verif/out/target}
mkdir -p "$OUT" "$TGT"
rm -rf "$TGT"/debug/.fingerprint/coset-* "$OUT"/coset.json
cd "$REPO"
LD_LIBRARY_PATH=$(rustc +nightly --print sysroot)/lib \
RUSTFLAGS="-Zmir-opt-level=0 -Awarnings" \
RUSTC_WORKSPACE_WRAPPER=/verif/driver/target/release/coset-mirfacts \
MIRFACTS_OUT="$OUT" MIRFACTS_NONCE="$NONCE" CARGO_TARGET_DIR="$TGT" CARGO_NET_OFFLINE=true \
cargo +nightly check --offline --lib "$@" 2>&1
