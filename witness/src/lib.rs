//! Type-level witnesses for C14 R-4 (compile-fail / compiling-twin pairs, nothing is executed: the
//! compiling twins are `no_run`).  Each `compile_fail` block differs from its twin only in the type
//! named, so the only reason it fails to build is that the type has no tagged API (E0599: the
//! trait `TaggedCborSerializable` is in scope but not implemented for it).
//!
//! Twin: a taggable type has the tagged decoder and encoder.
//! ```no_run
//! use coset::{CborSerializable, TaggedCborSerializable};
//! let _ = coset::CoseSign1::from_tagged_slice(&[]);
//! let _ = coset::CoseSign1::default().to_tagged_vec();
//! let _ = coset::CoseSign1::from_slice(&[]);
//! ```
//!
//! COSE_Signature is not taggable:
//! ```compile_fail,E0599
//! use coset::{CborSerializable, TaggedCborSerializable};
//! let _ = coset::CoseSignature::from_tagged_slice(&[]);
//! ```
//! ```compile_fail,E0599
//! use coset::{CborSerializable, TaggedCborSerializable};
//! let _ = coset::CoseSignature::default().to_tagged_vec();
//! ```
//! ```no_run
//! use coset::{CborSerializable, TaggedCborSerializable};
//! let _ = coset::CoseSignature::from_slice(&[]);
//! ```
//!
//! COSE_recipient is not taggable:
//! ```compile_fail,E0599
//! use coset::{CborSerializable, TaggedCborSerializable};
//! let _ = coset::CoseRecipient::from_tagged_slice(&[]);
//! ```
//! ```no_run
//! use coset::{CborSerializable, TaggedCborSerializable};
//! let _ = coset::CoseRecipient::from_slice(&[]);
//! ```
//!
//! COSE_Key, headers, key sets, claims sets and KDF contexts are not taggable:
//! ```compile_fail,E0599
//! use coset::{CborSerializable, TaggedCborSerializable};
//! let _ = coset::CoseKey::from_tagged_slice(&[]);
//! ```
//! ```compile_fail,E0599
//! use coset::{CborSerializable, TaggedCborSerializable};
//! let _ = coset::Header::from_tagged_slice(&[]);
//! ```
//! ```compile_fail,E0599
//! use coset::{CborSerializable, TaggedCborSerializable};
//! let _ = coset::ProtectedHeader::from_tagged_slice(&[]);
//! ```
//! ```compile_fail,E0599
//! use coset::{CborSerializable, TaggedCborSerializable};
//! let _ = coset::CoseKeySet::from_tagged_slice(&[]);
//! ```
//! ```compile_fail,E0599
//! use coset::{CborSerializable, TaggedCborSerializable};
//! let _ = coset::cwt::ClaimsSet::from_tagged_slice(&[]);
//! ```
//! ```compile_fail,E0599
//! use coset::{CborSerializable, TaggedCborSerializable};
//! let _ = coset::CoseKdfContext::from_tagged_slice(&[]);
//! ```
//! ```no_run
//! use coset::{CborSerializable, TaggedCborSerializable};
//! let _ = coset::CoseKey::from_slice(&[]);
//! let _ = coset::Header::from_slice(&[]);
//! let _ = coset::ProtectedHeader::from_slice(&[]);
//! let _ = coset::CoseKeySet::from_slice(&[]);
//! let _ = coset::cwt::ClaimsSet::from_slice(&[]);
//! let _ = coset::CoseKdfContext::from_slice(&[]);
//! ```
//!
//! The six taggable types:
//! ```no_run
//! use coset::{CborSerializable, TaggedCborSerializable};
//! let _ = coset::CoseSign::from_tagged_slice(&[]);
//! let _ = coset::CoseSign1::from_tagged_slice(&[]);
//! let _ = coset::CoseEncrypt::from_tagged_slice(&[]);
//! let _ = coset::CoseEncrypt0::from_tagged_slice(&[]);
//! let _ = coset::CoseMac::from_tagged_slice(&[]);
//! let _ = coset::CoseMac0::from_tagged_slice(&[]);
//! ```
